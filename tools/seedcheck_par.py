#!/usr/bin/env python3
"""Run every registered check against seeded changes, each applied to a scratch copy (never to /repo), in parallel.

usage: seedcheck_par.py [--jobs N] [--json OUT] <dir containing patch.diff> [...]
Prints, per change, which properties' checks report a violation / an analysis error, with the first lines.
"""
import contextlib
import io
import json
import os
import shutil
import subprocess
import sys
from concurrent.futures import ProcessPoolExecutor

VERIF = os.path.dirname(os.path.dirname(os.path.abspath(__file__)))
sys.path.insert(0, VERIF)
PROPS = [f"C{i:02d}" for i in range(1, 21)]


def one(args):
    d, prop = args
    from sa.check import run_property
    from sa.variants import make_root

    root = make_root("/repo", [])
    try:
        r = subprocess.run(["patch", "-p1", "-s", "-d", root, "-i", os.path.join(d, "patch.diff")], capture_output=True, text=True)
        if r.returncode != 0:
            return d, prop, -1, [r.stdout[:200] + r.stderr[:200]]
        buf = io.StringIO()
        with contextlib.redirect_stdout(buf), contextlib.redirect_stderr(buf):
            rc = run_property(prop, root, "quick", 0, write=False)
        out = buf.getvalue()
    finally:
        shutil.rmtree(root, ignore_errors=True)
    lines = [l[:300] for l in out.splitlines() if l.startswith(("VIOLATED:", "ANALYSIS-ERROR"))][:3]
    return d, prop, rc, lines


def main():
    jobs, out_json, dirs = 16, None, []
    it = iter(sys.argv[1:])
    for a in it:
        if a == "--jobs":
            jobs = int(next(it))
        elif a == "--json":
            out_json = next(it)
        else:
            dirs.append(os.path.abspath(a))
    tasks = [(d, p) for d in dirs for p in PROPS]
    res = {}
    with ProcessPoolExecutor(max_workers=jobs) as ex:
        for d, prop, rc, lines in ex.map(one, tasks, chunksize=2):
            res.setdefault(d, {})[prop] = (rc, lines)
    summary = {}
    for d in dirs:
        fired = [p for p in PROPS if res[d][p][0] == 1]
        errs = [p for p in PROPS if res[d][p][0] == 2]
        bad = [p for p in PROPS if res[d][p][0] == -1]
        print(f"== {d}: fired={fired} analysis-error={errs}" + (" PATCH-DOES-NOT-APPLY" if bad else ""))
        for p in fired + errs:
            for l in res[d][p][1]:
                print(f"     {p}: {l}")
        summary[d] = {"fired": fired, "analysis_error": errs, "lines": {p: res[d][p][1] for p in fired + errs}}
    if out_json:
        json.dump(summary, open(out_json, "w"), indent=1)
    return 0


if __name__ == "__main__":
    sys.exit(main())
