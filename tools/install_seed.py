#!/usr/bin/env python3
"""Install a confirmed seeded change into /verif/seeded/<name>/ (patch.diff, demo.py, notes.md, meta.json).

usage: install_seed.py <seed dir> <name> <property id>
Requires /tmp/cf/<name>.result from tools/confirm_seed.sh (demo clean=0, patched=1, no unexpected test failure).
Runs every registered check against the patch (applied to /repo, then reverted) and records which fire.
"""
import json, os, re, shutil, subprocess, sys

VERIF = os.path.dirname(os.path.dirname(os.path.abspath(__file__)))


def main():
    sd, name, prop = sys.argv[1:4]
    res = open(f"/tmp/cf/{name}.result").read().strip()
    kv = dict(re.findall(r"(\w+)=('[^']*'|\S+)", res))
    ok = kv.get("apply") == "0" and kv.get("demo_clean") == "0" and kv.get("demo_patched") == "1" and kv.get("unexpected_test_failures") == "0"
    if not ok:
        print(f"{name}: NOT confirmed: {res}")
        return 1
    out = subprocess.run(f"/venv/bin/python {VERIF}/tools/seedcheck.py {sd}", shell=True, capture_output=True, text=True, cwd=VERIF).stdout
    m = re.search(r"fired=(\[.*?\]) analysis-error=(\[.*?\])", out)
    fired = eval(m.group(1)) if m else []
    errs = eval(m.group(2)) if m else []
    rules = sorted(set(re.findall(r"— (R-[A-Z-]+) —", out)))
    dst = os.path.join(VERIF, "seeded", name)
    os.makedirs(dst, exist_ok=True)
    for f in ("patch.diff", "demo.py", "notes.md"):
        if os.path.exists(os.path.join(sd, f)):
            shutil.copy(os.path.join(sd, f), os.path.join(dst, f))
    notes = open(os.path.join(sd, "notes.md")).read() if os.path.exists(os.path.join(sd, "notes.md")) else ""
    meta = {
        "name": name,
        "breaks_property": prop,
        "source": "independent sub-agent given only the property text and a scratch worktree",
        "needs_to_manifest": _first_para(notes, ("manifest", "needs", "Needs", "trigger")),
        "confirmed": {
            "how": "tools/confirm_seed.sh in a scratch worktree of /repo HEAD (since removed)",
            "demo_exit_on_clean_tree": 0,
            "demo_exit_with_patch": 1,
            "baseline_suite_with_patch": kv.get("pytest", "").strip("'"),
            "unexpected_test_failures": 0,
        },
        "checks_fired": fired,
        "checks_analysis_error": errs,
        "rules_reporting": rules,
        "detected": bool(fired),
    }
    with open(os.path.join(dst, "meta.json"), "w") as fh:
        json.dump(meta, fh, indent=1)
        fh.write("\n")
    print(f"{name}: installed; fired={fired} rules={rules}")
    return 0


def _first_para(text, keys):
    paras = [p.strip() for p in re.split(r"\n\s*\n", text) if p.strip()]
    for p in paras:
        if any(k in p for k in keys):
            return p[:600]
    return (paras[0][:600] if paras else "")


if __name__ == "__main__":
    sys.exit(main())
