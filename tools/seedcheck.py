#!/usr/bin/env python3
"""Apply a seeded change (patch.diff) to /repo, run every registered check without touching the
evidence files, report which properties' checks fire, and restore /repo.

usage: seedcheck.py <dir containing patch.diff> [...]
"""
import json, os, subprocess, sys

VERIF = os.path.dirname(os.path.dirname(os.path.abspath(__file__)))
PY = "/venv/bin/python"


def run(cmd, **kw):
    return subprocess.run(cmd, shell=True, capture_output=True, text=True, **kw)


def main():
    props = [c["property_id"] for c in json.load(open(os.path.join(VERIF, "MANIFEST.json")))["checks"]]
    extra = [p for p in os.environ.get("SEED_EXTRA_PROPS", "").split(",") if p]
    props = sorted(set(props) | set(extra))
    for d in sys.argv[1:]:
        patch = os.path.join(d, "patch.diff")
        st = run("git -C /repo status --porcelain")
        if st.stdout.strip():
            print("refusing: /repo is dirty"); return 2
        r = run(f"git -C /repo apply {patch}")
        if r.returncode != 0:
            print(f"{d}: patch does not apply: {r.stderr.strip()[:200]}")
            continue
        try:
            fired, errors = [], []
            details = {}
            for p in props:
                c = run(f"{PY} sa/check.py {p} --no-evidence", cwd=VERIF)
                if c.returncode == 1:
                    fired.append(p)
                    details[p] = [l[:260] for l in c.stdout.splitlines() if l.startswith("VIOLATED:")][:3]
                elif c.returncode == 2:
                    errors.append(p)
                    details[p] = [l[:260] for l in c.stdout.splitlines() if l.startswith("ANALYSIS-ERROR")][:2]
            print(f"== {d}: fired={fired} analysis-error={errors}")
            for p, ls in details.items():
                for l in ls:
                    print(f"     {p}: {l}")
        finally:
            run("git -C /repo checkout -- .")
    return 0


if __name__ == "__main__":
    sys.exit(main())
