#!/usr/bin/env python3
"""usage: one_check_census.py <prop> [jobs]  — run one check (from this copy) over /verif/preserving/*; print hard violations per patch"""
import sys, os, glob, json
HERE = os.path.dirname(os.path.dirname(os.path.abspath(__file__)))
sys.path.insert(0, HERE)
sys.path.insert(0, os.path.join(HERE, "tools"))
from concurrent.futures import ProcessPoolExecutor
import alarm_census

def main():
    prop = sys.argv[1]; jobs = int(sys.argv[2]) if len(sys.argv) > 2 else 4
    dirs = sorted(glob.glob("/verif/preserving/C*p-*"))
    with ProcessPoolExecutor(max_workers=jobs) as ex:
        for d, p, o in ex.map(alarm_census.one, [(d, prop) for d in dirs]):
            if o["violated"]:
                print(os.path.basename(d), "VIOL", [(x["rule"], x["role"], x["reason"][:150]) for x in o["violated"]])
            elif o.get("soft") or o["error"]:
                print(os.path.basename(d), "undecided", (o["error"] or "")[:80], [x["role"] for x in o.get("soft", [])][:4])
main()
