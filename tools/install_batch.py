#!/usr/bin/env python3
"""Install confirmed seeded changes of a batch into /verif/seeded/<ID><batch>-<k>/ (patch.diff, demo.py, notes.md, meta.json).

usage: install_batch.py <batch letter> <ID> [<ID> ...]
Reads  /tmp/sw/<ID>/out/<k>/{patch.diff,demo.py,notes.md}, /tmp/cf/<ID><batch>-<k>.result (tools/confirm_seed.sh) and
/tmp/sw/<ID>/first_run.txt (what the checks reported *before* anything was strengthened for this batch).
Runs every registered check against each patch (scratch copies, never /repo) for the current status.
"""
import json
import os
import re
import shutil
import subprocess
import sys

VERIF = os.path.dirname(os.path.dirname(os.path.abspath(__file__)))
BASE = os.environ.get("SEED_BASE", "/tmp/sw")  # where the sub-agents delivered: <BASE>/<ID>/out/<k>/


def parse_first_run(path):
    out = {}
    if not os.path.exists(path):
        jp = path[:-4] + ".json"
        if os.path.exists(jp):
            for d, v in json.load(open(jp)).items():
                out[os.path.basename(d.rstrip("/"))] = (v.get("fired", []), v.get("analysis_error", []))
        return out
    for line in open(path):
        m = re.match(r"== (\S+): fired=(\[.*?\]) analysis-error=(\[.*?\])", line)
        if m:
            out[os.path.basename(m.group(1).rstrip("/"))] = (eval(m.group(2)), eval(m.group(3)))
    return out


def first_para(text, keys):
    paras = [p.strip() for p in re.split(r"\n\s*\n", text) if p.strip()]
    for p in paras:
        if any(k in p.lower() for k in keys):
            return p[:700]
    return paras[0][:700] if paras else ""


def main():
    batch = sys.argv[1]
    ids = sys.argv[2:]
    for ID in ids:
        fr = parse_first_run(f"{BASE}/{ID}/first_run.txt")
        dirs = []
        for k in ("1", "2", "3"):
            sd = f"{BASE}/{ID}/out/{k}"
            name = f"{ID}{batch}-{k}"
            rf = f"/tmp/cf/{name}.result"
            if not (os.path.exists(os.path.join(sd, "patch.diff")) and os.path.exists(rf)):
                print(f"{name}: no patch or no confirmation result yet")
                continue
            res = open(rf).read().strip()
            kv = dict(re.findall(r"(\w+)=('[^']*'|\S+)", res))
            ok = kv.get("apply") == "0" and kv.get("demo_clean") == "0" and kv.get("demo_patched") == "1" and kv.get("unexpected_test_failures") == "0"
            if not ok:
                print(f"{name}: NOT confirmed: {res[:300]}")
                continue
            dirs.append((k, sd, name, kv))
        if not dirs:
            continue
        out = subprocess.run([sys.executable, os.path.join(VERIF, "tools", "seedcheck_par.py"), "--jobs", "8", "--json", f"{BASE}/{ID}/now.json"] + [d[1] for d in dirs],
                             capture_output=True, text=True, cwd=VERIF).stdout
        now = json.load(open(f"{BASE}/{ID}/now.json"))
        for k, sd, name, kv in dirs:
            cur = now.get(os.path.abspath(sd), {"fired": [], "analysis_error": [], "lines": {}})
            rules = sorted({r for ls in cur["lines"].values() for l in ls for r in re.findall(r"— (R-[A-Z-]+) —", l)})
            dst = os.path.join(VERIF, "seeded", name)
            os.makedirs(dst, exist_ok=True)
            for f in ("patch.diff", "demo.py", "notes.md"):
                if os.path.exists(os.path.join(sd, f)):
                    shutil.copy(os.path.join(sd, f), os.path.join(dst, f))
            notes = open(os.path.join(sd, "notes.md")).read() if os.path.exists(os.path.join(sd, "notes.md")) else ""
            f0 = fr.get(k, (None, None))
            meta = {
                "name": name,
                "breaks_property": ID,
                "source": ("independent sub-agent given only the property text and a scratch worktree (batch %s: " % batch) + ("two changes each, written to look like an ordinary refactoring / optimisation pull request)" if batch == "e" else "one change each for an unusual input, a history, two cooperating sites)"),
                "what": first_para(notes, ("what it does", "change", "what the")),
                "needs_to_manifest": first_para(notes, ("manifest", "needs", "trigger", "when it shows")),
                "confirmed": {
                    "how": "tools/confirm_seed.sh in a scratch worktree of /repo HEAD (since removed): demo on the clean tree, demo with the patch, whole suite with the patch",
                    "demo_exit_on_clean_tree": 0,
                    "demo_exit_with_patch": 1,
                    "files_changed": kv.get("files", "").strip("'").split(),
                    "baseline_suite_with_patch": kv.get("pytest", "").strip("'"),
                    "unexpected_test_failures": 0,
                },
                "first_run": {"checks_fired": f0[0], "checks_analysis_error": f0[1], "note": "status of the checks as they stood when the change arrived"},
                "checks_fired": cur["fired"],
                "checks_analysis_error": cur["analysis_error"],
                "rules_reporting": rules,
                "detected": bool(cur["fired"]),
                "detected_by_own_property_check": ID in cur["fired"],
            }
            with open(os.path.join(dst, "meta.json"), "w") as fh:
                json.dump(meta, fh, indent=1)
                fh.write("\n")
            print(f"{name}: installed; first run fired={f0[0]} err={f0[1]}; now fired={cur['fired']} err={cur['analysis_error']} rules={rules[:4]}")
    return 0


if __name__ == "__main__":
    sys.exit(main())
