#!/usr/bin/env python3
"""Bring seeded/*/meta.json up to date with a census (tools/alarm_census.py --out FILE seeded/*/):
checks_fired = checks that report a violation (exit 1), checks_undecided = checks that answer 'cannot speak' (exit 2),
rules_reporting = rules of the violated obligations.  usage: refresh_seed_meta.py <census.json>"""
import json, os, sys
VERIF = os.path.dirname(os.path.dirname(os.path.abspath(__file__)))
c = json.load(open(sys.argv[1]))
n = 0
for d, v in c.items():
    name = os.path.basename(d.rstrip("/"))
    mp = os.path.join(VERIF, "seeded", name, "meta.json")
    if not os.path.exists(mp):
        continue
    m = json.load(open(mp))
    fired = sorted(p for p, o in v.items() if o["violated"])
    und = sorted(p for p, o in v.items() if (o.get("soft") or o["error"]) and not o["violated"])
    rules = sorted({x["rule"] for p in fired for x in v[p]["violated"]})
    old = m.get("checks_fired", [])
    m["checks_fired"], m["checks_undecided"], m["rules_reporting"] = fired, und, rules
    m["checks_analysis_error"] = und
    m["detected"] = bool(fired)
    m["detected_by_own_property_check"] = m.get("breaks_property") in fired
    json.dump(m, open(mp, "w"), indent=1); open(mp, "a").write("\n")
    n += 1
    if set(old) != set(fired):
        print(f"{name}: fired {old} -> {fired}; undecided {und}")
# seeds absent from the census had no finding at all
for name in sorted(os.listdir(os.path.join(VERIF, "seeded"))):
    mp = os.path.join(VERIF, "seeded", name, "meta.json")
    if os.path.exists(mp) and not any(os.path.basename(d.rstrip("/")) == name for d in c):
        m = json.load(open(mp))
        if m.get("checks_fired"):
            print(f"{name}: fired {m['checks_fired']} -> [] (no finding in the census)")
        m["checks_fired"], m["checks_undecided"], m["rules_reporting"], m["detected"], m["detected_by_own_property_check"] = [], [], [], False, False
        m["checks_analysis_error"] = []
        json.dump(m, open(mp, "w"), indent=1); open(mp, "a").write("\n")
print(n, "updated")
