#!/usr/bin/env python3
"""Refresh the per-check status in preserving/*/meta.json from a census made over the committed corpus:
   tools/alarm_census.py --out C.json /verif/preserving/*p-*   then   tools/refresh_preserving_meta.py C.json"""
import glob
import json
import os
import sys

VERIF = os.path.dirname(os.path.dirname(os.path.abspath(__file__)))


def main():
    census = json.load(open(sys.argv[1]))
    n = sil = und = fa = 0
    for mp in sorted(glob.glob(os.path.join(VERIF, "preserving", "*", "meta.json"))):
        d = os.path.dirname(mp)
        c = census.get(d)
        if c is None:
            c = {}  # the census lists only changes some check reacted to
        m = json.load(open(mp))
        fired = sorted(p for p, o in c.items() if o["violated"])
        undecided = sorted(p for p, o in c.items() if (o.get("soft") or o["error"]) and not o["violated"])
        m["checks_reporting_a_violation"] = fired
        m["checks_undecided"] = undecided
        m["false_alarm_rules"] = sorted({x["rule"] for p in fired for x in c[p]["violated"]})
        m["silent_or_undecided_for_all_checks"] = not fired
        json.dump(m, open(mp, "w"), indent=1)
        n += 1
        if fired:
            fa += 1
        elif undecided:
            und += 1
        else:
            sil += 1
    print(f"{n} changes: {sil} silent for all 20 checks, {und} 'cannot speak' only, {fa} with at least one false alarm")


if __name__ == "__main__":
    main()
