#!/bin/bash
# usage: confirm_preserving.sh <dir with patch.diff equiv.py> <name> [pytest workers]
# In a scratch worktree: apply the patch, run equiv.py (must exit 0) and the whole suite. Writes /tmp/cfp/<name>.result
set -u
SD=$1; NAME=$2; NW=${3:-3}
WT=/tmp/cfp/wt_$NAME
mkdir -p /tmp/cfp
git -C /repo worktree add -q --detach $WT HEAD || exit 2
cp /repo/src/gbigsmiles/_version.py $WT/src/gbigsmiles/_version.py
(
cd $WT
git apply $SD/patch.diff; RC_APPLY=$?
FILES=$(git status --short | tr '\n' ' ')
PYTHONPATH=$WT/src timeout 900 /venv/bin/python $SD/equiv.py > /tmp/cfp/$NAME.equiv.log 2>&1; RC_EQ=$?
PYTHONPATH=$WT/src /venv/bin/python -m pytest -q -p no:cacheprovider -n $NW --timeout=3000 tests > /tmp/cfp/$NAME.pytest.log 2>&1
FAILED=$(grep -E "^FAILED" /tmp/cfp/$NAME.pytest.log | grep -v "test_flory_schulz\|test_schulz_zimm" | wc -l)
TAIL=$(tail -1 /tmp/cfp/$NAME.pytest.log)
echo "name=$NAME apply=$RC_APPLY equiv=$RC_EQ unexpected_test_failures=$FAILED files='$FILES' pytest='$TAIL'" > /tmp/cfp/$NAME.result
)
git -C /repo worktree remove --force $WT
