#!/usr/bin/env python3
"""For a set of patches (dirs with patch.diff): run every check on a scratch copy and record every violated obligation /
analysis error (rule, function, role, reason).  usage: alarm_census.py --out FILE [--jobs N] <dir>..."""
import contextlib, io, json, os, shutil, subprocess, sys
from concurrent.futures import ProcessPoolExecutor
VERIF = os.path.dirname(os.path.dirname(os.path.abspath(__file__)))
sys.path.insert(0, VERIF)
PROPS = [f"C{i:02d}" for i in range(1, 21)]

def one(args):
    d, prop = args
    from sa.engine import Engine
    from sa.report import Result, load_known
    from sa.variants import make_root
    import importlib
    root = make_root("/repo", [])
    out = {"violated": [], "error": None}
    try:
        r = subprocess.run(["patch", "-p1", "-s", "-d", root, "-i", os.path.join(d, "patch.diff")], capture_output=True, text=True)
        if r.returncode != 0:
            out["error"] = "patch does not apply"
            return d, prop, out
        try:
            eng = Engine(root)
            if eng.census():
                out["error"] = "census: " + "; ".join(eng.census())[:200]
                return d, prop, out
            mod = importlib.import_module(f"sa.rules.{prop.lower()}")
            res = Result(prop)
            buf = io.StringIO()
            with contextlib.redirect_stdout(buf), contextlib.redirect_stderr(buf):
                try:
                    mod.check(eng, res)
                except Exception as exc:  # noqa: BLE001
                    out["error"] = f"{type(exc).__name__}: {exc}"[:300]
            known = {k["key"] for k in load_known().get("known", []) if k.get("property") == prop}
            for o in res.obligations:
                if not o.ok and o.key not in known:
                    (out["violated"] if not o.soft else out.setdefault("soft", [])).append({"rule": o.rule, "function": o.function, "role": o.role, "reason": o.reason[:300], "instance": o.instance[:160], "loc": o.loc})
            fl = [f"{r_}: found {f} < {m}" for r_, (f, m) in res.floors.items() if f < m]
            if fl and not out["violated"] and not out["error"]:
                out["error"] = "vacuity floor: " + "; ".join(fl)
        except Exception as exc:  # noqa: BLE001
            out["error"] = f"{type(exc).__name__}: {exc}"[:300]
    finally:
        shutil.rmtree(root, ignore_errors=True)
    return d, prop, out

def main():
    jobs, outp, dirs = 8, "/tmp/alarm_census.json", []
    it = iter(sys.argv[1:])
    for a in it:
        if a == "--jobs": jobs = int(next(it))
        elif a == "--out": outp = next(it)
        else: dirs.append(os.path.abspath(a))
    res = {}
    with ProcessPoolExecutor(max_workers=jobs) as ex:
        for d, prop, o in ex.map(one, [(d, p) for d in dirs for p in PROPS], chunksize=2):
            if o["violated"] or o["error"] or o.get("soft"):
                res.setdefault(d, {})[prop] = o
    json.dump(res, open(outp, "w"), indent=1)
    for d in dirs:
        v = res.get(d, {})
        print(d, "fired", sorted(p for p, o in v.items() if o["violated"]), "undecided", sorted(p for p, o in v.items() if (o["error"] or o.get("soft")) and not o["violated"]))

if __name__ == "__main__":
    main()
