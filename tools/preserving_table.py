#!/usr/bin/env python3
"""Markdown table of the behaviour-preserving corpus (preserving/*/meta.json)."""
import glob, json, os, re
VERIF = os.path.dirname(os.path.dirname(os.path.abspath(__file__)))
rows = []
for mp in sorted(glob.glob(os.path.join(VERIF, "preserving", "*", "meta.json"))):
    m = json.load(open(mp))
    what = re.sub(r"\s+", " ", m.get("what", ""))[:120]
    rows.append((m["name"], ", ".join(m.get("checks_reporting_a_violation", [])) or "—", ", ".join(m.get("checks_undecided", [])) or "—", ", ".join(m.get("false_alarm_rules", []))[:80], what))
print("| change | checks reporting a violation (false alarms) | checks answering 'cannot speak' | rules | what it does |")
print("|---|---|---|---|---|")
for r in rows:
    print("| " + " | ".join(x.replace("|", "\\|") for x in r) + " |")
n = len(rows)
silent = sum(1 for r in rows if r[1] == "—" and r[2] == "—")
und = sum(1 for r in rows if r[1] == "—" and r[2] != "—")
print(f"\n{n} changes: {silent} silent for all 20 checks, {und} with 'cannot speak' only, {n - silent - und} with at least one false alarm.")
