#!/usr/bin/env python3
"""Print the table of seeded changes (from seeded/*/meta.json) in Markdown, for DESIGN.md §8."""
import glob, json, os, re

VERIF = os.path.dirname(os.path.dirname(os.path.abspath(__file__)))
rows = []
HIST = json.load(open(os.path.join(VERIF, "seeded", "HISTORY.json"))) if os.path.exists(os.path.join(VERIF, "seeded", "HISTORY.json")) else {}
for mp in sorted(glob.glob(os.path.join(VERIF, "seeded", "*", "meta.json"))):
    m = json.load(open(mp))
    name = m["name"]
    what = m.get("what") or ""
    if not what:
        notes = os.path.join(os.path.dirname(mp), "notes.md")
        if os.path.exists(notes):
            for line in open(notes):
                line = line.strip().lstrip("# ").strip()
                if line and not line.lower().startswith(("notes", "mechanism")):
                    what = line
                    break
    what = re.sub(r"\s+", " ", what)[:110]
    rows.append((name, m["breaks_property"], ", ".join(m.get("checks_fired", [])) or "—", ", ".join(m.get("checks_undecided") or m.get("checks_analysis_error") or []) or "—", ", ".join(m.get("rules_reporting", []))[:70], HIST.get(name, "caught by the checks as they stood"), what))
print("| change | property | checks reporting a violation | checks answering 'cannot speak' | reporting rules | history | what it does |")
print("|---|---|---|---|---|---|---|")
for r in rows:
    print("| " + " | ".join(x.replace("|", "\\|") for x in r) + " |")
print(f"\n{len(rows)} changes; {sum(1 for r in rows if r[2] != '—')} reported as a violation by at least one check; {sum(1 for r in rows if r[1] in r[2])} by the check of the property they were written against; {sum(1 for r in rows if r[2] == '—' and r[3] != '—')} answered only with 'cannot speak'; {sum(1 for r in rows if r[2] == '—' and r[3] == '—')} not noticed.")
