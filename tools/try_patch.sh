#!/bin/bash
# usage: try_patch.sh <dir with patch.diff> <prop> [<prop> ...]   — scratch copy of /repo + patch under /tmp/x, run the given checks, show verdict lines
d=$1; shift
n=$(echo $d | sed 's#/tmp/##; s#/#_#g')
rm -rf /tmp/x/$n; mkdir -p /tmp/x
r=$(/venv/bin/python -c "
import sys; sys.path.insert(0,'/verif')
from sa.variants import make_root; print(make_root('/repo', []))"); mv $r /tmp/x/$n
patch -p1 -s -d /tmp/x/$n -i $d/patch.diff || echo PATCH-FAILED
for p in "$@"; do /venv/bin/python /verif/sa/check.py $p --root /tmp/x/$n --no-evidence 2>&1 | grep "^VIOLATED\|^UNREC\|^SUMMARY\|ANALYSIS-ERROR\|^VIOLATION\|Traceback" | cut -c1-700; done
