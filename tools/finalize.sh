#!/bin/bash
# regenerate quick-tier evidence for all 20 checks, the manifest, and validate everything against the schemas
cd /verif
rc_all=0
# MANIFEST.setup_cmd first: if it fails nothing else is run by the harness
/venv/bin/python sa/selftest.py --engine || { echo "SETUP_CMD FAILS"; exit 3; }
/venv/bin/python sa/norm_examples.py > /dev/null || { echo "canonical-form examples fail"; exit 3; }
for i in $(seq -w 1 20); do /venv/bin/python sa/check.py C$i > /tmp/final_C$i.txt 2>&1; rc=$?; echo -n "C$i=$rc "; [ $rc -ne 0 ] && rc_all=1; done; echo
/venv/bin/python gen_manifest.py
python3-vt - <<'PY'
import json, jsonschema, glob
ms = json.load(open('/root/.vp/MANIFEST.schema.json')); es = json.load(open('/root/.vp/EVIDENCE.schema.json'))
m = json.load(open('/verif/MANIFEST.json')); jsonschema.validate(m, ms)
print('manifest ok:', len(m.get('checks', m.get('properties', []))), 'checks; not_applicable', m.get('not_applicable'))
n = 0
for f in sorted(glob.glob('/verif/evidence/C??.json')):
    jsonschema.validate(json.load(open(f)), es); n += 1
print('evidence ok:', n)
PY
exit $rc_all
