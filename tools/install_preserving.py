#!/usr/bin/env python3
"""Install confirmed behaviour-preserving changes (batch p) into /verif/preserving/<ID>p-<k>/.

usage: install_preserving.py <census json from tools/alarm_census.py> <ID> [<ID> ...]
Reads /tmp/sp/<ID>/out/<k>/{patch.diff,equiv.py,notes.md}, /tmp/cfp/<ID>p-<k>.result (whole suite with the patch, scratch worktree)
and /tmp/sp/equiv_results.txt (equivalence demonstration run in the author's worktree with the patch applied).
"""
import json
import os
import re
import shutil
import sys

VERIF = os.path.dirname(os.path.dirname(os.path.abspath(__file__)))


def main():
    census = json.load(open(sys.argv[1]))
    eq = {}
    if os.path.exists("/tmp/sp/equiv_results.txt"):
        for line in open("/tmp/sp/equiv_results.txt"):
            m = re.match(r"(C\d\d)-(\d) equiv=(\d+)", line.strip())
            if m:
                eq[(m.group(1), m.group(2))] = int(m.group(3))
    for ID in sys.argv[2:]:
        for k in "1234":
            sd = f"/tmp/sp/{ID}/out/{k}"
            name = f"{ID}p-{k}"
            rf = f"/tmp/cfp/{name}.result"
            if not (os.path.exists(os.path.join(sd, "patch.diff")) and os.path.exists(rf)):
                print(f"{name}: missing patch or suite result")
                continue
            kv = dict(re.findall(r"(\w+)=('[^']*'|\S+)", open(rf).read()))
            if kv.get("apply") != "0" or kv.get("unexpected_test_failures") != "0" or eq.get((ID, k)) != 0:
                print(f"{name}: NOT confirmed (apply={kv.get('apply')} unexpected={kv.get('unexpected_test_failures')} equiv={eq.get((ID, k))})")
                continue
            c = census.get(sd, {})
            fired = sorted(p for p, o in c.items() if o["violated"])
            undecided = sorted(p for p, o in c.items() if (o.get("soft") or o["error"]) and not o["violated"])
            dst = os.path.join(VERIF, "preserving", name)
            os.makedirs(dst, exist_ok=True)
            for f in ("patch.diff", "equiv.py", "notes.md"):
                if os.path.exists(os.path.join(sd, f)):
                    shutil.copy(os.path.join(sd, f), os.path.join(dst, f))
            notes = open(os.path.join(sd, "notes.md")).read() if os.path.exists(os.path.join(sd, "notes.md")) else ""
            paras = [p.strip() for p in re.split(r"\n\s*\n", notes) if p.strip()]
            meta = {
                "name": name,
                "written_against": ID,
                "kind": "behaviour-preserving refactoring / optimisation by an independent sub-agent (given only the property text and a scratch worktree)",
                "what": (paras[0] if paras else "")[:700],
                "confirmed": {
                    "equivalence_demo": "equiv.py (original package and changed package side by side) exits 0 in the author's worktree with the patch applied",
                    "suite_with_patch": kv.get("pytest", "").strip("'"),
                    "unexpected_test_failures": 0,
                    "files_changed": kv.get("files", "").strip("'").split(),
                },
                "checks_reporting_a_violation": fired,
                "checks_undecided": undecided,
                "false_alarm_rules": sorted({x["rule"] for p in fired for x in c[p]["violated"]}),
                "silent_or_undecided_for_all_checks": not fired,
            }
            json.dump(meta, open(os.path.join(dst, "meta.json"), "w"), indent=1)
            print(f"{name}: installed; violation reported by {fired}; undecided {undecided}")


if __name__ == "__main__":
    main()
