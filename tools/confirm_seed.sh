#!/bin/bash
# usage: confirm_seed.sh <seed dir with patch.diff demo.py> <name> [pytest workers, default 4]
# Confirms in a scratch worktree: demo exits 0 on clean code, 1 with the patch; existing suite passes with the patch.
# Writes /tmp/cf/<name>.result ; removes the worktree when done.
set -u
SD=$1; NAME=$2; NW=${3:-4}
WT=/tmp/cf/wt_$NAME
mkdir -p /tmp/cf
git -C /repo worktree add -q --detach $WT HEAD || exit 2
cp /repo/src/gbigsmiles/_version.py $WT/src/gbigsmiles/_version.py
(
cd $WT
PYTHONPATH=$WT/src timeout 300 /venv/bin/python $SD/demo.py > /tmp/cf/$NAME.demo_clean.log 2>&1; RC_CLEAN=$?
git apply $SD/patch.diff; RC_APPLY=$?
FILES=$(git status --short | tr '\n' ' ')
PYTHONPATH=$WT/src timeout 300 /venv/bin/python $SD/demo.py > /tmp/cf/$NAME.demo_patched.log 2>&1; RC_PATCHED=$?
PYTHONPATH=$WT/src /venv/bin/python -m pytest -q -p no:cacheprovider -n $NW --timeout=3000 tests > /tmp/cf/$NAME.pytest.log 2>&1
FAILED=$(grep -E "^FAILED" /tmp/cf/$NAME.pytest.log | grep -v "test_flory_schulz\|test_schulz_zimm" | wc -l)
TAIL=$(tail -1 /tmp/cf/$NAME.pytest.log)
echo "name=$NAME apply=$RC_APPLY demo_clean=$RC_CLEAN demo_patched=$RC_PATCHED unexpected_test_failures=$FAILED files='$FILES' pytest='$TAIL'" > /tmp/cf/$NAME.result
)
git -C /repo worktree remove --force $WT
