#!/usr/bin/env python3
"""Development tool (not a registered check): mutation survey of the checker.

Generates first-order mutants of the package sources (comparison / boolean / arithmetic operator swaps, small
constant shifts, negated tests, deleted simple statements, break<->continue), runs every registered check on each
mutant in a scratch root and lists the mutants that NO check reports ("survivors").  Survivors are read by hand:
most are equivalent, caught by the test suite or irrelevant to the 20 properties; the rest point at missing rules.

usage: mutation_survey.py [--files a.py,b.py] [--jobs N] [--root DIR] [--out FILE]
"""
from __future__ import annotations

import ast
import contextlib
import copy
import io
import json
import os
import shutil
import sys
import tempfile
from concurrent.futures import ProcessPoolExecutor

HERE = os.path.dirname(os.path.abspath(__file__))
sys.path.insert(0, os.path.dirname(HERE))

CMP = {ast.Lt: ast.LtE, ast.LtE: ast.Lt, ast.Gt: ast.GtE, ast.GtE: ast.Gt, ast.Eq: ast.NotEq, ast.NotEq: ast.Eq, ast.Is: ast.IsNot, ast.IsNot: ast.Is, ast.In: ast.NotIn, ast.NotIn: ast.In}
ARITH = {ast.Add: ast.Sub, ast.Sub: ast.Add, ast.Mult: ast.Div, ast.Div: ast.Mult}


def mutants_of(text: str):
    """yield (lineno, kind, new_text)"""
    tree = ast.parse(text)
    for node in ast.walk(tree):
        for child in ast.iter_child_nodes(node):
            child._parent = node
    targets = []
    for n in ast.walk(tree):
        fn = n
        while fn is not None and not isinstance(fn, (ast.FunctionDef, ast.AsyncFunctionDef)):
            fn = getattr(fn, "_parent", None)
        if fn is None:
            continue  # only code inside functions
        # skip messages
        p = getattr(n, "_parent", None)
        in_raise = False
        q = n
        while q is not None and not isinstance(q, ast.stmt):
            q = getattr(q, "_parent", None)
        if isinstance(q, (ast.Raise, ast.Assert)) or (isinstance(q, ast.Expr) and isinstance(q.value, ast.Call) and getattr(q.value.func, "id", "") in ("warn", "print")):
            in_raise = True
        if in_raise:
            continue
        if isinstance(n, ast.Compare) and len(n.ops) == 1 and type(n.ops[0]) in CMP:
            targets.append((n, "cmp"))
        elif isinstance(n, ast.BoolOp):
            targets.append((n, "bool"))
        elif isinstance(n, ast.BinOp) and type(n.op) in ARITH and not isinstance(n.left, ast.Constant) or (isinstance(n, ast.BinOp) and type(n.op) in ARITH and isinstance(getattr(n.left, "value", None), (int, float))):
            if not (isinstance(n.left, ast.Constant) and isinstance(n.left.value, str)) and not isinstance(n.left, ast.JoinedStr) and not isinstance(n.right, ast.JoinedStr) \
                    and not (isinstance(n.right, ast.Constant) and isinstance(n.right.value, str)):
                targets.append((n, "arith"))
        elif isinstance(n, ast.Constant) and isinstance(n.value, int) and not isinstance(n.value, bool) and -2 <= n.value <= 3 and not isinstance(p, (ast.Expr,)):
            targets.append((n, "const"))
        elif isinstance(n, (ast.If, ast.While)) and not (isinstance(n.test, ast.Constant)):
            targets.append((n, "negate"))
        elif isinstance(n, (ast.Expr, ast.Assign, ast.AugAssign)) and not (isinstance(n, ast.Expr) and isinstance(n.value, ast.Constant)):
            targets.append((n, "delete"))
        elif isinstance(n, (ast.Break, ast.Continue)):
            targets.append((n, "brk"))
    # deletions that obviously crash (the only definition of a name / the only store of an attribute) say nothing
    name_defs, attr_stores = {}, {}
    for n in ast.walk(tree):
        if isinstance(n, ast.Name) and isinstance(n.ctx, ast.Store):
            name_defs[n.id] = name_defs.get(n.id, 0) + 1
        if isinstance(n, ast.Attribute) and isinstance(n.ctx, ast.Store):
            attr_stores[n.attr] = attr_stores.get(n.attr, 0) + 1
    def crashes(n):
        if isinstance(n, ast.Assign):
            for t in n.targets:
                for x in ast.walk(t):
                    if isinstance(x, ast.Name) and isinstance(x.ctx, ast.Store) and name_defs.get(x.id, 0) <= 1:
                        return True
                    if isinstance(x, ast.Attribute) and isinstance(x.ctx, ast.Store) and attr_stores.get(x.attr, 0) <= 1:
                        return True
        return False
    targets = [(n, k) for n, k in targets if not (k == "delete" and crashes(n))]
    seen = set()
    for n, kind in targets:
        t2 = copy.deepcopy(tree)
        # locate the same node in the copy by position + type
        cand = [m for m in ast.walk(t2) if type(m) is type(n) and getattr(m, "lineno", None) == getattr(n, "lineno", None) and getattr(m, "col_offset", None) == getattr(n, "col_offset", None)
                and getattr(m, "end_col_offset", None) == getattr(n, "end_col_offset", None)]
        if len(cand) != 1:
            continue
        m = cand[0]
        for child in ast.walk(t2):
            for ch in ast.iter_child_nodes(child):
                ch._parent = child
        try:
            if kind == "cmp":
                m.ops = [CMP[type(m.ops[0])]()]
            elif kind == "bool":
                m.op = ast.Or() if isinstance(m.op, ast.And) else ast.And()
            elif kind == "arith":
                m.op = ARITH[type(m.op)]()
            elif kind == "const":
                m.value = m.value + 1
            elif kind == "negate":
                m.test = ast.UnaryOp(op=ast.Not(), operand=m.test)
            elif kind == "delete":
                par = m._parent
                for fld in ("body", "orelse", "finalbody"):
                    blk = getattr(par, fld, None)
                    if isinstance(blk, list) and m in blk:
                        blk[blk.index(m)] = ast.copy_location(ast.Pass(), m)
            elif kind == "brk":
                par = m._parent
                for fld in ("body", "orelse", "finalbody"):
                    blk = getattr(par, fld, None)
                    if isinstance(blk, list) and m in blk:
                        blk[blk.index(m)] = ast.copy_location(ast.Continue() if isinstance(m, ast.Break) else ast.Break(), m)
            new = ast.unparse(ast.fix_missing_locations(t2)) + "\n"
            compile(new, "<mutant>", "exec")
        except Exception:
            continue
        key = (n.lineno, kind, new)
        if new in seen:
            continue
        seen.add(new)
        yield n.lineno, kind, ast.unparse(n)[:70].replace("\n", " "), new


def judge(args):
    root, file, lineno, kind, snippet, new = args
    from sa.check import run_property

    tmp = tempfile.mkdtemp(prefix="sa_mut_")
    try:
        dst = os.path.join(tmp, "src", "gbigsmiles")
        os.makedirs(dst)
        srcdir = os.path.join(root, "src", "gbigsmiles")
        for fn in os.listdir(srcdir):
            if fn.endswith(".py"):
                shutil.copy(os.path.join(srcdir, fn), os.path.join(dst, fn))
        pp = os.path.join(root, "pyproject.toml")
        if os.path.exists(pp):
            shutil.copy(pp, os.path.join(tmp, "pyproject.toml"))
        with open(os.path.join(dst, file), "w") as fh:
            fh.write(new)
        fired, errs = [], []
        for i in range(1, 21):
            p = f"C{i:02d}"
            buf = io.StringIO()
            with contextlib.redirect_stdout(buf), contextlib.redirect_stderr(buf):
                rc = run_property(p, tmp, "quick", 0, write=False)
            if rc == 1:
                fired.append(p)
            elif rc == 2:
                errs.append(p)
        return file, lineno, kind, snippet, fired, errs
    finally:
        shutil.rmtree(tmp, ignore_errors=True)


def main():
    root = "/repo"
    files = None
    jobs = 8
    out = "/tmp/mutation_survey.json"
    select = None
    for a in sys.argv[1:]:
        if a.startswith("--files="):
            files = a.split("=", 1)[1].split(",")
        elif a.startswith("--jobs="):
            jobs = int(a.split("=", 1)[1])
        elif a.startswith("--root="):
            root = a.split("=", 1)[1]
        elif a.startswith("--out="):
            out = a.split("=", 1)[1]
        elif a.startswith("--select="):
            # re-judge only the mutants named by the SURVIVOR / ERRONLY lines of an earlier log
            import re

            select = set()
            for line in open(a.split("=", 1)[1]):
                m = re.match(r"(?:SURVIVOR|ERRONLY) (\S+):(\d+) \[(\w+)\] (.*?)(?: -> \[.*)?$", line.rstrip("\n"))
                if m:
                    select.add((m.group(1), int(m.group(2)), m.group(3), m.group(4).strip()))
    srcdir = os.path.join(root, "src", "gbigsmiles")
    files = files or sorted(f for f in os.listdir(srcdir) if f.endswith(".py") and f not in ("__init__.py", "__main__.py", "_version.py", "chem_resource.py"))
    tasks = []
    for f in files:
        text = open(os.path.join(srcdir, f)).read()
        for lineno, kind, snippet, new in mutants_of(text):
            if select is not None and (f, lineno, kind, snippet.strip()) not in select:
                continue
            tasks.append((root, f, lineno, kind, snippet, new))
    print(f"{len(tasks)} mutants in {len(files)} file(s)", flush=True)
    results = []
    with ProcessPoolExecutor(max_workers=jobs) as ex:
        for k, r in enumerate(ex.map(judge, tasks, chunksize=4)):
            results.append(r)
            if not r[4] and not r[5]:
                print(f"SURVIVOR {r[0]}:{r[1]} [{r[2]}] {r[3]}", flush=True)
            elif not r[4]:
                print(f"ERRONLY {r[0]}:{r[1]} [{r[2]}] {r[3]} -> {r[5]}", flush=True)
            if (k + 1) % 100 == 0:
                surv = sum(1 for x in results if not x[4] and not x[5])
                print(f"  {k + 1}/{len(tasks)} judged, {surv} survivor(s)", flush=True)
    json.dump(results, open(out, "w"), indent=0)
    surv = [x for x in results if not x[4] and not x[5]]
    only_err = [x for x in results if not x[4] and x[5]]
    print(f"{len(results)} mutants: {len(results) - len(surv) - len(only_err)} reported as violation, {len(only_err)} analysis-error only, {len(surv)} survivors")
    for f, ln, kind, snip, _, _ in surv:
        print(f"SURVIVOR {f}:{ln} [{kind}] {snip}")


if __name__ == "__main__":
    main()
