#!/usr/bin/env python3
"""For every breaking variant of sa/variant_defs.py: which (rule, role) obligations are classified soft (UNRECOGNISED) on it while no
hard violation is reported for the property?  Those roles demonstrably carry detections and must not be soft.
usage: variant_soft_audit.py --out FILE [--jobs N]"""
import contextlib, importlib, io, json, os, re, shutil, sys
from concurrent.futures import ProcessPoolExecutor
VERIF = os.path.dirname(os.path.dirname(os.path.abspath(__file__)))
sys.path.insert(0, VERIF)

def one(args):
    vid, prop = args
    from sa.variants import all_variants, make_root, apply_edit
    from sa.engine import Engine
    from sa.report import Result, _norm_role
    v = [x for x in all_variants() if x.vid == vid][0]
    edits = [(v.file, (lambda o, n, c: (lambda t: apply_edit(t, o, n, c)))(v.old, v.new, v.count))] + [(f2, (lambda o, n: (lambda t: apply_edit(t, o, n, 1)))(o2, n2)) for f2, o2, n2 in v.extra]
    try:
        root = make_root("/repo", edits)
    except Exception as exc:
        return vid, prop, None, f"broken: {exc}"
    if root is None:
        return vid, prop, None, "inapplicable"
    try:
        eng = Engine(root)
        mod = importlib.import_module(f"sa.rules.{prop.lower()}")
        res = Result(prop)
        buf = io.StringIO()
        with contextlib.redirect_stdout(buf), contextlib.redirect_stderr(buf):
            try:
                mod.check(eng, res)
            except Exception as exc:  # noqa: BLE001
                pass
        from sa.report import load_known
        known = {k["key"] for k in load_known().get("known", []) if k.get("property") == prop}
        hard = [(o.rule, _norm_role(o.role)) for o in res.obligations if not o.ok and not o.soft and o.key not in known]
        soft = [(o.rule, _norm_role(o.role), o.reason[:120]) for o in res.obligations if not o.ok and o.soft]
        return vid, prop, {"hard": hard, "soft": soft}, ""
    finally:
        shutil.rmtree(root, ignore_errors=True)

def main():
    from sa.variants import all_variants
    jobs, outp = 12, "/tmp/variant_soft_audit.json"
    it = iter(sys.argv[1:])
    for a in it:
        if a == "--jobs": jobs = int(next(it))
        elif a == "--out": outp = next(it)
    tasks = [(v.vid, p) for v in all_variants() if v.kind == "break" and not v.old.startswith("<") for p in v.props]
    out = {}
    with ProcessPoolExecutor(max_workers=jobs) as ex:
        for vid, prop, r, err in ex.map(one, tasks, chunksize=2):
            out[f"{vid}|{prop}"] = r if r is not None else {"error": err}
    json.dump(out, open(outp, "w"), indent=0)
    need = {}
    for k, r in out.items():
        if r and "hard" in r and not r["hard"] and r["soft"]:
            for rule, role, reason in r["soft"]:
                need.setdefault((rule, role), []).append(k)
    for (rule, role), ks in sorted(need.items()):
        print(rule, "|", role, "|", len(ks), ks[:3])

if __name__ == "__main__":
    main()
