"""Rejection analysis: which conditions make a function raise (R-GUARD-*), decision functions (C03)."""
from __future__ import annotations

import ast
import itertools
from typing import Callable, Dict, List, Optional, Tuple

from .formula import (
    Canon,
    F_not,
    atoms_of,
    evaluate,
    parse_expr,
    satisfiable,
    show,
    substitute,
    valuations,
)
from .loader import AnalysisError, FuncInfo, norm, own_nodes, src


class RaiseSite:
    def __init__(self, node, conds, formula, exc):
        self.node = node
        self.conds = conds  # [(expanded test, polarity)]
        self.formula = formula
        self.exc = exc


class Rejections:
    """All explicit raise statements of a function with their path conditions."""

    def __init__(self, eng, fi: FuncInfo):
        self.eng = eng
        self.fi = fi
        self.flow = eng.flow(fi)
        self.canon = Canon()
        self.sites: List[RaiseSite] = []
        cfg = self.flow.cfg
        for n in own_nodes(fi.node):
            if isinstance(n, ast.Raise):
                nid = cfg.node_of(n)
                if not cfg.is_reachable(nid):
                    continue
                conds = []
                fs = []
                for gnid, label in sorted(cfg.guards(nid)):
                    st = cfg.nodes[gnid].stmt
                    if not isinstance(st, (ast.If, ast.While)):
                        continue
                    t = self.flow.expand(st.test, gnid)
                    conds.append((t, label == "T"))
                    try:
                        fs.append(self.canon.formula(t, label == "T"))
                    except AnalysisError:
                        fs.append(("atom", ("opaque", norm(t))))
                exc = None
                if n.exc is not None:
                    e = n.exc
                    if isinstance(e, ast.Call):
                        e = e.func
                    exc = src(e)
                self.sites.append(RaiseSite(n, conds, ("and", fs), exc))

    def terms(self) -> List[ast.AST]:
        seen = {}
        for s in self.sites:
            for t, _ in s.conds:
                for x in ast.walk(t):
                    if isinstance(x, ast.expr) and not isinstance(x, (ast.Constant,)):
                        seen.setdefault(norm(x), x)
        return list(seen.values())

    def rejects(self, expected_src: str, placeholders: Dict[str, Optional[Callable]] = None, max_atoms: int = 18):
        """Does `expected` (a Python expression over placeholders) imply that the function raises?

        Returns (ok, binding text, detail)."""
        placeholders = placeholders or {}
        exp = parse_expr(expected_src)
        names = sorted(placeholders)
        cand_lists = []
        terms = self.terms()
        for nme in names:
            pred = placeholders[nme]
            cl = [t for t in terms if pred is None or _safe(pred, t)]
            if not cl:
                return False, None, f"no term of the guards matches placeholder {nme}"
            cand_lists.append(cl)
        last = "no binding tried"
        for combo in itertools.product(*cand_lists) if names else [()]:
            mapping = dict(zip(names, combo))
            e = substitute(exp, mapping)
            canon = Canon()
            try:
                R = canon.formula(e)
            except AnalysisError as exc:
                last = str(exc)
                continue
            ratoms = atoms_of(R)
            if not satisfiable(R):
                last = "expected rejection predicate unsatisfiable under this binding"
                continue
            # transitive closure of sites sharing atoms
            rel_atoms = set(ratoms)
            chosen = []
            changed = True
            while changed:
                changed = False
                for s in self.sites:
                    if s in chosen:
                        continue
                    sa = atoms_of(s.formula)
                    if _shares(sa, rel_atoms):
                        chosen.append(s)
                        rel_atoms |= sa
                        changed = True
            if not chosen:
                last = "no raise site mentions the bound terms"
                continue
            if len([a for a in rel_atoms if a[0] != "num"]) > max_atoms:
                # fall back to directly related sites only
                chosen = [s for s in self.sites if _shares(atoms_of(s.formula), ratoms)]
                rel_atoms = set(ratoms)
                for s in chosen:
                    rel_atoms |= atoms_of(s.formula)
                if len([a for a in rel_atoms if a[0] != "num"]) > max_atoms:
                    raise AnalysisError(
                        f"{self.fi.qualname}: too many atoms ({len(rel_atoms)}) to decide rejection of {expected_src}"
                    )
            disj = ("or", [s.formula for s in chosen])
            ok = True
            for v in valuations(rel_atoms):
                if evaluate(R, v.__getitem__) and not evaluate(disj, v.__getitem__):
                    ok = False
                    last = "counter-valuation: " + ", ".join(
                        f"{_atxt(a)}={'T' if b else 'F'}" for a, b in sorted(v.items(), key=str) if a in ratoms
                    )
                    break
            if ok:
                return True, {k: src(v) for k, v in mapping.items()}, f"{len(chosen)} raise site(s)"
        return False, None, last


def _atxt(a) -> str:
    return ":".join(str(x)[:40] for x in a)


def _shares(a, b) -> bool:
    if a & b:
        return True
    # numeric atoms on the same subject
    sa = {x[1] for x in a if x[0] == "num"}
    sb = {x[1] for x in b if x[0] == "num"}
    return bool(sa & sb)


def _safe(pred, t) -> bool:
    try:
        return bool(pred(t))
    except Exception:  # noqa: BLE001
        return False


# ---------------------------------------------------------------------- decision functions


def returns_true_formula(eng, fi: FuncInfo, canon: Canon):
    """Formula for 'the function returns a true value', for loop-free if/return/assign bodies."""

    def expr_formula(e, env):
        if isinstance(e, ast.Name) and e.id in env:
            return env[e.id]
        if isinstance(e, ast.Constant):
            return ("const", bool(e.value))
        if isinstance(e, ast.BoolOp):
            fs = [expr_formula(v, env) for v in e.values]
            return ("and", fs) if isinstance(e.op, ast.And) else ("or", fs)
        if isinstance(e, ast.UnaryOp) and isinstance(e.op, ast.Not):
            return F_not(expr_formula(e.operand, env))
        if isinstance(e, ast.IfExp):
            c = expr_formula(e.test, env)
            return ("or", [("and", [c, expr_formula(e.body, env)]), ("and", [F_not(c), expr_formula(e.orelse, env)])])
        return canon.formula(e)

    def block(stmts, env):
        for i, s in enumerate(stmts):
            rest = stmts[i + 1 :]
            if isinstance(s, ast.Return):
                if s.value is None:
                    return ("const", False)
                return expr_formula(s.value, env)
            if isinstance(s, ast.If):
                c = expr_formula(s.test, env)
                t = block(list(s.body) + list(rest), dict(env))
                f = block(list(s.orelse) + list(rest), dict(env))
                return ("or", [("and", [c, t]), ("and", [F_not(c), f])])
            if isinstance(s, ast.Assign) and len(s.targets) == 1 and isinstance(s.targets[0], ast.Name):
                env = dict(env)
                env[s.targets[0].id] = expr_formula(s.value, env)
                continue
            if isinstance(s, ast.Expr) and isinstance(s.value, ast.Constant):
                continue  # docstring
            if isinstance(s, ast.Pass):
                continue
            raise AnalysisError(
                f"{fi.qualname}: statement '{src(s)[:50]}' outside the loop-free if/return/assign fragment A-FINITE evaluates"
            )
        return ("const", False)

    return block(list(fi.node.body), {})
