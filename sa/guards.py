"""Rejection analysis: which conditions make a function raise (R-GUARD-*), decision functions (C03)."""
from __future__ import annotations

import ast
import itertools
from typing import Callable, Dict, List, Optional, Tuple

from .formula import (
    Canon,
    implies,
    F_not,
    atoms_of,
    evaluate,
    parse_expr,
    satisfiable,
    show,
    substitute,
    valuations,
)
from .loader import AnalysisError, FuncInfo, norm, own_nodes, src


class RaiseSite:
    def __init__(self, node, conds, formula, exc):
        self.node = node
        self.conds = conds  # [(expanded test, polarity)]
        self.formula = formula
        self.exc = exc


class Rejections:
    """All explicit raise statements of a function with their path conditions."""

    def __init__(self, eng, fi: FuncInfo):
        self.eng = eng
        self.fi = fi
        self.flow = eng.flow(fi)
        self.canon = Canon()
        self.sites: List[RaiseSite] = []
        cfg = self.flow.cfg
        for n in own_nodes(fi.node):
            if isinstance(n, ast.Raise):
                nid = cfg.node_of(n)
                if not cfg.is_reachable(nid):
                    continue
                conds = []
                fs = []
                for gnid, label in sorted(cfg.guards(nid)):
                    st = cfg.nodes[gnid].stmt
                    if not isinstance(st, (ast.If, ast.While)):
                        continue
                    t = self.flow.expand_shallow(st.test, gnid)
                    conds.append((t, label == "T"))
                    try:
                        fs.append(self.canon.formula(t, label == "T"))
                    except AnalysisError:
                        fs.append(("atom", ("opaque", norm(t))))
                # a raise inside an `except` handler happens only if the guarded statements raised: that condition is not one
                # the role predicates talk about, so the site carries an opaque atom and can never be *implied* by a role
                h = getattr(n, "_parent", None)
                while h is not None and h is not fi.node:
                    if isinstance(h, ast.ExceptHandler):
                        fs.append(("atom", ("opaque", f"exception-caught@{getattr(h, 'lineno', 0)}")))
                        break
                    h = getattr(h, "_parent", None)
                exc = None
                if n.exc is not None:
                    e = n.exc
                    if isinstance(e, ast.Call):
                        e = e.func
                    exc = src(e)
                self.sites.append(RaiseSite(n, conds, ("and", fs), exc))

    def terms(self) -> List[ast.AST]:
        seen = {}
        for s in self.sites:
            for t, _ in s.conds:
                for x in ast.walk(t):
                    if isinstance(x, ast.expr) and not isinstance(x, (ast.Constant,)):
                        seen.setdefault(norm(x), x)
        return list(seen.values())

    def _candidates(self, placeholders):
        names = sorted(placeholders)
        cand_lists = []
        terms = self.terms()
        consts = {}
        for st in self.sites:
            for t, _ in st.conds:
                for x in ast.walk(t):
                    if isinstance(x, ast.Constant) and isinstance(x.value, (int, float)) and not isinstance(x.value, bool):
                        consts.setdefault(repr(x.value), x)
        for nme in names:
            pred = placeholders[nme]
            pool = list(consts.values()) if nme.startswith("K_") else terms
            cl = [t for t in pool if pred is None or _safe(pred, t)]
            if not cl:
                return names, None, f"no term of the guards matches placeholder {nme}"
            cand_lists.append(cl)
        return names, cand_lists, ""

    def site_match(self, expected_src: str, placeholders: Dict[str, Optional[Callable]] = None):
        """Some raise site whose innermost k path conditions are equivalent to `expected`
        (outer conditions are context) and whose whole path condition is satisfiable.

        Returns (ok, binding, detail, site)."""
        from .formula import equivalent

        placeholders = placeholders or {}
        exp = parse_expr(expected_src)
        names, cand_lists, err = self._candidates(placeholders)
        if cand_lists is None:
            return False, None, err, None
        last = "no raise site has these innermost conditions"
        for combo in itertools.product(*cand_lists) if names else [()]:
            mapping = dict(zip(names, combo))
            e = substitute(exp, mapping)
            canon = Canon()
            try:
                R = canon.formula(e)
            except AnalysisError as exc:
                last = str(exc)
                continue
            ratoms = atoms_of(R)
            for s in self.sites:
                fs = s.formula[1]
                for k in range(1, len(fs) + 1):
                    suffix = ("and", fs[-k:])
                    sat = atoms_of(suffix)
                    if not ({a for a in ratoms if a[0] != "num"} <= sat and _num_subjects(ratoms) <= _num_subjects(sat)):
                        continue
                    try:
                        ok, _, _ = equivalent(R, suffix)
                    except AnalysisError:
                        continue
                    if ok:
                        if not satisfiable(s.formula):
                            last = f"matching raise at line {s.node.lineno} is dead (path condition unsatisfiable)"
                            continue
                        ctx = [show(c, self.canon) for c in fs[:-k]]
                        return True, {k2: src(v) for k2, v in mapping.items()}, f"context: {ctx}", s
        return False, None, last, None

    def rejects(self, expected_src: str, placeholders: Dict[str, Optional[Callable]] = None, max_atoms: int = 18):
        """Does `expected` (a Python expression over placeholders) imply that the function raises?

        Returns (ok, binding text, detail)."""
        placeholders = placeholders or {}
        exp = parse_expr(expected_src)
        names, cand_lists, err = self._candidates(placeholders)
        if cand_lists is None:
            return False, None, err
        last = "no binding tried"
        for combo in itertools.product(*cand_lists) if names else [()]:
            mapping = dict(zip(names, combo))
            e = substitute(exp, mapping)
            canon = Canon()
            try:
                R = canon.formula(e)
            except AnalysisError as exc:
                last = str(exc)
                continue
            ratoms = atoms_of(R)
            if not satisfiable(R):
                last = "expected rejection predicate unsatisfiable under this binding"
                continue
            chosen = [s for s in self.sites if _shares(atoms_of(s.formula), ratoms)]
            if not chosen:
                last = "no raise site mentions the bound terms"
                continue
            disj = ("or", [s.formula for s in self.sites])
            ok, model = implies(R, disj)
            if ok:
                return True, {k: src(v) for k, v in mapping.items()}, f"{len(chosen)} related raise site(s)"
            bools, nums = model
            last = "counter-valuation: " + ", ".join(
                f"{_atxt(a)}={'T' if b else 'F'}" for a, b in sorted(bools.items(), key=str) if a in ratoms
            ) + "".join(f", {k[:40]}={v:g}" for k, v in nums.items())
        return False, None, last


def _num_subjects(atoms):
    return {a[1] for a in atoms if a[0] == "num"}


def _atxt(a) -> str:
    return ":".join(str(x)[:40] for x in a)


def _shares(a, b) -> bool:
    if a & b:
        return True
    # numeric atoms on the same subject
    sa = {x[1] for x in a if x[0] == "num"}
    sb = {x[1] for x in b if x[0] == "num"}
    return bool(sa & sb)


def _safe(pred, t) -> bool:
    try:
        return bool(pred(t))
    except Exception:  # noqa: BLE001
        return False


# ---------------------------------------------------------------------- decision functions


def returns_true_formula(eng, fi: FuncInfo, canon: Canon):
    """Formula for 'the function returns a true value', for loop-free if/return/assign bodies."""

    def expr_formula(e, env):
        if isinstance(e, ast.Name) and e.id in env:
            return env[e.id]
        if isinstance(e, ast.Constant):
            return ("const", bool(e.value))
        if isinstance(e, ast.BoolOp):
            fs = [expr_formula(v, env) for v in e.values]
            return ("and", fs) if isinstance(e.op, ast.And) else ("or", fs)
        if isinstance(e, ast.UnaryOp) and isinstance(e.op, ast.Not):
            return F_not(expr_formula(e.operand, env))
        if isinstance(e, ast.IfExp):
            c = expr_formula(e.test, env)
            return ("or", [("and", [c, expr_formula(e.body, env)]), ("and", [F_not(c), expr_formula(e.orelse, env)])])
        return canon.formula(e)

    def block(stmts, env):
        for i, s in enumerate(stmts):
            rest = stmts[i + 1 :]
            if isinstance(s, ast.Return):
                if s.value is None:
                    return ("const", False)
                return expr_formula(s.value, env)
            if isinstance(s, ast.If):
                c = expr_formula(s.test, env)
                t = block(list(s.body) + list(rest), dict(env))
                f = block(list(s.orelse) + list(rest), dict(env))
                return ("or", [("and", [c, t]), ("and", [F_not(c), f])])
            if isinstance(s, ast.Assign) and len(s.targets) == 1 and isinstance(s.targets[0], ast.Name):
                env = dict(env)
                env[s.targets[0].id] = expr_formula(s.value, env)
                continue
            if isinstance(s, ast.Expr) and isinstance(s.value, ast.Constant):
                continue  # docstring
            if isinstance(s, ast.Pass):
                continue
            raise AnalysisError(
                f"{fi.qualname}: statement '{src(s)[:50]}' outside the loop-free if/return/assign fragment A-FINITE evaluates"
            )
        return ("const", False)

    return block(list(fi.node.body), {})
