"""Memoising decorators (functools.lru_cache / cache / cached_property): two necessary conditions for a memo to be
invisible.

M-STALE   a memoised method / property must not read state of its object that is re-assigned after construction
          (its first answer would be kept when the state changes) — unless the memo is dropped where the state changes.
M-SHARED  a memoised function must not hand out an object that is changed after it was handed out: every caller
          receives the *same* object, so a change made for one caller is seen by all.  Decided on the class of the
          returned object: it has a property setter, or one of its constructor-established fields is stored outside its
          constructor somewhere in the package.
"""
from __future__ import annotations

import ast
from typing import Dict, List, Optional, Set

from .loader import ClassInfo, FuncInfo, own_nodes, src

MEMO_DECORATORS = {"lru_cache", "cache", "cached_property"}


def memo_kind(fi: FuncInfo) -> Optional[str]:
    for d in fi.node.decorator_list:
        x = d.func if isinstance(d, ast.Call) else d
        name = x.attr if isinstance(x, ast.Attribute) else getattr(x, "id", None)
        if name in MEMO_DECORATORS:
            return name
    return None


def memoised(eng) -> List[FuncInfo]:
    return [fi for fi in eng.prog.all_functions() if memo_kind(fi)]


def _self_reads(eng, fi: FuncInfo, seen=None, depth=4) -> Set[str]:
    """attributes of `self` the function reads, through its own properties / methods as well"""
    seen = seen if seen is not None else set()
    if fi.qualname in seen or depth <= 0:
        return set()
    seen.add(fi.qualname)
    out = set()
    ci = fi.enclosing_class()
    for n in own_nodes(fi.node):
        if isinstance(n, ast.Attribute) and isinstance(n.value, ast.Name) and n.value.id == "self" and isinstance(n.ctx, ast.Load):
            m = eng.prog.lookup_method(ci, n.attr) if ci is not None else None
            if m is not None:
                out |= _self_reads(eng, m, seen, depth - 1)
            else:
                out.add(n.attr)
    return out


def _stores_outside_ctor(eng, ci: ClassInfo) -> Dict[str, str]:
    """attribute -> where it is (re-)assigned or changed in place after construction, for objects of class ci"""
    from .effects import MUT_METHODS

    out: Dict[str, str] = {}
    names = set()
    for c in eng.prog.mro(ci):
        init = c.method("__init__")
        if init is not None:
            for n in ast.walk(init.node):
                if isinstance(n, ast.Attribute) and isinstance(n.ctx, ast.Store) and isinstance(n.value, ast.Name) and n.value.id == "self":
                    names.add(n.attr)
    family = {c.name for c in eng.prog.classes.values() if eng.prog.is_subclass(c, ci.name) or eng.prog.is_subclass(ci, c.name)}
    for fi in eng.prog.all_functions():
        own = fi.outermost().enclosing_class()
        in_family = own is not None and own.name in family
        if in_family and fi.outermost().name == "__init__":
            continue
        for n in own_nodes(fi.node):
            tgt = None
            if isinstance(n, (ast.Assign, ast.AugAssign, ast.AnnAssign)):
                for t in (n.targets if isinstance(n, ast.Assign) else [n.target]):
                    base = t
                    while isinstance(base, ast.Subscript):
                        base = base.value
                    if isinstance(base, ast.Attribute) and base.attr in names:
                        tgt = base
            elif isinstance(n, ast.Delete):
                for t in n.targets:
                    base = t
                    while isinstance(base, ast.Subscript):
                        base = base.value
                    if isinstance(base, ast.Attribute) and base.attr in names:
                        tgt = base
            elif isinstance(n, ast.Call) and isinstance(n.func, ast.Attribute) and n.func.attr in MUT_METHODS and isinstance(n.func.value, ast.Attribute) and n.func.value.attr in names:
                tgt = n.func.value
            if tgt is None:
                continue
            recv = tgt.value
            if isinstance(recv, ast.Name) and recv.id == "self":
                if not in_family:
                    continue
            else:
                try:
                    ts = eng.infer(recv, fi)
                except Exception:  # noqa: BLE001
                    ts = frozenset()
                insts = {t[1] for t in ts if isinstance(t, tuple) and t and t[0] == "inst"}
                if insts and not (insts & family):
                    continue
                if not insts:
                    # untyped receiver: only attribute names that no other class establishes are attributed to this class
                    others = False
                    for c in eng.prog.classes.values():
                        if c.name in family:
                            continue
                        init = c.method("__init__")
                        if init is not None and any(isinstance(x, ast.Attribute) and x.attr == tgt.attr and isinstance(x.ctx, ast.Store) for x in ast.walk(init.node)):
                            others = True
                    if others:
                        continue
            out.setdefault(tgt.attr, f"{fi.qualname} line {n.lineno}")
    return out


def _invalidated(eng, ci: ClassInfo, name: str) -> bool:
    """the class drops the memo `name` somewhere (`del self.name`, `self.__dict__.pop('name')`, `<f>.cache_clear()`)"""
    for c in eng.prog.classes.values():
        if not (eng.prog.is_subclass(c, ci.name) or eng.prog.is_subclass(ci, c.name)):
            continue
        for n in ast.walk(c.node):
            if isinstance(n, ast.Delete) and any(isinstance(t, ast.Attribute) and t.attr == name for t in n.targets):
                return True
            if isinstance(n, ast.Call) and isinstance(n.func, ast.Attribute) and n.func.attr == "cache_clear":
                return True
            if isinstance(n, ast.Call) and isinstance(n.func, ast.Attribute) and n.func.attr == "pop" and n.args and isinstance(n.args[0], ast.Constant) and n.args[0].value == name:
                return True
    return False


def memo_rules(eng, res, rule="R-MEMO", only_classes=None, only_modules=None) -> int:
    res.doc(rule, "memoising decorators: no memo of a value that depends on state re-assigned after construction; no memoised factory of objects that are changed after they are handed out")
    n = derived_rules(eng, res, rule, only_classes)
    for fi in memoised(eng):
        ci = fi.enclosing_class()
        if only_classes is not None or only_modules is not None:
            hit = (ci is not None and only_classes and any(eng.prog.is_subclass(ci, b) for b in only_classes)) or (only_modules and fi.module.name in only_modules)
            if not hit:
                continue
        kind = memo_kind(fi)
        n += 1
        res.unit(fi)
        # M-STALE
        if ci is not None and "self" in fi.params:
            reads = _self_reads(eng, fi)
            later = _stores_outside_ctor(eng, ci)
            stale = sorted(a for a in reads if a in later)
            ok = not stale or _invalidated(eng, ci, fi.name)
            res.ob(rule, fi, f"stale:{fi.qualname.split('.', 1)[-1]}", f"`@{kind}` value depends only on state that never changes after construction (or the memo is dropped where it changes)", fi.node, ok,
                   "; ".join(f"reads self.{a}, which is re-assigned in {later[a]}" for a in stale[:3]) + " — the first answer is kept for the object's whole life")
        # M-SHARED
        try:
            rts = eng.return_types(fi)
        except Exception:  # noqa: BLE001
            rts = frozenset()
        for t in sorted(rts, key=str):
            if not (isinstance(t, tuple) and t and t[0] == "inst"):
                continue
            rc = eng.prog.classes.get(t[1])
            if rc is None:
                continue
            setters = [f.name for fs in rc.methods.values() for f in fs if f.is_setter]
            later = _stores_outside_ctor(eng, rc)
            ok = not setters and not later
            why = []
            if setters:
                why.append(f"{rc.name} has setters {sorted(set(setters))}")
            for a, w in list(later.items())[:2]:
                why.append(f".{a} is changed in {w}")
            res.ob(rule, fi, f"shared:{fi.qualname.split('.', 1)[-1]}:{rc.name}", f"`@{kind}` does not hand the same `{rc.name}` object to several callers when such objects are changed after construction", fi.node, ok,
                   "; ".join(why) + " — every caller with equal arguments receives the very same object")
    return n


# attributes whose re-assignment after construction is a deliberate *drop* of a source text, with the reason (one line each)
DERIVED_EXEMPT = {
    "_raw_text": "the text a node was parsed from: every field is derived from it once; the mirror sets it to None so that printers re-derive the text from the parts",
}


def _ctor_taint(eng, init: FuncInfo):
    """for every `self.X = e` in a constructor: the attributes of `self` the stored value was computed from (through the
    constructor's locals; flow-insensitive fixpoint).  A plain copy `self.X = self.A` / `self.X = <parameter>` is not a
    derivation: only values *computed* from A (a call, an operator, a comprehension … over A) go stale when A changes."""
    local_src = {}
    stores = {}
    changed = True
    assigns = []
    for n in own_nodes(init.node):
        if isinstance(n, ast.Assign):
            for t in n.targets:
                assigns.append((t, n.value, n))
        elif isinstance(n, (ast.AugAssign, ast.AnnAssign)) and n.value is not None:
            assigns.append((n.target, n.value, n))
        elif isinstance(n, ast.For):
            assigns.append((n.target, n.iter, n))

    def reads(e):
        out = set()
        for x in ast.walk(e):
            if isinstance(x, ast.Attribute) and isinstance(x.value, ast.Name) and x.value.id == "self" and isinstance(x.ctx, ast.Load):
                out.add(x.attr)
            elif isinstance(x, ast.Name) and isinstance(x.ctx, ast.Load) and x.id in local_src:
                out |= local_src[x.id]
        return out

    while changed:
        changed = False
        for t, v, n in assigns:
            r = reads(v)
            names = [x.id for x in ast.walk(t) if isinstance(x, ast.Name) and x.id != "self"] if not isinstance(t, ast.Attribute) else []
            for nm in names:
                if not r <= local_src.get(nm, set()):
                    local_src[nm] = local_src.get(nm, set()) | r
                    changed = True
    for t, v, n in assigns:
        if isinstance(t, ast.Attribute) and isinstance(t.value, ast.Name) and t.value.id == "self":
            computed = not isinstance(v, (ast.Name, ast.Attribute, ast.Constant))
            r = reads(v) if computed else set()
            if isinstance(v, ast.Name) and v.id in local_src:
                r = set(local_src[v.id])
            stores.setdefault(t.attr, (set(), n))[0].update(r - {t.attr})
    return stores


def derived_rules(eng, res, rule="R-MEMO", only_classes=None) -> int:
    """M-DERIVED: a field a constructor *computes* from another field A of the same object is a memo of A: if A is
    re-assigned after construction somewhere in the package, the same function must re-assign the derived field too
    (or the derived field is never read outside the constructor)."""
    n = 0
    for ci in sorted(eng.prog.classes.values(), key=lambda c: c.name):
        if only_classes is not None and not any(eng.prog.is_subclass(ci, b) for b in only_classes):
            continue
        init = ci.method("__init__")
        if init is None:
            continue
        later = _stores_outside_ctor(eng, ci)
        if not later:
            continue
        stores = _ctor_taint(eng, init)
        for x, (srcs, node) in sorted(stores.items()):
            stale = sorted(a for a in srcs if a in later and a not in DERIVED_EXEMPT and a != x)
            if not stale:
                continue
            # read anywhere outside the constructor?
            read = False
            for fi in eng.prog.all_functions():
                if fi.outermost() is init:
                    continue
                for y in own_nodes(fi.node):
                    if isinstance(y, ast.Attribute) and y.attr == x and isinstance(y.ctx, ast.Load):
                        read = True
                        break
                if read:
                    break
            if not read:
                continue
            n += 1
            res.unit(init)
            bad = []
            for a in stale:
                where = later[a]
                fq = where.split(" line ")[0]
                f2 = eng.prog.functions.get(fq)
                redone = False
                if f2 is not None:
                    redone = any(isinstance(y, ast.Attribute) and y.attr == x and isinstance(y.ctx, ast.Store) for y in own_nodes(f2.node))
                if not redone:
                    bad.append(f"computed from self.{a} at construction; self.{a} is re-assigned in {where} and .{x} is not re-computed there")
            res.ob(rule, init, f"derived:{ci.name}.{x}", f"a field the constructor computes from other fields ({', '.join('.' + a for a in stale)}) is re-computed wherever those are re-assigned", node, not bad,
                   "; ".join(bad[:2]) + " — the stored value describes the object as it was constructed")
    return n


POSITIVE = (
    "import functools\n\n\n"
    "class Box:\n"
    "    def __init__(self, m):\n        self._m = m\n        self._k = 1\n        self._n = len(self._m)\n        self._k2 = self._k + 1\n\n"
    "    def grow(self, m):\n        self._m = m\n\n"
    "    def size(self):\n        return self._n + self._k2\n\n"
    "    @functools.cached_property\n    def weight(self):\n        return len(self._m)\n\n"
    "    @functools.cached_property\n    def kind(self):\n        return self._k + 1\n\n\n"
    "@functools.lru_cache(maxsize=None)\ndef make_box(text):\n    return Box(text)\n"
)


def positive_example_fires() -> bool:
    """built-in example: `weight` (reads re-assigned state), `make_box` (hands out a changing object) and the constructor-derived
    field `_n` (computed from `_m`, which `grow` re-assigns without re-computing it) are flagged; `kind` and `_k2` are not"""
    import os
    import shutil
    import tempfile

    from .engine import Engine
    from .report import Result

    tmp = tempfile.mkdtemp(prefix="sa_posex_")
    try:
        d = os.path.join(tmp, "src", "gbigsmiles")
        os.makedirs(d)
        with open(os.path.join(d, "core.py"), "w") as fh:
            fh.write("class BigSMILESbase:\n    pass\n")
        with open(os.path.join(d, "box.py"), "w") as fh:
            fh.write(POSITIVE)
        eng = Engine(tmp)
        r = Result("C10")
        memo_rules(eng, r)
        v = {o.role: o.ok for o in r.obligations}
        return (v.get("stale:Box.weight") is False and v.get("stale:Box.kind") is True and v.get("shared:make_box:Box") is False
                and v.get("derived:Box._n") is False and "derived:Box._k2" not in v)
    finally:
        shutil.rmtree(tmp, ignore_errors=True)
