"""Single source of truth for MANIFEST.json (python gen_manifest.py)."""

_OTHER = (
    "static necessary-condition analysis: every obligation is a structural clause of the property decided on the "
    "current source of /repo for all inputs / random streams / histories at once (all paths of the code), "
    "not the behaviour itself; the undecided (value-level) share is listed in DESIGN.md §3 and in the evidence"
)
_NOTE = (
    "trusted: CPython semantics of the handled constructs, sa/ engine (loader, CFG, reaching definitions, call "
    "resolution), no dynamic patching of the package (census enforced on every run), RDKit/NumPy/SciPy behave as "
    "documented"
)

CHECKS = {
    "C03": {
        "level": "proof",
        "text": "finite universe decided exactly: the source of is_compatible is evaluated by a pure finite-domain evaluator on "
        "the property's whole universe (4x4 symbols x 14x14 ids none/0..12 x 4x4 bond orders = 50176 ordered pairs) and must "
        "equal the conjugation rule on every pair; read-set (weights cannot matter), uniqueness of the relation, the "
        "filter built on it, and the constructor facts (symbol domain, id = int of the complete id text, bond-order table) "
        "connect the written descriptors to that universe",
        "design_ref": "DESIGN.md §2 C03",
        "note": "trusted base: python ast, sa/formula.py + sa/guards.py (A-FINITE), Python == on str/int/enum is an equivalence",
        "technique": "static analysis: finite-domain abstract evaluation of a pure decision function + read-set / who-may-override checks on the AST",
    },
}

CHECKS["C04"] = {
    "level": "other",
    "text": _OTHER + ". C04: single bonding primitive, dominating compatibility test on the bonded pair, bond-order provenance, index shift, consumption of both descriptors, index spaces at the three attach sites, lockstep list bookkeeping.",
    "design_ref": "DESIGN.md §2 C04",
    "note": _NOTE,
    "technique": "static analysis: who-may-call over the resolved call graph, CFG must-pass / post-domination, provenance (reaching definitions) equality of operands",
}
CHECKS["C15"] = {
    "level": "other",
    "text": _OTHER + ". C15: ~53 rejection roles each decided as 'role predicate implies the function raises' by complete search over canonical guard atoms (liveness included), unknown distribution names cannot fall through, every parser while-loop advances on every path, generable is the conjunction over children.",
    "design_ref": "DESIGN.md §2 C15, Appendix A",
    "note": _NOTE + "; deep scanner states (site-mode roles) trust their outer path conditions as context",
    "technique": "static analysis: path conditions of raise statements from the CFG, propositional/threshold decision of guard formulas, string-cursor lower bounds for loop progress",
}

def _mk(pid, text, tech, note_extra=""):
    CHECKS[pid] = {
        "level": "other",
        "text": _OTHER + ". " + text,
        "design_ref": f"DESIGN.md §2 {pid}",
        "note": _NOTE + note_extra,
        "technique": "static analysis: " + tech,
    }


_mk("C05", "C05 (structural part only): fragment SMILES template of a token (descriptors become breaks), who may write descriptor indices, binding-atom bookkeeping, single atom source, exactly one bond / edge / combination per attachment, `other` always a fresh single-node fragment (tree by induction), accessors work on copies. Sanitisation, hydrogen counts and mass additivity are NOT decided.",
    "who-may-call over the call graph, CFG exactly-once (dominates all exits, not in a loop), provenance of call arguments")
_mk("C06", "C06 (ordering / pairing part): element order and prefix threading, base guard dominates every attachment, start guards' meaning, reserve/restore pairing of the right-terminal descriptor, capping loop shape and pool, at least one unit (no early return either), hand-over descriptor weight 0, left-terminal transfer, meaning of fully_generated. Termination is NOT decided.",
    "CFG dominance / post-domination, acquire-release pairing with a path-sensitive flag, guard-formula equivalence")
_mk("C07", "C07: one draw per object (outside loops, dominating the growth loop, caller's rng, kept local), do-while shape, the stop test normalised to the linear form M(cur) − M(start) − target > 0, measured molecule is the un-finalised one, finalisation on a deep copy, finalised value returned.",
    "role-located loop, linear normal form of the exit comparison, reaching definitions of the loop-carried molecule, CFG dominance")
_mk("C08", "C08: every rng.choice on the generation path passes p = vector / its own sum, candidates and weights gathered in lockstep, equal-weights rule guard, the 7 (phase, pool, filter) decision points, transition-list decoding, terminal transfer, weight == Σ transitions at every store. Molecule probabilities are NOT decided.",
    "provenance of the p= argument, def-chain inspection, classification of pick sites by pool/filter provenance, sibling-store pairing")
_mk("C10", "C10: rng threaded through every call with an rng parameter and every SciPy rvs, no draw from global random state, no store reachable from ~85 entry points (generate, printers, graph builders, probability, typing, accessors) into constructor-established state of a parsed object (inter-procedural effect analysis with freshness labels; built-in positive example must fire), deep copies at the two MolGen descriptor stores and in the accessors.",
    "inter-procedural effect (store) analysis with ownership/freshness labels over the resolved call graph, provenance of rng arguments, who-may-use census of the global generator")
_mk("C13", "C13: both entry points test the system's generable before the first pick, loop law acc − system_mass < 0 by linear normal form, single accumulation of the yielded molecule's weight on every path, completeness guard dominating yield/return, membership by index space, rng forwarded.",
    "CFG dominance, linear normal form of the loop test, reaching-definition identity of tested / accumulated / yielded molecule")
_mk("C14", "C14 (one information-flow condition): the backward slice of the component pick's probability vector must contain a mass-aware source (violated today: known finding KF-1, System.generator), and independently must contain every component's declared share, normalised and index-aligned. Convergence itself is statistical and NOT decided.",
    "backward slice (provenance) of the p= argument of the component pick")
_mk("C09", "C09 (declaration → sampler wiring only): written name selects the class of that name, each text position reaches the sampler in its documented role (gauss loc/scale, uniform loc/high−low, schulz_zimm z=Mn/(Mw−Mn) & Mn, log_normal M/D, poisson mu, flory_schulz a), rvs/cdf/pmf share parameters, the hand-written laws equal their documented formulas (AC normal form), law objects untruncated, draws returned unchanged, and the loop law of C07 (one draw, at least one unit, stop at the first unit beyond the target). The statistical law of block sizes is NOT decided.",
    "writer/reader table agreement, symbolic dataflow from text positions to sampler keyword roles, sibling agreement of call keywords")
_mk("C11", "C11 (coherence of the wiring): identical shape parameters for rvs / both cdf / pmf-pdf on the same object, interval = cdf(value) − cdf(previous) with `previous` read before the addition, unknown names cannot fall through, text form ↔ parameters, the three hand-written mass / density functions compared with the documented formulas in an associative-commutative normal form (and the derived log-normal cdf / ppf if present), law objects created with their name only, a family's draw returned unchanged. Normalisation, support of SciPy's samplers, means and sampler failures are NOT decided.",
    "sibling agreement of call keywords, def-use order in the interval accumulator, CFG exit analysis of the dispatcher")
_mk("C12", "C12 (algebra and guards): the three derived assignments of the linked setters normalise to the one relation 100·absolute = relative·system, remainder rule (definition, branch, targets), system-mass propagation to every component on the generable path, the two under-determined paths, range / consistency guards. Values over the configuration space are NOT decided.",
    "rational-monomial normal form of assignments, CFG dominance / loop-completion queries, guard-formula implication")
_mk("C01", "C01 (printer/parser structure): the 13 printers' templates satisfy T(False) = erase(T(True)) with children by induction, flag threading, what the parser reads beyond defaults is printed, distribution keyword / parameter-order / printed-value-is-sampled-value agreement, mixture form agreement, no iteration over a definite non-iterable, bounded look-ahead, inserted descriptors satisfy the acceptance predicate. Object equality after re-parse is NOT decided.",
    "printer-template extraction by partial evaluation, template erasure comparison, writer/reader table agreement, light type inference, guard-formula equivalence")
_mk("C02", "C02 (four structural conditions): branch bookkeeping is driven by a left-to-right traversal of the text, every find/rfind slice bound is taken on the sliced string (package-wide) and following text stops at ')' and '[', weight / list-weight definitions at every exit of the descriptor constructor, bond-order table, descriptor numbering. The scanner's behaviour on arbitrary SMILES text is NOT decided.",
    "information-flow shape of the stack updates, reaching-definition identity of slice operands, guard structure of attribute stores, finite evaluation of the bond-order ladder")
_mk("C16", "C16: node coverage (both element kinds, repeat and end tokens, one node per descriptor, identity hashing), for each of the probability families the normaliser loop and the edge loop agree on collection / filter / term, scalar-weight probability edges are control-dependent on is_compatible of their endpoints, edge pools equal the generator's pools, zero-weight targets excluded from constant edges. Numeric equality in degenerate cases is NOT decided.",
    "sibling agreement between accumulate and emit loops (conjunct sets modulo loop-variable renaming), control dependence of add_edge sites, provenance of the normalised list")
_mk("C17", "C17: both element kinds dispatched, one node per atom of the token's own fragment with that atom's attributes, counter/offset lockstep, one static edge per bond with its order, every non-static edge control-dependent on is_compatible of exactly its two endpoint descriptors with their order and exactly one weight of the right provenance, endpoints use their own token's offset, transition-list alignment over the full descriptor list, no edge leaves an end group, targets of growth / termination / transition edges of the right kind. Completeness of edges for all molecules is NOT decided.",
    "control dependence and provenance of add_edge sites, sibling agreement over the three edge families, lockstep bookkeeping by statement order and CFG reachability")
_mk("C18", "C18: every node id obtained from _add_node outside the static completion flows into _fill_static_edges (4 sites; the completion adds the whole residue and every static bond), every non-static bond joins the edge list's owner with a node created from the selected edge's target and carries the selected edge's order (3 sites), all picks and the draw use self.rng with weights divided by their sum, a node that bonded clears its edge lists (3 sites), the static template takes bond orders from static edges only, to_mol adds one atom per node and one bond per edge with its order. Termination, tree-ness and sanitisation are NOT decided.",
    "def-use flow (typestate bare -> completed) with caller/callee summaries, provenance equality of selected-edge fields, rng receiver census")
_mk("C19", "C19 (accounting structure only): masses are accumulated per element only for plain tokens and repeat units (cross-check with the generator's law), the final log-probability adds log prob_mw(interval accumulator) for exactly the stochastic elements and only for fully explored matches without open atoms, start probabilities are 1 / normalised end-group weights and are used as initial probabilities, interval = cdf(value) − cdf(previous), search copies are plain deep copies. Equality of the numbers, the ensemble sum and atom-order invariance are NOT decided.",
    "control dependence of accumulation sites on element / token kind, provenance of the product terms, def-use order in the interval accumulator")
_mk("C20", "C20: argument-role dataflow of the force-field cache (constructor roles, key pairs, both names in the key), readers' roles, partial molecules refused before typing, hydrogens added, dedicated error built from the partial dictionary with the molecule attached and re-raised, one parameter set per matched atom, typing and look-ups are read-only on the assigner (effect analysis), type ids injective and the look-up chain rule → type → id → parameters intact, None → bundled files shipped as package data. Element-consistent masses and numbering independence are NOT decided.",
    "argument-role dataflow through module variables, CFG dominance of guards, inter-procedural effect analysis, package-data census")

# rules added in the second / third build round (DESIGN.md §9)
EXTRA = {
    "C01": " Added later: insertion conditions as a finite table over (elements so far x descriptors on the token); no child printed through str() / an f-string hole (type-aware); numbers written into notation text in full precision (R-PRINT-EXACT); the text window handed to the distribution readers.",
    "C02": " Added later: token scanner order (pending text flushed before every atom and at the end, cursor drops exactly the consumed prefix: forward must-analysis), atom tables (organic subset + aromatic forms, Cl/Br, two letters first), loop-carried flags (A-FRESH).",
    "C03": " Added later: the same object on both sides gets the verdict of an equal copy; id text analysed also through regular expressions (group quantifier) and rejected when it is a single character; no notation class customises copying (R-COPY-PLAIN).",
    "C05": " Added later: token scanner order and atom tables (shared with C02).",
    "C06": " Added later: insertion conditions (shared with C01), the inverted-terminal text, loop-carried flags, fully_generated as a stored flag must be refreshed after every change of the descriptor list.",
    "C08": " Added later: every written unit is a candidate once per occurrence, in written order (R-UNITS-ALL).",
    "C09": " Added later: text window of the distribution readers; ensemble loop exits (shared with C13).",
    "C10": " Added later: no class customises copying; a field value shared by reference with the parsed object is never changed in place (R-SHARED-FIELD).",
    "C11": " Added later: an interval argument is answered only by the difference of the family's cdf (no family-specific shortcut).",
    "C12": " Added later: an estimate's inclusion never depends on the estimates already collected; 'known' means 'not None' in the system-mass setter (0 % is a percentage); full-precision printing (shared with C01).",
    "C13": " Added later: the ensemble loop is left only through its test and an accumulated molecule is always yielded; meaning of generable / weight / fully_generated shared from C15 / C05 / C06.",
    "C14": " Added later: the same rules for single-molecule generation; only picked components are generated.",
    "C16": " Added later: the zero-total replacement applies to a zero total only (threshold <= 1e-12); a listed weight vector is emitted by one site as one probability kind; loop-carried flags.",
    "C17": " Added later: multigraph with unkeyed insertions (parallel descriptor pairs kept), loop-carried flags with a typed path-feasibility fact, inverted-terminal text.",
    "C18": " Added later: the static completion follows every entry (never-false loop tests recognised), helper picks receive self.rng, a new graph per generate().",
    "C19": " Added later: per-step probabilities (list entry / list total; weight / sum of compatible weights; atom weight / sum over open atoms), the duplicate filter cannot merge states with different block masses, unique substructure matches, plain copies.",
    "C20": " Added later: cache key compares the caller's own arguments, rule patterns reach RDKit verbatim, no class-level lookup tables, stored fully_generated flag.",
}
# rules added in the third build session (DESIGN.md §10)
EXTRA3 = {
    "C01": " Session 3: descriptors that bind an atom are constructed by the token scanner only (an inserted descriptor is parsed like a written one; R-DESCR-ORIGIN).",
    "C02": " Session 3: R-DESCR-ORIGIN (BondDescriptor constructions outside the scanner designate no atom, or the kept branch-stack top inside a builder method of the token class; a token's lists are filled by its constructor).",
    "C04": " Session 3: R-DESCR-ORIGIN shared from C02; R-INDEX-WRITERS decided with the effect analysis (a writer on a private deep copy is not a writer of the designated atom).",
    "C05": " Session 3: R-DESCR-ORIGIN shared from C02; memoising decorators on MolGen accessors (R-MEMO).",
    "C07": " Session 3: memoising decorators on MolGen / distribution accessors read by the loop (R-MEMO).",
    "C09": " Session 3: nothing bound once per distribution class is re-configured through an instance (R-NO-SHARED-MUTABLE); discrete mass functions are finite at the lower end of their support for all positive shape parameters (R-LAW-FINITE, interval analysis; violated today by the Schulz-Zimm law for Mw > 2 Mn: known finding KF-3/C09).",
    "C10": " Session 3: state that survives a call (memo attributes, module-level / class-level tables) is never changed below its slot nor filled from the random stream (R-NO-HISTORY-STATE over module-level roots, shallow-copy aliasing, may-alias returns and property getters); memoising decorators (R-MEMO); class-level objects never re-configured through an instance.",
    "C11": " Session 3: R-NO-SHARED-MUTABLE for law objects; R-LAW-FINITE (violated today: known finding KF-3, Schulz-Zimm with Mw > 2 Mn draws 0 always); support bounds a / b on a law object are reported as information (mass outside not decided).",
    "C12": " Session 3: a setter stores the caller's value itself (no re-scaling, one reaching definition); memoised factories of Mixture objects (R-MEMO).",
    "C13": " Session 3: memoising decorators on the accessors the loop reads (R-MEMO).",
    "C14": " Session 3: the declared share the pick reads is stored verbatim by the mixture setters (shared with C12).",
    "C17": " Session 3: a descriptor's token-local atom index is written by the parser and the attachment shift only, or on a private deep copy (R-INDEX-WRITERS, effect-based, shared with C04).",
    "C18": " Session 3: entry flags resolved through parameter defaults, **CONST tables and forwarding wrappers.",
    "C19": " Session 3: the sum normalising a partner's weight runs over the pool the generator draws from (violated today: known finding KF-2, get_reaction_prob normalises over the partner's own token; probabilities sum to 4/3 with two end groups of one direction).",
}
EXTRA4 = {
    "C06": " Session 4: a field the constructor computes from the terminals must be re-computed where the mirror swaps them (M-DERIVED under R-MEMO).",
    "C08": " Session 4: the growth machinery is located in generate, its closures and the private methods they call; a pick whose closure was renamed takes the place of an unclaimed decision point with its (pool, filter).",
    "C10": " Session 4: R-SHARED-FIELD is interprocedural (a shared array handed to a function that changes that parameter in place, through NumPy's alias-returning calls); draws from the generator SciPy keeps on a law object (`_random_state`) and sampling hooks that ignore their random_state are uses of hidden global state (R-GLOBAL-RNG-USE); constructor-derived fields vs. re-assigned sources (M-DERIVED).",
    "C15": " Session 4: the parameter reader of every distribution family gets exactly the text after the keyword (R-DIST-NAME: `gaussian(…)` is an unknown name, not `gauss`).",
}
for _src in (EXTRA, EXTRA3, EXTRA4):
    for _p, _t in _src.items():
        if _p in CHECKS:
            CHECKS[_p]["text"] += _t
for _p in CHECKS:
    CHECKS[_p]["note"] += "; A-NORM (sa/normalise.py): rules see every module after inlining of trivial helpers, propagation of condition temporaries, inlining of short straight-line private helpers and canonical spelling of updates / text building / all()-any() (also as `if` tests) / append loops / neighbour-pair loops / loops over literal tables / lazily cached loop constants; annotations are dropped"

NOT_APPLICABLE = {}
for _i in range(1, 21):
    _p = f"C{_i:02d}"
    if _p not in CHECKS:
        NOT_APPLICABLE[_p] = "check under construction in this round (static rules designed in DESIGN.md §2; not yet registered)"

NOTES = (
    "All checks: `/venv/bin/python sa/check.py <id>`; exit 0 held / 1 VIOLATION / 2 ANALYSIS-ERROR (analysis cannot speak). "
    "A failed obligation is hard (the recognised construct contradicts the clause: VIOLATION) or soft (the rule did not find / could not "
    "classify the construct: line UNRECOGNISED, exit 2 when nothing hard is found) — DESIGN.md §11. "
    "Thorough tier additionally validates the analysis itself on AST-computed breaking and behaviour-preserving variants of the "
    "current tree (scratch copies under a mkdtemp directory, removed immediately). Known findings: known_findings.json."
)
