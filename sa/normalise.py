"""A-NORM: two behaviour-preserving normalisations applied to every module before any rule looks at it, so that the
rules see one spelling of a computation instead of having to know every refactored form.

(1) trivial helpers are inlined at their call sites: a function whose body is a single `return <expression>` (module
    level or nested, called by its bare name in the same module; or a private method called as `self._name(...)` in
    its own class) — the "extract expression into a helper" refactoring read backwards;
(2) condition temporaries are propagated: `c = <test>` directly in front of an `if` (only other such temporaries in
    between) whose only uses are in that if / elif chain's tests — the "hoist the condition into a variable"
    refactoring read backwards.

Both are classical copy-propagation / inlining steps; they assume the moved expressions have no side effects that the
statements they cross depend on (they cross only other condition temporaries).  Positions of moved nodes are kept
(1: the call site, 2: the original expression), so reports still point at real lines.  On the pinned tree (1) finds
no call site and (2) no temporary: the normal form of today's code is today's code.
"""
from __future__ import annotations

import ast
import copy
from typing import Dict, List, Optional, Set

FUNC = (ast.FunctionDef, ast.AsyncFunctionDef)


# ---------------------------------------------------------------------------------------------- (1) trivial helpers
def _trivial(fn) -> Optional[ast.AST]:
    if not isinstance(fn, ast.FunctionDef):
        return None
    a = fn.args
    if a.vararg or a.kwarg or a.kwonlyargs:
        return None
    body = [s for s in fn.body if not (isinstance(s, ast.Expr) and isinstance(s.value, ast.Constant))]
    if len(body) != 1 or not isinstance(body[0], ast.Return) or body[0].value is None:
        return None
    e = body[0].value
    for n in ast.walk(e):
        if isinstance(n, (ast.Yield, ast.YieldFrom, ast.Await, ast.NamedExpr)):
            return None
        if isinstance(n, ast.Name) and n.id in (fn.name, "super", "locals", "vars", "globals"):
            return None
    # parameters must not be rebound inside the expression (comprehension targets, lambdas)
    params = {x.arg for x in a.posonlyargs + a.args}
    for n in ast.walk(e):
        if isinstance(n, ast.Name) and isinstance(n.ctx, ast.Store) and n.id in params:
            return None
        if isinstance(n, ast.Lambda):
            return None
    return e


def _bind(fn, call: ast.Call, receiver=None) -> Optional[Dict[str, ast.AST]]:
    a = fn.args
    params = [x.arg for x in a.posonlyargs + a.args]
    defaults = dict(zip(params[len(params) - len(a.defaults):], a.defaults))
    env: Dict[str, ast.AST] = {}
    if receiver is not None:
        if not params:
            return None
        env[params[0]] = receiver
        params = params[1:]
    if any(isinstance(x, ast.Starred) for x in call.args) or any(k.arg is None for k in call.keywords):
        return None
    if len(call.args) > len(params):
        return None
    for p, v in zip(params, call.args):
        env[p] = v
    for k in call.keywords:
        if k.arg not in params or k.arg in env:
            return None
        env[k.arg] = k.value
    for p in params:
        if p not in env:
            if p not in defaults:
                return None
            env[p] = defaults[p]
    return env


class _Subst(ast.NodeTransformer):
    def __init__(self, env):
        self.env = env

    def visit_Name(self, n):
        if isinstance(n.ctx, ast.Load) and n.id in self.env:
            return copy.deepcopy(self.env[n.id])
        return n


def _instantiate(expr, env, at) -> ast.AST:
    new = _Subst(env).visit(copy.deepcopy(expr))
    for n in ast.walk(new):
        if isinstance(n, (ast.expr, ast.stmt)) and not any(n is x for v in env.values() for x in ast.walk(v)):
            n.lineno, n.col_offset = at.lineno, at.col_offset
            n.end_lineno, n.end_col_offset = getattr(at, "end_lineno", at.lineno), getattr(at, "end_col_offset", at.col_offset)
    return ast.fix_missing_locations(new)


def _stored_names(fn) -> Set[str]:
    out = {x.arg for x in fn.args.posonlyargs + fn.args.args + fn.args.kwonlyargs}
    for n in ast.walk(fn):
        if isinstance(n, ast.Name) and isinstance(n.ctx, (ast.Store, ast.Del)):
            out.add(n.id)
        elif isinstance(n, FUNC + (ast.ClassDef,)) and n is not fn:
            out.add(n.name)
    return out


class _Inliner(ast.NodeTransformer):
    def __init__(self, by_name: Dict[str, ast.FunctionDef], methods: Dict[str, ast.FunctionDef], stored: Set[str]):
        self.by_name, self.methods, self.stored = by_name, methods, stored
        self.count = 0

    def visit_Call(self, c):
        self.generic_visit(c)
        f = c.func
        fn = recv = None
        if isinstance(f, ast.Name) and f.id in self.by_name:
            fn = self.by_name[f.id]
        elif isinstance(f, ast.Attribute) and isinstance(f.value, ast.Name) and f.value.id == "self" and f.attr in self.methods:
            fn, recv = self.methods[f.attr], f.value
        if fn is None:
            return c
        e = _trivial(fn)
        if e is None:
            return c
        env = _bind(fn, c, recv)
        if env is None:
            return c
        params = set(env)
        free = {n.id for n in ast.walk(e) if isinstance(n, ast.Name) and n.id not in params}
        own_locals = self.stored - set(self.local_helpers)
        if free & own_locals and fn.name not in self.local_helpers:
            return c  # a global the helper reads is shadowed by a local of the caller
        self.count += 1
        return _instantiate(e, env, c)

    local_helpers: Set[str] = frozenset()


def inline_trivial_helpers(tree: ast.Module) -> int:
    top = {s.name: s for s in tree.body if isinstance(s, ast.FunctionDef) and _trivial(s) is not None and not s.decorator_list}
    total = 0

    def do_function(fn, methods):
        nonlocal total
        nested = {s.name: s for s in ast.walk(fn) if isinstance(s, ast.FunctionDef) and s is not fn and _trivial(s) is not None and not s.decorator_list}
        stored = _stored_names(fn)
        by_name = {k: v for k, v in top.items() if k not in stored}
        by_name.update(nested)
        by_name.pop(fn.name, None)
        inl = _Inliner(by_name, {k: v for k, v in methods.items() if v is not fn}, stored)
        inl.local_helpers = set(nested)
        for i, st in enumerate(fn.body):
            fn.body[i] = inl.visit(st)
        total += inl.count

    def walk(body, methods):
        for st in body:
            if isinstance(st, FUNC):
                do_function(st, methods)
            elif isinstance(st, ast.ClassDef):
                ms = {s.name: s for s in st.body if isinstance(s, ast.FunctionDef) and s.name.startswith("_") and not s.name.startswith("__")
                      and not s.decorator_list and _trivial(s) is not None}
                walk(st.body, ms)

    for _ in range(3):  # helpers calling helpers
        before = total
        walk(tree.body, {})
        if total == before:
            break
    return total


# ---------------------------------------------------------------------------------------------- (2) condition temporaries
def _chain_tests(st: ast.If) -> List[ast.If]:
    out = [st]
    while len(out[-1].orelse) == 1 and isinstance(out[-1].orelse[0], ast.If):
        out.append(out[-1].orelse[0])
    return out


def _loads(node, name) -> int:
    return sum(1 for n in ast.walk(node) if isinstance(n, ast.Name) and n.id == name and isinstance(n.ctx, ast.Load))


def _stores(node, name) -> int:
    k = sum(1 for n in ast.walk(node) if isinstance(n, ast.Name) and n.id == name and isinstance(n.ctx, (ast.Store, ast.Del)))
    k += sum(1 for n in ast.walk(node) if isinstance(n, ast.arg) and n.arg == name)
    k += sum(1 for n in ast.walk(node) if isinstance(n, (ast.Global, ast.Nonlocal)) and name in n.names)
    return k


PURE_FUNCS = {"len", "isinstance", "str", "int", "float", "abs", "min", "max", "bool", "tuple", "list", "set", "sorted", "sum", "any", "all", "range", "type"}
PURE_METHODS = {"find", "rfind", "count", "startswith", "endswith", "strip", "lstrip", "rstrip", "split", "is_compatible", "lower", "upper", "index", "get", "keys", "values", "items"}


def _pure(e) -> bool:
    for n in ast.walk(e):
        if isinstance(n, ast.Call):
            f = n.func
            if isinstance(f, ast.Name) and f.id in PURE_FUNCS:
                continue
            if isinstance(f, ast.Attribute) and f.attr in PURE_METHODS:
                continue
            return False
    return True


def propagate_condition_temps(tree: ast.Module) -> int:
    total = 0
    for fn in [n for n in ast.walk(tree) if isinstance(n, FUNC)]:
        changed = True
        while changed:
            changed = False
            for holder in ast.walk(fn):
                for fld in ("body", "orelse", "finalbody"):
                    block = getattr(holder, fld, None)
                    if not (isinstance(block, list) and block and isinstance(block[0], ast.stmt)):
                        continue
                    for i, st in enumerate(block):
                        if not isinstance(st, ast.If) or i == 0:
                            continue
                        prev = block[i - 1]
                        if not (isinstance(prev, ast.Assign) and len(prev.targets) == 1 and isinstance(prev.targets[0], ast.Name)):
                            continue
                        c = prev.targets[0].id
                        chain = _chain_tests(st)
                        in_tests = sum(_loads(x.test, c) for x in chain)
                        if in_tests == 0 or _loads(fn, c) != in_tests or _stores(fn, c) != 1:
                            continue
                        if any(isinstance(x, (ast.NamedExpr, ast.Yield, ast.YieldFrom, ast.Await)) for x in ast.walk(prev.value)):
                            continue
                        if in_tests > 1 and not _pure(prev.value):
                            continue  # would duplicate a call that may have effects
                        sub = _Subst({c: prev.value})
                        for x in chain:
                            x.test = sub.visit(x.test)
                        del block[i - 1]
                        total += 1
                        changed = True
                        break
                    if changed:
                        break
                if changed:
                    break
    return total


def normalise(tree: ast.Module) -> Dict[str, int]:
    a = inline_trivial_helpers(tree)
    b = propagate_condition_temps(tree)
    return {"helpers_inlined": a, "condition_temporaries": b}
