"""A-NORM: two behaviour-preserving normalisations applied to every module before any rule looks at it, so that the
rules see one spelling of a computation instead of having to know every refactored form.

(1) trivial helpers are inlined at their call sites: a function whose body is a single `return <expression>` (module
    level or nested, called by its bare name in the same module; or a private method called as `self._name(...)` in
    its own class) — the "extract expression into a helper" refactoring read backwards;
(2) condition temporaries are propagated: `c = <test>` directly in front of an `if` (only other such temporaries in
    between) whose only uses are in that if / elif chain's tests — the "hoist the condition into a variable"
    refactoring read backwards.

(3) `x = x <op> e` on a plain numeric / text local is written `x <op>= e`.
(4) a `+` chain of text literals, f-strings and `str(...)` calls is written as one f-string.
(5) `return all(P for x in it)` / `any(...)` is written as the early-exit loop it abbreviates.
(6) `x = []` directly followed by a loop that only appends to x is written as the list comprehension.

(1) and (2) are classical copy-propagation / inlining steps; they assume the moved expressions have no side effects that the
statements they cross depend on (they cross only other condition temporaries).  Positions of moved nodes are kept
(1: the call site, 2: the original expression), so reports still point at real lines.  On the pinned tree (1) finds
no call site and (2) no temporary: the normal form of today's code is today's code.
"""
from __future__ import annotations

import ast
import copy
from typing import Dict, List, Optional, Set

FUNC = (ast.FunctionDef, ast.AsyncFunctionDef)


def _class_table(tree) -> Dict[str, ast.ClassDef]:
    return {n.name: n for n in ast.walk(tree) if isinstance(n, ast.ClassDef)}


def _methods_with_inherited(cls: ast.ClassDef, table: Dict[str, ast.ClassDef], pred) -> Dict[str, ast.FunctionDef]:
    """private methods of the class that satisfy `pred`, plus those of its base classes defined in the same module that the
    class (or a nearer base) does not override — `self._helper(...)` resolves to them just the same"""
    out: Dict[str, ast.FunctionDef] = {}
    seen = set()
    order = [cls]
    i = 0
    while i < len(order):
        c = order[i]
        i += 1
        for b in c.bases:
            nm = b.id if isinstance(b, ast.Name) else None
            if nm in table and nm not in seen:
                seen.add(nm)
                order.append(table[nm])
    defined = set()
    for c in order:
        for st in c.body:
            if isinstance(st, ast.FunctionDef):
                if st.name in defined:
                    continue
                defined.add(st.name)
                if st.name.startswith("_") and not st.name.startswith("__") and pred(st):
                    out[st.name] = st
    return out


def _is_static(fn) -> bool:
    return any(isinstance(d, ast.Name) and d.id == "staticmethod" for d in getattr(fn, "decorator_list", []))


def _plain_or_static(fn) -> bool:
    dl = getattr(fn, "decorator_list", [])
    return not dl or (len(dl) == 1 and _is_static(fn))


# ---------------------------------------------------------------------------------------------- (1) trivial helpers
def _trivial(fn) -> Optional[ast.AST]:
    if not isinstance(fn, ast.FunctionDef):
        return None
    a = fn.args
    if a.vararg or a.kwarg or a.kwonlyargs:
        return None
    body = [s for s in fn.body if not (isinstance(s, ast.Expr) and isinstance(s.value, ast.Constant))]
    if len(body) != 1 or not isinstance(body[0], ast.Return) or body[0].value is None:
        return None
    e = body[0].value
    for n in ast.walk(e):
        if isinstance(n, (ast.Yield, ast.YieldFrom, ast.Await, ast.NamedExpr)):
            return None
        if isinstance(n, ast.Name) and n.id in (fn.name, "super", "locals", "vars", "globals"):
            return None
    # parameters must not be rebound inside the expression (comprehension targets, lambdas)
    params = {x.arg for x in a.posonlyargs + a.args}
    for n in ast.walk(e):
        if isinstance(n, ast.Name) and isinstance(n.ctx, ast.Store) and n.id in params:
            return None
        if isinstance(n, ast.Lambda):
            return None
    return e


def _bind(fn, call: ast.Call, receiver=None) -> Optional[Dict[str, ast.AST]]:
    a = fn.args
    params = [x.arg for x in a.posonlyargs + a.args]
    defaults = dict(zip(params[len(params) - len(a.defaults):], a.defaults))
    env: Dict[str, ast.AST] = {}
    if receiver is not None:
        if not params:
            return None
        env[params[0]] = receiver
        params = params[1:]
    if any(isinstance(x, ast.Starred) for x in call.args) or any(k.arg is None for k in call.keywords):
        return None
    if len(call.args) > len(params):
        return None
    for p, v in zip(params, call.args):
        env[p] = v
    for k in call.keywords:
        if k.arg not in params or k.arg in env:
            return None
        env[k.arg] = k.value
    for p in params:
        if p not in env:
            if p not in defaults:
                return None
            env[p] = defaults[p]
    return env


class _Subst(ast.NodeTransformer):
    def __init__(self, env):
        self.env = env

    def visit_Name(self, n):
        if isinstance(n.ctx, ast.Load) and n.id in self.env:
            return copy.deepcopy(self.env[n.id])
        return n


def _instantiate(expr, env, at) -> ast.AST:
    new = _Subst(env).visit(copy.deepcopy(expr))
    for n in ast.walk(new):
        if isinstance(n, (ast.expr, ast.stmt)) and not any(n is x for v in env.values() for x in ast.walk(v)):
            n.lineno, n.col_offset = at.lineno, at.col_offset
            n.end_lineno, n.end_col_offset = getattr(at, "end_lineno", at.lineno), getattr(at, "end_col_offset", at.col_offset)
    return ast.fix_missing_locations(new)


def _stored_names(fn) -> Set[str]:
    out = {x.arg for x in fn.args.posonlyargs + fn.args.args + fn.args.kwonlyargs}
    for n in ast.walk(fn):
        if isinstance(n, ast.Name) and isinstance(n.ctx, (ast.Store, ast.Del)):
            out.add(n.id)
        elif isinstance(n, FUNC + (ast.ClassDef,)) and n is not fn:
            out.add(n.name)
    return out


class _Inliner(ast.NodeTransformer):
    def __init__(self, by_name: Dict[str, ast.FunctionDef], methods: Dict[str, ast.FunctionDef], stored: Set[str]):
        self.by_name, self.methods, self.stored = by_name, methods, stored
        self.count = 0

    def visit_Call(self, c):
        self.generic_visit(c)
        f = c.func
        fn = recv = None
        if isinstance(f, ast.Name) and f.id in self.by_name:
            fn = self.by_name[f.id]
        elif isinstance(f, ast.Attribute) and isinstance(f.value, ast.Name) and f.value.id in ("self", getattr(self, "cls_name", "self")) and f.attr in self.methods:
            fn, recv = self.methods[f.attr], f.value
            if _is_static(fn):
                recv = None
            elif f.value.id != "self":
                return c
        if fn is None:
            return c
        e = _trivial(fn)
        if e is None:
            return c
        env = _bind(fn, c, recv)
        if env is None:
            return c
        params = set(env)
        bound_inside = {n.id for n in ast.walk(e) if isinstance(n, ast.Name) and isinstance(n.ctx, ast.Store)}  # comprehension variables
        free = {n.id for n in ast.walk(e) if isinstance(n, ast.Name) and n.id not in params and n.id not in bound_inside}
        own_locals = self.stored - set(self.local_helpers)
        if free & own_locals and fn.name not in self.local_helpers:
            return c  # a global the helper reads is shadowed by a local of the caller
        self.count += 1
        return _instantiate(e, env, c)

    local_helpers: Set[str] = frozenset()


def inline_trivial_helpers(tree: ast.Module) -> int:
    top = {s.name: s for s in tree.body if isinstance(s, ast.FunctionDef) and _trivial(s) is not None and not s.decorator_list}
    total = 0

    def do_function(fn, methods, cls_name=None):
        nonlocal total
        nested = {s.name: s for s in ast.walk(fn) if isinstance(s, ast.FunctionDef) and s is not fn and _trivial(s) is not None and not s.decorator_list}
        stored = _stored_names(fn)
        by_name = {k: v for k, v in top.items() if k not in stored}
        by_name.update(nested)
        by_name.pop(fn.name, None)
        inl = _Inliner(by_name, {k: v for k, v in methods.items() if v is not fn}, stored)
        inl.cls_name = cls_name or "self"
        inl.local_helpers = set(nested)
        for i, st in enumerate(fn.body):
            fn.body[i] = inl.visit(st)
        total += inl.count

    def walk(body, methods, cls_name=None):
        for st in body:
            if isinstance(st, FUNC):
                do_function(st, methods, cls_name)
            elif isinstance(st, ast.ClassDef):
                ms = _methods_with_inherited(st, _class_table(tree), lambda f_: _plain_or_static(f_) and _trivial(f_) is not None)
                walk(st.body, ms, st.name)

    for _ in range(3):  # helpers calling helpers
        before = total
        walk(tree.body, {})
        if total == before:
            break
    return total


# ---------------------------------------------------------------------------------------------- (2) condition temporaries
def _chain_tests(st: ast.If) -> List[ast.If]:
    out = [st]
    while len(out[-1].orelse) == 1 and isinstance(out[-1].orelse[0], ast.If):
        out.append(out[-1].orelse[0])
    return out


def _loads(node, name) -> int:
    return sum(1 for n in ast.walk(node) if isinstance(n, ast.Name) and n.id == name and isinstance(n.ctx, ast.Load))


def _stores(node, name) -> int:
    k = sum(1 for n in ast.walk(node) if isinstance(n, ast.Name) and n.id == name and isinstance(n.ctx, (ast.Store, ast.Del)))
    k += sum(1 for n in ast.walk(node) if isinstance(n, ast.arg) and n.arg == name)
    k += sum(1 for n in ast.walk(node) if isinstance(n, (ast.Global, ast.Nonlocal)) and name in n.names)
    return k


PURE_FUNCS = {"len", "isinstance", "str", "int", "float", "abs", "min", "max", "bool", "tuple", "list", "set", "sorted", "sum", "any", "all", "range", "type"}
PURE_METHODS = {"cdf", "pmf", "pdf", "sf", "find", "rfind", "count", "startswith", "endswith", "strip", "lstrip", "rstrip", "split", "is_compatible", "lower", "upper", "index", "get", "keys", "values", "items"}


def _pure(e) -> bool:
    for n in ast.walk(e):
        if isinstance(n, ast.Call):
            f = n.func
            if isinstance(f, ast.Name) and f.id in PURE_FUNCS:
                continue
            if isinstance(f, ast.Attribute) and f.attr in PURE_METHODS:
                continue
            return False
    return True


def propagate_condition_temps(tree: ast.Module) -> int:
    total = 0
    for fn in [n for n in ast.walk(tree) if isinstance(n, FUNC)]:
        changed = True
        while changed:
            changed = False
            for holder in ast.walk(fn):
                for fld in ("body", "orelse", "finalbody"):
                    block = getattr(holder, fld, None)
                    if not (isinstance(block, list) and block and isinstance(block[0], ast.stmt)):
                        continue
                    for i, st in enumerate(block):
                        if not isinstance(st, ast.If) or i == 0:
                            continue
                        prev = block[i - 1]
                        if not (isinstance(prev, ast.Assign) and len(prev.targets) == 1 and isinstance(prev.targets[0], ast.Name)):
                            continue
                        c = prev.targets[0].id
                        chain = _chain_tests(st)
                        in_tests = sum(_loads(x.test, c) for x in chain)
                        if in_tests == 0 or _loads(fn, c) != in_tests or _stores(fn, c) != 1:
                            continue
                        if any(isinstance(x, (ast.NamedExpr, ast.Yield, ast.YieldFrom, ast.Await)) for x in ast.walk(prev.value)):
                            continue
                        if in_tests > 1 and not _pure(prev.value):
                            continue  # would duplicate a call that may have effects
                        sub = _Subst({c: prev.value})
                        for x in chain:
                            x.test = sub.visit(x.test)
                        del block[i - 1]
                        total += 1
                        changed = True
                        break
                    if changed:
                        break
                if changed:
                    break
    return total


# ---------------------------------------------------------------------------------------------- (3) updates
def canonicalise_updates(tree: ast.Module) -> int:
    """`x = x <op> e` on a plain local that is never used as a container in its function becomes `x <op>= e`
    (for numbers and text the two are the same statement; containers are left alone because `x = x + y` rebinds
    where `x += y` mutates in place)."""
    total = 0
    for fn in [n for n in ast.walk(tree) if isinstance(n, FUNC)]:
        cont = set()
        for n in ast.walk(fn):
            if isinstance(n, ast.Subscript) and isinstance(n.value, ast.Name):
                cont.add(n.value.id)
            elif isinstance(n, ast.Call) and isinstance(n.func, ast.Attribute) and isinstance(n.func.value, ast.Name):
                cont.add(n.func.value.id)
            elif isinstance(n, (ast.For, ast.comprehension)) and isinstance(n.iter, ast.Name):
                cont.add(n.iter.id)
            elif isinstance(n, ast.Assign) and isinstance(n.value, (ast.List, ast.Dict, ast.Set, ast.ListComp, ast.DictComp, ast.SetComp)):
                cont.update(t.id for t in n.targets if isinstance(t, ast.Name))
            elif isinstance(n, (ast.Global, ast.Nonlocal)):
                cont.update(n.names)
        for holder in ast.walk(fn):
            for fld in ("body", "orelse", "finalbody"):
                block = getattr(holder, fld, None)
                if not (isinstance(block, list) and block and isinstance(block[0], ast.stmt)):
                    continue
                for i, st in enumerate(block):
                    if isinstance(st, ast.Assign) and len(st.targets) == 1 and isinstance(st.targets[0], ast.Name) and isinstance(st.value, ast.BinOp) \
                            and isinstance(st.value.op, (ast.Add, ast.Sub, ast.Mult, ast.Div)) and isinstance(st.value.left, ast.Name) \
                            and st.value.left.id == st.targets[0].id and st.targets[0].id not in cont \
                            and not isinstance(st.value.right, (ast.List, ast.ListComp, ast.Tuple)):
                        new = ast.AugAssign(target=ast.Name(id=st.targets[0].id, ctx=ast.Store()), op=st.value.op, value=st.value.right)
                        ast.copy_location(new, st)
                        ast.copy_location(new.target, st.targets[0])
                        block[i] = new
                        total += 1
                    # (15) `obj.field += [e]` on a list-valued field is `obj.field.append(e)` (a bare local may be an array)
                    elif isinstance(st, ast.AugAssign) and isinstance(st.op, ast.Add) and isinstance(st.target, ast.Attribute) \
                            and isinstance(st.value, ast.List) and len(st.value.elts) == 1 and not isinstance(st.value.elts[0], ast.Starred):
                        recv = ast.Attribute(value=st.target.value, attr=st.target.attr, ctx=ast.Load())
                        call = ast.Call(func=ast.Attribute(value=recv, attr="append", ctx=ast.Load()), args=[st.value.elts[0]], keywords=[])
                        new = ast.Expr(value=call)
                        for x in (recv, call, call.func, new):
                            ast.copy_location(x, st)
                        block[i] = new
                        total += 1
    return total


# ---------------------------------------------------------------------------------------------- (4) text building
def _text_leaves(e):
    """leaves of a `+` chain if each is a text literal, an f-string or str(<expr>); None otherwise"""
    if isinstance(e, ast.BinOp) and isinstance(e.op, ast.Add):
        a, b = _text_leaves(e.left), _text_leaves(e.right)
        return None if a is None or b is None else a + b
    if isinstance(e, ast.Constant) and isinstance(e.value, str):
        return [e]
    if isinstance(e, ast.JoinedStr):
        return [e]
    if isinstance(e, ast.Call) and isinstance(e.func, ast.Name) and e.func.id == "str" and len(e.args) == 1 and not e.keywords:
        return [e]
    return None


class _Concat(ast.NodeTransformer):
    def __init__(self):
        self.count = 0

    def visit_BinOp(self, node):
        leaves = _text_leaves(node)
        if leaves is None or len(leaves) < 2 or not any(isinstance(x, (ast.Constant, ast.JoinedStr)) for x in leaves):
            return self.generic_visit(node)
        values = []
        for x in leaves:
            if isinstance(x, ast.Constant):
                if values and isinstance(values[-1], ast.Constant):
                    values[-1] = ast.Constant(values[-1].value + x.value)
                else:
                    values.append(ast.Constant(x.value))
            elif isinstance(x, ast.JoinedStr):
                for v in x.values:
                    v = self.visit(v) if isinstance(v, ast.FormattedValue) else v
                    if isinstance(v, ast.Constant) and values and isinstance(values[-1], ast.Constant):
                        values[-1] = ast.Constant(values[-1].value + v.value)
                    else:
                        values.append(v)
            else:
                values.append(ast.FormattedValue(value=self.visit(x.args[0]), conversion=-1, format_spec=None))
        new = ast.JoinedStr(values=values)
        for n in ast.walk(new):
            if isinstance(n, ast.expr) and not hasattr(n, "lineno"):
                ast.copy_location(n, node)
        self.count += 1
        return ast.copy_location(new, node)


def _format_to_fstring(c: ast.Call):
    """`"a{}b{}".format(x, y)` with nothing but bare `{}` fields and positional arguments -> the f-string f"a{x}b{y}" """
    f = c.func
    if not (isinstance(f, ast.Attribute) and f.attr == "format" and isinstance(f.value, ast.Constant) and isinstance(f.value.value, str)) or c.keywords:
        return None
    if any(isinstance(a, ast.Starred) for a in c.args):
        return None
    text = f.value.value
    import string

    try:
        fields = list(string.Formatter().parse(text))
    except ValueError:
        return None
    values = []
    k = 0
    numbered = False
    for lit, name, spec, conv in fields:
        if lit:
            values.append(ast.Constant(value=lit))
        if name is None:
            continue
        if spec or conv not in (None, "r", "s"):
            return None
        if name.isdigit():  # explicit positions `{0} … {1}` (each argument used once, in order, is the common case; any order is fine)
            if int(name) >= len(c.args):
                return None
            values.append(ast.FormattedValue(value=copy.deepcopy(c.args[int(name)]), conversion={None: -1, "r": 114, "s": 115}[conv], format_spec=None))
            numbered = True
            continue
        if name != "":
            return None
        if k >= len(c.args):
            return None
        values.append(ast.FormattedValue(value=c.args[k], conversion={None: -1, "r": 114, "s": 115}[conv], format_spec=None))
        k += 1
    if numbered:
        if k != 0:
            return None
        used = {int(n_) for _, n_, _, _ in fields if n_ and n_.isdigit()}
        if used != set(range(len(c.args))):
            return None  # an argument that is never printed would still be evaluated
    elif k != len(c.args):
        return None
    return ast.copy_location(ast.JoinedStr(values=values), c)


class _Format(ast.NodeTransformer):
    def __init__(self):
        self.count = 0

    def visit_Call(self, c):
        self.generic_visit(c)
        j = _format_to_fstring(c)
        if j is not None:
            self.count += 1
            return j
        return c


def canonicalise_text_building(tree: ast.Module) -> int:
    """`"a" + str(x) + "b"` (literals, f-strings and str(...) joined by +) is written as the f-string f"a{x}b";
    `"a{}b".format(x)` with bare fields likewise."""
    fm = _Format()
    fm.visit(tree)
    t = _Concat()
    t.visit(tree)
    t.count += fm.count
    ast.fix_missing_locations(tree)
    return t.count


# ---------------------------------------------------------------------------------------------- (5) all() / any()
def _quantifier(e):
    """('all'|'any', element, comprehension) for all(<elt> for x in it) / any(...) with one plain generator"""
    if isinstance(e, ast.Call) and isinstance(e.func, ast.Name) and e.func.id in ("all", "any") and len(e.args) == 1 and not e.keywords \
            and isinstance(e.args[0], (ast.GeneratorExp, ast.ListComp)) and len(e.args[0].generators) == 1 and not e.args[0].generators[0].is_async:
        return e.func.id, e.args[0].elt, e.args[0].generators[0]
    return None


def _neg(e):
    if isinstance(e, ast.UnaryOp) and isinstance(e.op, ast.Not):
        return e.operand
    return ast.UnaryOp(op=ast.Not(), operand=e)


def expand_quantified_returns(tree: ast.Module) -> int:
    """`return all(P for x in it)` is written as the loop `for x in it: if not P: return False` + `return True`
    (`any` dually; `return A and all(...)` first tests A) — the early-exit loop is the form the rules know."""
    total = 0
    for holder in ast.walk(tree):
        for fld in ("body", "orelse", "finalbody"):
            block = getattr(holder, fld, None)
            if not (isinstance(block, list) and block and isinstance(block[0], ast.stmt)):
                continue
            i = 0
            while i < len(block):
                st = block[i]
                # `if not all(P for x in it): <… return / raise>` and `if any(P for x in it): <… return / raise>`:
                # the body runs at most once (it leaves the function), so it can move into the early-exit loop
                if isinstance(st, ast.If) and not st.orelse and st.body and isinstance(st.body[-1], (ast.Return, ast.Raise)):
                    t = st.test
                    q = None
                    if isinstance(t, ast.UnaryOp) and isinstance(t.op, ast.Not) and _quantifier(t.operand) and _quantifier(t.operand)[0] == "all":
                        q = _quantifier(t.operand)
                    elif _quantifier(t) and _quantifier(t)[0] == "any":
                        q = _quantifier(t)
                    if q is not None:
                        kind, elt, gen = q
                        bound = {x.id for x in ast.walk(gen.target) if isinstance(x, ast.Name)}
                        fn_names = set()
                        for other in ast.walk(tree):
                            if isinstance(other, (ast.FunctionDef, ast.AsyncFunctionDef)) and any(y is st for y in ast.walk(other)):
                                inside = {id(y) for y in ast.walk(st.test)}
                                fn_names = {y.id for y in ast.walk(other) if isinstance(y, ast.Name) and id(y) not in inside}
                        if bound & fn_names:
                            # the comprehension's variable would leak into the function: give it a name of its own
                            total_ren = {b_: f"{b_}__q{total}" for b_ in bound & fn_names}
                            for part in [gen.target, elt] + list(gen.ifs):
                                for y in ast.walk(part):
                                    if isinstance(y, ast.Name) and y.id in total_ren:
                                        y.id = total_ren[y.id]
                        if True:
                            test = _neg(elt) if kind == "all" else elt
                            body = [ast.If(test=test, body=st.body, orelse=[])]
                            for cond in reversed(gen.ifs):
                                body = [ast.If(test=cond, body=body, orelse=[])]
                            loop = ast.For(target=gen.target, iter=gen.iter, body=body, orelse=[], type_comment=None)
                            for x in ast.walk(loop):
                                if isinstance(x, (ast.stmt, ast.expr)) and not hasattr(x, "lineno"):
                                    ast.copy_location(x, st)
                            for x in ast.walk(gen.target):
                                if isinstance(x, ast.Name):
                                    x.ctx = ast.Store()
                            block[i] = loop
                            total += 1
                            i += 1
                            continue
                if isinstance(st, ast.Return) and st.value is not None:
                    v = st.value
                    pre = []
                    if isinstance(v, ast.BoolOp) and isinstance(v.op, ast.And) and _quantifier(v.values[-1]) and _quantifier(v.values[-1])[0] == "all":
                        pre, v = v.values[:-1], v.values[-1]
                    q = _quantifier(v)
                    if q is not None:
                        kind, elt, gen = q
                        new = []
                        for a in pre:
                            new.append(ast.If(test=_neg(a), body=[ast.Return(value=ast.Constant(False))], orelse=[]))
                        test = _neg(elt) if kind == "all" else elt
                        for cond in reversed(gen.ifs):
                            pass
                        inner = ast.If(test=test, body=[ast.Return(value=ast.Constant(kind == "any"))], orelse=[])
                        body = [inner]
                        for cond in reversed(gen.ifs):
                            body = [ast.If(test=cond, body=body, orelse=[])]
                        new.append(ast.For(target=gen.target, iter=gen.iter, body=body, orelse=[], type_comment=None))
                        new.append(ast.Return(value=ast.Constant(kind == "all")))
                        for n_ in new:
                            for x in ast.walk(n_):
                                if isinstance(x, (ast.stmt, ast.expr)) and not hasattr(x, "lineno"):
                                    ast.copy_location(x, st)
                        # comprehension targets are Store already; make sure
                        for x in ast.walk(gen.target):
                            if isinstance(x, ast.Name):
                                x.ctx = ast.Store()
                        block[i:i + 1] = new
                        total += 1
                        i += len(new)
                        continue
                i += 1
    ast.fix_missing_locations(tree)
    return total


# ---------------------------------------------------------------------------------------------- (6) append loops
def comprehend_append_loops(tree: ast.Module) -> int:
    """`x = []` directly followed by `for t in it: [if c:] x.append(e)` is written `x = [e for t in it if c]`."""
    total = 0
    for holder in ast.walk(tree):
        for fld in ("body", "orelse", "finalbody"):
            block = getattr(holder, fld, None)
            if not (isinstance(block, list) and block and isinstance(block[0], ast.stmt)):
                continue
            i = 0
            while i + 1 < len(block):
                a, b = block[i], block[i + 1]
                i += 1
                if not (isinstance(a, ast.Assign) and isinstance(a.value, ast.List) and not a.value.elts and len(a.targets) == 1 and isinstance(a.targets[0], ast.Name)
                        and isinstance(b, ast.For) and not b.orelse):
                    continue
                x = a.targets[0].id
                conds, body = [], b.body
                while len(body) == 1 and isinstance(body[0], ast.If) and not body[0].orelse:
                    conds.append(body[0].test)
                    body = body[0].body
                if not (len(body) == 1 and isinstance(body[0], ast.Expr) and isinstance(body[0].value, ast.Call) and isinstance(body[0].value.func, ast.Attribute)
                        and body[0].value.func.attr == "append" and isinstance(body[0].value.func.value, ast.Name) and body[0].value.func.value.id == x
                        and len(body[0].value.args) == 1 and not body[0].value.keywords):
                    continue
                elt = body[0].value.args[0]
                if any(isinstance(n, ast.Name) and n.id == x for e in [b.iter, elt] + conds for n in ast.walk(e)):
                    continue
                if any(isinstance(n, (ast.Yield, ast.YieldFrom, ast.Await, ast.NamedExpr)) for e in [b.iter, elt] + conds for n in ast.walk(e)):
                    continue
                comp = ast.ListComp(elt=elt, generators=[ast.comprehension(target=b.target, iter=b.iter, ifs=conds, is_async=0)])
                ast.copy_location(comp, b)
                a.value = comp
                del block[i]
                total += 1
    ast.fix_missing_locations(tree)
    return total


# ---------------------------------------------------------------------------------------------- (7) small straight-line helpers
def _simple_arg(e) -> bool:
    if isinstance(e, (ast.Name, ast.Constant)):
        return True
    if isinstance(e, ast.Attribute):
        return _simple_arg(e.value)
    if isinstance(e, ast.Subscript) and not isinstance(e.slice, ast.Slice):
        return _simple_arg(e.value) and _simple_arg(e.slice)
    if isinstance(e, ast.UnaryOp):
        return _simple_arg(e.operand)
    return False


def _contains_return(stmts) -> bool:
    for st in stmts:
        for n in ast.walk(st):
            if isinstance(n, ast.Return):
                return True
    return False


_RET = "__inl_result__"


def _tail_form(stmts, budget):
    """Rewrite a statement list whose `return`s are all in tail position (last statement, or inside `if` branches that are
    followed — possibly after duplication of the rest — by tail positions) into a list without `return`, every path ending
    in `__inl_result__ = <value>`.  None when a return sits in a loop / try / with, or the rewriting would grow too much."""
    out = []
    for i, st in enumerate(stmts):
        if isinstance(st, ast.Return):
            return out + [ast.Assign(targets=[ast.Name(id=_RET, ctx=ast.Store())], value=st.value if st.value is not None else ast.Constant(None))]
        if isinstance(st, ast.If) and _contains_return([st]):
            rest = stmts[i + 1:]
            budget[0] -= len(rest)
            if budget[0] < 0:
                return None
            a = _tail_form(list(st.body) + [copy.deepcopy(r) for r in rest], budget)
            b = _tail_form(list(st.orelse) + [copy.deepcopy(r) for r in rest], budget)
            if a is None or b is None:
                return None
            return out + [ast.If(test=st.test, body=a, orelse=b)]
        if _contains_return([st]):
            return None
        out.append(st)
    return out + [ast.Assign(targets=[ast.Name(id=_RET, ctx=ast.Store())], value=ast.Constant(None))]


def _straight_line(fn) -> Optional[List[ast.stmt]]:
    """body of a small private helper in a form that can be spliced into a statement list: simple and compound statements,
    every `return` in tail position (rewritten to an assignment of the result), no recursion, no generator, no nested
    definitions, parameters never re-bound"""
    if not isinstance(fn, ast.FunctionDef) or not _plain_or_static(fn):
        return None
    a = fn.args
    if a.vararg or a.kwonlyargs or a.posonlyargs:
        return None
    body = [s for s in fn.body if not (isinstance(s, ast.Expr) and isinstance(s.value, ast.Constant))]
    n_stmts = sum(1 for st in body for n in ast.walk(st) if isinstance(n, ast.stmt))
    if n_stmts > 40 or not body or (len(body) == 1 and isinstance(body[0], ast.Return)):
        return None  # single-return helpers are handled by (1)
    for st in body:
        for n in ast.walk(st):
            if isinstance(n, (ast.Yield, ast.YieldFrom, ast.Await, ast.NamedExpr, ast.Lambda, ast.Global, ast.Nonlocal)) or isinstance(n, FUNC) or isinstance(n, ast.ClassDef):
                return None
            if isinstance(n, ast.Name) and n.id in (fn.name, "super", "locals", "vars", "globals"):
                return None
            if isinstance(n, ast.Attribute) and n.attr == fn.name:
                return None  # recursion through self
    params = {x.arg for x in a.args}
    rebound = sorted({n.id for st in body for n in ast.walk(st) if isinstance(n, ast.Name) and isinstance(n.ctx, (ast.Store, ast.Del)) and n.id in params})
    if rebound:
        # a re-bound parameter is a local that starts as the argument: `p_r = p` first, `p_r` everywhere after
        # (private helpers only: the package's own closures that thread a value through a parameter stay calls)
        if not fn.name.startswith("_"):
            return None
        if any(isinstance(n, ast.Name) and isinstance(n.ctx, ast.Del) and n.id in rebound for st in body for n in ast.walk(st)):
            return None
        body = [copy.deepcopy(x) for x in body]
        for st in body:
            for n in ast.walk(st):
                if isinstance(n, ast.Name) and n.id in rebound:
                    n.id = n.id + "_r"
        head = [ast.Assign(targets=[ast.Name(id=q + "_r", ctx=ast.Store())], value=ast.Name(id=q, ctx=ast.Load())) for q in rebound]
        for h in head:
            ast.copy_location(h, body[0])
            ast.fix_missing_locations(h)
        body = head + body
    if a.kwarg is not None:
        kw = a.kwarg.arg
        for st in body:
            for n in ast.walk(st):
                if isinstance(n, ast.Name) and n.id == kw:
                    par_ok = any(isinstance(c, ast.Call) and any(k.arg is None and k.value is n for k in c.keywords) for c in ast.walk(st))
                    if not par_ok:
                        return None
    tf = _tail_form([copy.deepcopy(x) for x in body], [30])
    return tf


_INL_COUNTER = [0]


def _inline_call(fn, body, call: ast.Call, receiver, caller_stored: Set[str]):
    """-> (prefix statements, result expression or None) or None when the call cannot be inlined"""
    a = fn.args
    params = [x.arg for x in a.args]
    defaults = dict(zip(params[len(params) - len(a.defaults):], a.defaults))
    env: Dict[str, ast.AST] = {}
    if receiver is not None:
        if not params:
            return None
        env[params[0]] = receiver
        params = params[1:]
    if any(isinstance(x, ast.Starred) for x in call.args) or len(call.args) > len(params):
        return None
    for p_, v in zip(params, call.args):
        env[p_] = v
    extra_kw = []
    for k in call.keywords:
        if k.arg is not None and k.arg in params and k.arg not in env:
            env[k.arg] = k.value
        elif a.kwarg is not None:
            extra_kw.append(k)
        else:
            return None
    for p_ in params:
        if p_ not in env:
            if p_ not in defaults:
                return None
            env[p_] = defaults[p_]
    _INL_COUNTER[0] += 1
    tag = f"__i{_INL_COUNTER[0]}"
    pre = []
    # arguments that are not plain are evaluated once, in order, like the call would
    for p_ in list(env):
        if p_ != (a.args[0].arg if receiver is not None else None) and not _simple_arg(env[p_]):
            tmp = ast.Name(id=f"{p_}{tag}", ctx=ast.Store())
            pre.append(ast.Assign(targets=[tmp], value=env[p_]))
            env[p_] = ast.Name(id=f"{p_}{tag}", ctx=ast.Load())
    locals_ = set()
    for st in body:
        for n in ast.walk(st):
            if isinstance(n, ast.Name) and isinstance(n.ctx, (ast.Store, ast.Del)):
                locals_.add(n.id)
    free = {n.id for st in body for n in ast.walk(st) if isinstance(n, ast.Name)} - locals_ - set(env) - ({a.kwarg.arg} if a.kwarg else set())
    if receiver is None and free & caller_stored:
        return None

    class R(ast.NodeTransformer):
        def visit_Name(self, n):
            if n.id in locals_:
                return ast.copy_location(ast.Name(id=n.id + tag, ctx=n.ctx), n)
            if isinstance(n.ctx, ast.Load) and n.id in env:
                return copy.deepcopy(env[n.id])
            return n

        def visit_Call(self, c):
            self.generic_visit(c)
            if a.kwarg is not None:
                kws = []
                for k in c.keywords:
                    if k.arg is None and isinstance(k.value, ast.Name) and k.value.id == a.kwarg.arg:
                        kws += [copy.deepcopy(x) for x in extra_kw]
                    else:
                        kws.append(k)
                c.keywords = kws
            return c

    out = []
    locals_.add(_RET)
    for st in body:
        out.append(R().visit(copy.deepcopy(st)))
    result = ast.Name(id=_RET + tag, ctx=ast.Load())
    # straight-line bodies: fold the trailing result assignment back into an expression
    if out and isinstance(out[-1], ast.Assign) and isinstance(out[-1].targets[0], ast.Name) and out[-1].targets[0].id == _RET + tag:
        result = out[-1].value
        out = out[:-1]
        if isinstance(result, ast.Constant) and result.value is None and not _contains_return(fn.body):
            result = None
    for k_, n in enumerate(pre + out + ([result] if result is not None else [])):
        for x in ast.walk(n):
            if isinstance(x, (ast.expr, ast.stmt)):
                # the call site's line; columns keep the inlined nodes apart (rules key constructs by position)
                oc = getattr(x, "col_offset", 0) or 0
                x.lineno, x.col_offset = call.lineno, 1000 * (k_ + 1) + (call.col_offset % 1000) * 0 + oc % 1000
                x.end_lineno, x.end_col_offset = getattr(call, "end_lineno", call.lineno), x.col_offset + 1
    return pre + out, result


def inline_straight_line_helpers(tree: ast.Module, keep=frozenset()) -> int:
    """`x = self._h(...)`, `return self._h(...)`, `self._h(...)` (and the same for module-level / nested helpers called by
    name) are replaced by the helper's statements when the helper is a short straight-line private function.  A helper
    all of whose uses were inlined is dropped from its class."""
    total = 0
    top = {s.name: s for s in tree.body if isinstance(s, ast.FunctionDef) and s.name.startswith("_") and s.name not in keep and _straight_line(s) is not None}

    def rewrite_block(block, methods, by_name, stored, cls_name=None, owner=None):
        nonlocal total
        i = 0
        while i < len(block):
            st = block[i]
            call = None
            kind = None
            if isinstance(st, ast.Assign) and len(st.targets) == 1 and isinstance(st.value, ast.Call):
                call, kind = st.value, "assign"
            elif isinstance(st, ast.Return) and isinstance(st.value, ast.Call):
                call, kind = st.value, "return"
            elif isinstance(st, ast.Expr) and isinstance(st.value, ast.Call):
                call, kind = st.value, "expr"
            done = False
            # a helper call wrapped in single-argument calls (`float(make_tuple(self._h(..)))`) is evaluated first: hoist it into a
            # statement of its own so that it can be spliced in below
            root = getattr(st, "value", None) if isinstance(st, (ast.Assign, ast.Return, ast.Expr)) else None
            if root is not None and call is not None:
                chain, cur = [], root
                while True:
                    if isinstance(cur, ast.Call) and len(cur.args) == 1 and not cur.keywords and not isinstance(cur.args[0], ast.Starred):
                        chain.append(cur)
                        cur = cur.args[0]
                    elif chain and isinstance(cur, ast.Subscript) and not any(isinstance(n_, ast.Call) and not (isinstance(n_.func, ast.Name) and n_.func.id == "len") for n_ in ast.walk(cur.slice)):
                        chain.append(cur)  # `h(..)[1:-1]`: the subscripted value is evaluated before the (call-free) slice
                        cur = cur.value
                    else:
                        break
                if chain and isinstance(cur, ast.Call):
                    f0 = cur.func
                    inl = (isinstance(f0, ast.Name) and f0.id in by_name) or (isinstance(f0, ast.Attribute) and isinstance(f0.value, ast.Name) and f0.value.id in ("self", cls_name or "self") and f0.attr in methods)
                    outer_plain = all(isinstance(c_, ast.Subscript) or (isinstance(c_.func, (ast.Name, ast.Attribute)) and not any(isinstance(n_, ast.Call) for n_ in ast.walk(c_.func))) for c_ in chain)
                    if inl and outer_plain:
                        _INL_COUNTER[0] += 1
                        tmp = f"_hoisted__i{_INL_COUNTER[0]}"
                        pre = ast.copy_location(ast.Assign(targets=[ast.Name(id=tmp, ctx=ast.Store())], value=cur), st)
                        if isinstance(chain[-1], ast.Subscript):
                            chain[-1].value = ast.copy_location(ast.Name(id=tmp, ctx=ast.Load()), cur)
                        else:
                            chain[-1].args[0] = ast.copy_location(ast.Name(id=tmp, ctx=ast.Load()), cur)
                        ast.fix_missing_locations(pre)
                        block[i:i + 1] = [pre, st]
                        total += 1
                        continue  # the hoisted assignment is looked at next
            if call is not None:
                f = call.func
                fn = recv = None
                if isinstance(f, ast.Name) and f.id in by_name:
                    fn = by_name[f.id]
                elif isinstance(f, ast.Attribute) and isinstance(f.value, ast.Name) and f.value.id in ("self", cls_name or "self") and f.attr in methods:
                    fn, recv = methods[f.attr], f.value
                    if _is_static(fn):
                        recv = None
                    elif f.value.id != "self":
                        fn = None
                if fn is not None:
                    body = _straight_line(fn)
                    r = _inline_call(fn, body, call, recv, stored) if body is not None else None
                    if r is not None:
                        stmts, result = r
                        if kind == "assign":
                            if result is None:
                                result = ast.Constant(None)
                            tail = [ast.copy_location(ast.Assign(targets=st.targets, value=result), st)]
                            # `T = helper(..)` whose result is a local of the inlined body: that local simply *is* T
                            tgt = st.targets[0] if len(st.targets) == 1 else None
                            if isinstance(tgt, ast.Name) and isinstance(result, ast.Name) and "__i" in result.id and owner is not None and _stores(owner, tgt.id) == 1:
                                first = next((k for k, x in enumerate(stmts) if any(isinstance(n, ast.Name) and n.id == result.id and isinstance(n.ctx, ast.Store) for n in ast.walk(x))), None)
                                if first is not None:
                                    def _loads_target(x, skip_value_of_first):
                                        return any(isinstance(n, ast.Name) and n.id == tgt.id and isinstance(n.ctx, ast.Load) for n in ast.walk(x))
                                    later_reads = any(_loads_target(x, False) for x in stmts[first + 1:])
                                    if not later_reads:
                                        for x in stmts:
                                            for n in ast.walk(x):
                                                if isinstance(n, ast.Name) and n.id == result.id:
                                                    n.id = tgt.id
                                        tail = []
                            # `A, B = helper(..)` whose every exit returns a tuple display of that arity: each exit stores A and B directly
                            attr_single = isinstance(tgt, ast.Attribute) and isinstance(tgt.value, ast.Name) and tgt.value.id == "self"
                            if (attr_single or (isinstance(tgt, (ast.Tuple, ast.List)) and all(isinstance(e, (ast.Name, ast.Attribute)) for e in tgt.elts))) \
                                    and isinstance(result, ast.Name) and "__i" in result.id and tail:
                                if attr_single:
                                    # `self.X = helper(..)`: every exit of the helper stores self.X directly (a 1-tuple of targets)
                                    tgt = ast.Tuple(elts=[tgt], ctx=ast.Store())
                                rstores = [x for s_ in stmts for x in ast.walk(s_) if isinstance(x, ast.Assign) and len(x.targets) == 1 and isinstance(x.targets[0], ast.Name) and x.targets[0].id == result.id]
                                if attr_single:
                                    for x in rstores:
                                        x.value = ast.copy_location(ast.Tuple(elts=[x.value], ctx=ast.Load()), x.value)
                                rloads = [n for s_ in stmts for n in ast.walk(s_) if isinstance(n, ast.Name) and n.id == result.id and isinstance(n.ctx, ast.Load)]
                                tnames = {ast.unparse(e) for e in tgt.elts}
                                shape_ok = rstores and not rloads and all(isinstance(x.value, ast.Tuple) and len(x.value.elts) == len(tgt.elts) for x in rstores)
                                if attr_single and not shape_ok:
                                    for x in rstores:
                                        x.value = x.value.elts[0]
                                if shape_ok:
                                    for x in rstores:
                                        for k_, e in enumerate(x.value.elts):
                                            if any(ast.unparse(n) in tnames for n in ast.walk(e) if isinstance(n, (ast.Name, ast.Attribute))) :
                                                shape_ok = False
                                    if attr_single and not shape_ok:
                                        for x in rstores:
                                            x.value = x.value.elts[0]
                                if shape_ok:
                                    def _split(blk):
                                        j = 0
                                        while j < len(blk):
                                            x = blk[j]
                                            if x in rstores:
                                                parts = []
                                                for t_, e in zip(tgt.elts, x.value.elts):
                                                    t2 = copy.deepcopy(t_)
                                                    parts.append(ast.copy_location(ast.Assign(targets=[t2], value=e), x))
                                                blk[j:j + 1] = parts
                                                j += len(parts)
                                                continue
                                            for f4 in ("body", "orelse", "finalbody"):
                                                sub4 = getattr(x, f4, None)
                                                if isinstance(sub4, list) and sub4 and isinstance(sub4[0], ast.stmt):
                                                    _split(sub4)
                                            j += 1
                                    _split(stmts)
                                    tail = []
                        elif kind == "return":
                            tail = [ast.copy_location(ast.Return(value=result), st)]
                        else:
                            tail = [ast.copy_location(ast.Expr(value=result), st)] if (result is not None and not isinstance(result, (ast.Name, ast.Constant))) else []
                        new = stmts + tail
                        if new:
                            block[i:i + 1] = new
                            total += 1
                            done = True
            if not done:
                for fld in ("body", "orelse", "finalbody"):
                    sub = getattr(st, fld, None)
                    if isinstance(sub, list) and sub and isinstance(sub[0], ast.stmt) and not isinstance(st, FUNC + (ast.ClassDef,)):
                        rewrite_block(sub, methods, by_name, stored, cls_name, owner)
                for h in getattr(st, "handlers", []) or []:
                    rewrite_block(h.body, methods, by_name, stored, cls_name, owner)
                i += 1

    def do_function(fn, methods, cls_name=None):
        stored = _stored_names(fn)
        nested = {s.name: s for s in fn.body if isinstance(s, ast.FunctionDef) and s.name not in keep and _straight_line(s) is not None}
        by_name = {k: v for k, v in top.items() if k not in stored and v is not fn}
        by_name.update({k: v for k, v in nested.items()})
        ms = {k: v for k, v in methods.items() if v is not fn}
        rewrite_block(fn.body, ms, by_name, stored, cls_name, fn)
        for s in fn.body:
            if isinstance(s, FUNC):
                do_function(s, methods, cls_name)

    def walk(body, methods, cls_name=None):
        for st in body:
            if isinstance(st, FUNC):
                do_function(st, methods, cls_name)
            elif isinstance(st, ast.ClassDef):
                ms = _methods_with_inherited(st, _class_table(tree), lambda f_: f_.name not in keep and _straight_line(f_) is not None)
                walk(st.body, ms, st.name)

    for _ in range(2):
        before = total
        walk(tree.body, {})
        if total == before:
            break
    if total:
        # drop private methods that are no longer referenced anywhere in the module
        for cls in [n for n in ast.walk(tree) if isinstance(n, ast.ClassDef)]:
            for s in list(cls.body):
                if isinstance(s, ast.FunctionDef) and s.name.startswith("_") and not s.name.startswith("__") and s.name not in keep and _straight_line(s) is not None:
                    used = any(isinstance(n, ast.Attribute) and n.attr == s.name for n in ast.walk(tree)) or any(
                        isinstance(n, ast.Constant) and n.value == s.name for n in ast.walk(tree))
                    if not used:
                        cls.body.remove(s)
        ast.fix_missing_locations(tree)
    return total


# ---------------------------------------------------------------------------------------------- package facts for (8), (9)
_MUTATORS = {"append", "extend", "insert", "pop", "remove", "clear", "sort", "reverse", "update", "add", "discard", "setdefault", "popitem"}
_COMMON_EXTERNAL = {"append", "index", "copy", "get", "pop", "add", "update", "find", "count", "strip", "split", "join", "choice", "sum", "items", "keys", "values", "format"}


def package_facts(trees) -> dict:
    """signatures: simple name -> parameter names (without self) when every definition of that name in the package (methods,
    module-level functions, class constructors) has the same parameter list and no * / ** parameters;
    stable_attrs: attribute names that some constructor establishes through `self.X = …` and that nothing in the package
    stores, deletes or updates in place outside constructors (so `self.X` denotes the same object for the object's life)."""
    sigs: Dict[str, list] = {}
    established, stored_elsewhere, callables, mutated = set(), set(), set(), set()
    for tree in trees:
        nested_names = set()
        for node in ast.walk(tree):
            if isinstance(node, FUNC):
                for sub in ast.walk(node):
                    if isinstance(sub, FUNC) and sub is not node:
                        nested_names.add(sub.name)
        for node in ast.walk(tree):
            if isinstance(node, ast.ClassDef):
                callables.add(node.name)
                init = [x for x in node.body if isinstance(x, ast.FunctionDef) and x.name == "__init__"]
                if init:
                    a = init[0].args
                    sigs.setdefault(node.name, []).append(None if (a.vararg or a.kwarg or a.posonlyargs or a.kwonlyargs) else tuple(x.arg for x in a.args[1:]))
                else:
                    sigs.setdefault(node.name, []).append(None)
                for x in node.body:
                    if isinstance(x, ast.FunctionDef):
                        callables.add(x.name)
                        if x.name.startswith("__"):
                            continue
                        a = x.args
                        deco = {(d.id if isinstance(d, ast.Name) else getattr(d, "attr", None)) for d in x.decorator_list}
                        if deco & {"property", "setter", "cached_property"} or a.vararg or a.kwarg or a.posonlyargs or a.kwonlyargs:
                            sigs.setdefault(x.name, []).append(None)
                        else:
                            sigs.setdefault(x.name, []).append(tuple(y.arg for y in a.args[(0 if "staticmethod" in deco else 1):]))
        for x in tree.body:
            if isinstance(x, ast.FunctionDef):
                a = x.args
                callables.add(x.name)
                sigs.setdefault(x.name, []).append(None if (a.vararg or a.kwarg or a.posonlyargs or a.kwonlyargs) else tuple(y.arg for y in a.args))
        for nm in nested_names:
            sigs.setdefault(nm, []).append(None)
        for fn in [n for n in ast.walk(tree) if isinstance(n, FUNC)]:
            ctor = fn.name == "__init__"
            for n in ast.walk(fn):
                tgt = None
                if isinstance(n, ast.Attribute) and isinstance(n.ctx, (ast.Store, ast.Del)):
                    tgt = n
                if tgt is not None:
                    if ctor and isinstance(tgt.value, ast.Name) and tgt.value.id == "self":
                        established.add(tgt.attr)
                    else:
                        stored_elsewhere.add(tgt.attr)
                if isinstance(n, ast.AugAssign) and isinstance(n.target, ast.Attribute) and not (ctor and isinstance(n.target.value, ast.Name) and n.target.value.id == "self"):
                    stored_elsewhere.add(n.target.attr)
                if isinstance(n, (ast.Assign, ast.AugAssign, ast.Delete)) and not ctor:
                    for t in (n.targets if isinstance(n, (ast.Assign, ast.Delete)) else [n.target]):
                        if isinstance(t, ast.Subscript) and isinstance(t.value, ast.Attribute):
                            mutated.add(t.value.attr)  # element store / delete: the container changes
                if isinstance(n, ast.Call) and isinstance(n.func, ast.Attribute) and n.func.attr in _MUTATORS and isinstance(n.func.value, ast.Attribute) and not ctor:
                    mutated.add(n.func.value.attr)
        # class-level names are not per-object data
    signatures = {}
    for k, v in sigs.items():
        if k in _COMMON_EXTERNAL or any(x is None for x in v):
            continue
        if len(set(v)) == 1:
            signatures[k] = list(v[0])
    stable = (established - stored_elsewhere) - callables
    # the printing method behind str(): exactly one `__str__` of the form `return self.M(True)`; M defined only in classes
    # that do not define `__str__` themselves (then `x.M(True)` and `str(x)` are the same call for every object that has M)
    str_methods = []
    strs = 0
    for tree in trees:
        for cls in [n for n in ast.walk(tree) if isinstance(n, ast.ClassDef)]:
            for m in cls.body:
                if isinstance(m, ast.FunctionDef) and m.name == "__str__":
                    strs += 1
                    b = [x for x in m.body if not (isinstance(x, ast.Expr) and isinstance(x.value, ast.Constant))]
                    if len(b) == 1 and isinstance(b[0], ast.Return) and isinstance(b[0].value, ast.Call) and isinstance(b[0].value.func, ast.Attribute) \
                            and isinstance(b[0].value.func.value, ast.Name) and b[0].value.func.value.id == "self" and len(b[0].value.args) == 1 \
                            and isinstance(b[0].value.args[0], ast.Constant) and b[0].value.args[0].value is True and not b[0].value.keywords:
                        str_methods.append((cls.name, b[0].value.func.attr))
    str_method = None
    if len(str_methods) == 1:
        base, meth = str_methods[0]
        ok_ = True
        for tree in trees:
            for cls in [n for n in ast.walk(tree) if isinstance(n, ast.ClassDef)]:
                has_m = any(isinstance(m, ast.FunctionDef) and m.name == meth for m in cls.body)
                has_s = any(isinstance(m, ast.FunctionDef) and m.name == "__str__" for m in cls.body)
                if has_m and has_s and cls.name != base:
                    ok_ = False
        if ok_:
            str_method = meth
    return {"signatures": signatures, "stable_attrs": stable, "frozen_attrs": stable - mutated, "str_method": str_method}


def canonical_prefix_tests(tree: ast.Module) -> int:
    """`X[:len("kw")] == "kw"` (or with the length written as a number) is `X.startswith("kw")`; `!=` is its negation;
    `X[-len("kw"):] == "kw"` is `X.endswith("kw")` (for a non-empty constant)."""
    total = 0

    def _len_of(e, k):
        if isinstance(e, ast.Constant) and e.value == len(k):
            return True
        return isinstance(e, ast.Call) and isinstance(e.func, ast.Name) and e.func.id == "len" and len(e.args) == 1 and isinstance(e.args[0], ast.Constant) and e.args[0].value == k

    class T(ast.NodeTransformer):
        def visit_Compare(self, c):
            nonlocal total
            self.generic_visit(c)
            if len(c.ops) != 1 or not isinstance(c.ops[0], (ast.Eq, ast.NotEq)):
                return c
            a, b = c.left, c.comparators[0]
            if isinstance(a, ast.Constant) and isinstance(b, ast.Subscript):
                a, b = b, a
            if not (isinstance(a, ast.Subscript) and isinstance(a.slice, ast.Slice) and a.slice.step is None and isinstance(b, ast.Constant) and isinstance(b.value, str) and b.value):
                return c
            k = b.value
            meth = None
            if a.slice.lower is None and a.slice.upper is not None and _len_of(a.slice.upper, k):
                meth = "startswith"
            elif a.slice.upper is None and isinstance(a.slice.lower, ast.UnaryOp) and isinstance(a.slice.lower.op, ast.USub) and _len_of(a.slice.lower.operand, k):
                meth = "endswith"
            if meth is None:
                return c
            total += 1
            call = ast.Call(func=ast.Attribute(value=a.value, attr=meth, ctx=ast.Load()), args=[b], keywords=[])
            new = call if isinstance(c.ops[0], ast.Eq) else ast.UnaryOp(op=ast.Not(), operand=call)
            return ast.copy_location(new, c)

    T().visit(tree)
    if total:
        ast.fix_missing_locations(tree)
    return total


def canonical_removeprefix(tree: ast.Module) -> int:
    """After `if not X.startswith("kw"): raise …` in the same block (X an attribute chain / name that is not stored in
    between), `X.removeprefix("kw")` is `X[len("kw"):]` — the prefix is known to be there."""
    total = 0
    for holder in ast.walk(tree):
        for fld in ("body", "orelse", "finalbody"):
            block = getattr(holder, fld, None)
            if not (isinstance(block, list) and block and isinstance(block[0], ast.stmt)):
                continue
            for i, st in enumerate(block):
                if not (isinstance(st, ast.If) and not st.orelse and st.body and isinstance(st.body[-1], ast.Raise)):
                    continue
                t = st.test
                if not (isinstance(t, ast.UnaryOp) and isinstance(t.op, ast.Not) and isinstance(t.operand, ast.Call) and isinstance(t.operand.func, ast.Attribute)
                        and t.operand.func.attr == "startswith" and len(t.operand.args) == 1 and isinstance(t.operand.args[0], ast.Constant) and isinstance(t.operand.args[0].value, str)):
                    continue
                x, k = ast.unparse(t.operand.func.value), t.operand.args[0].value
                for later in block[i + 1:]:
                    if any(isinstance(n, (ast.Name, ast.Attribute)) and isinstance(n.ctx, (ast.Store, ast.Del)) and ast.unparse(n) == x for n in ast.walk(later)):
                        break

                    class T(ast.NodeTransformer):
                        def visit_Call(self, c):
                            nonlocal total
                            self.generic_visit(c)
                            if isinstance(c.func, ast.Attribute) and c.func.attr == "removeprefix" and len(c.args) == 1 and isinstance(c.args[0], ast.Constant) \
                                    and c.args[0].value == k and ast.unparse(c.func.value) == x:
                                total += 1
                                ln = ast.Call(func=ast.Name(id="len", ctx=ast.Load()), args=[ast.Constant(value=k)], keywords=[])
                                return ast.copy_location(ast.Subscript(value=c.func.value, slice=ast.Slice(lower=ln, upper=None, step=None), ctx=ast.Load()), c)
                            return c

                    block[block.index(later)] = T().visit(later)
    if total:
        ast.fix_missing_locations(tree)
    return total


def canonical_str_calls(tree: ast.Module, facts) -> int:
    """`x.generate_string(True)` is written `str(x)` (facts['str_method']: the base class's `__str__` is exactly that call
    and no class that has the method overrides `__str__`); not inside the `__str__` that defines the equivalence."""
    meth = (facts or {}).get("str_method")
    if not meth:
        return 0
    total = 0
    skip = {id(n) for f_ in ast.walk(tree) if isinstance(f_, ast.FunctionDef) and f_.name == "__str__" for n in ast.walk(f_)}

    class T(ast.NodeTransformer):
        def visit_Call(self, c):
            nonlocal total
            self.generic_visit(c)
            if id(c) in skip:
                return c
            f = c.func
            if isinstance(f, ast.Attribute) and f.attr == meth and not (isinstance(f.value, ast.Call) and isinstance(f.value.func, ast.Name) and f.value.func.id == "super"):
                arg = c.args[0] if len(c.args) == 1 and not c.keywords else (c.keywords[0].value if not c.args and len(c.keywords) == 1 and c.keywords[0].arg == "extension" else None)
                if isinstance(arg, ast.Constant) and arg.value is True:
                    total += 1
                    return ast.copy_location(ast.Call(func=ast.Name(id="str", ctx=ast.Load()), args=[f.value], keywords=[]), c)
            return c

    T().visit(tree)
    if total:
        ast.fix_missing_locations(tree)
    return total


# ---------------------------------------------------------------------------------------------- (8) keyword arguments of package calls
def positional_package_arguments(tree: ast.Module, facts) -> int:
    """`f(a=x, b=y)` on a package function / method / constructor whose name has one signature in the whole package is
    written with positional arguments as far as the leading parameters are supplied (the rules then find the n-th argument
    where they expect it)."""
    sig = (facts or {}).get("signatures", {})
    total = 0
    for c in ast.walk(tree):
        if not isinstance(c, ast.Call) or not c.keywords:
            continue
        f = c.func
        name = f.id if isinstance(f, ast.Name) else (f.attr if isinstance(f, ast.Attribute) else None)
        if name not in sig:
            continue
        params = sig[name]
        if any(isinstance(a, ast.Starred) for a in c.args) or any(k.arg is None for k in c.keywords):
            continue
        if any(k.arg not in params for k in c.keywords) or len(c.args) > len(params):
            continue
        kw = {k.arg: k.value for k in c.keywords}
        if set(params[: len(c.args)]) & set(kw):
            continue
        args = list(c.args)
        for p_ in params[len(c.args):]:
            if p_ in kw:
                args.append(kw.pop(p_))
            else:
                break
        if len(args) != len(c.args):
            c.args = args
            c.keywords = [k for k in c.keywords if k.arg in kw]
            total += 1
    return total


# ---------------------------------------------------------------------------------------------- (9) local aliases of stable attributes
def propagate_stable_aliases(tree: ast.Module, facts) -> int:
    """`x = self.a` (or `self.a.b`) where every attribute of the chain is established by a constructor and never stored
    elsewhere in the package, `x` being assigned exactly once in its function and not shared with a `global` / `nonlocal`
    declaration: every use of `x` (also inside nested functions) is written as the attribute chain and the assignment is
    dropped — the "local alias for an attribute chain" tidy-up read backwards."""
    stable = (facts or {}).get("stable_attrs", set())
    total = 0

    def chain_ok(e):
        while isinstance(e, ast.Attribute):
            if e.attr not in stable:
                return False
            e = e.value
        return isinstance(e, ast.Name) and e.id == "self"

    for fn in [n for n in ast.walk(tree) if isinstance(n, FUNC)]:
        if not fn.args.args or fn.args.args[0].arg != "self":
            continue
        params = {a.arg for a in fn.args.posonlyargs + fn.args.args + fn.args.kwonlyargs}
        cands = {}
        for holder in ast.walk(fn):
            for fld in ("body", "orelse", "finalbody"):
                block = getattr(holder, fld, None)
                if not (isinstance(block, list) and block and isinstance(block[0], ast.stmt)):
                    continue
                if holder is not fn:
                    continue  # only assignments at the top level of the method (they run before everything after them)
                for st in block:
                    if isinstance(st, ast.Assign) and len(st.targets) == 1 and isinstance(st.targets[0], ast.Name) and isinstance(st.value, ast.Attribute) and chain_ok(st.value):
                        cands.setdefault(st.targets[0].id, []).append((block, st))
        for name, sites in cands.items():
            if len(sites) != 1 or name in params or _stores(fn, name) != 1:
                continue
            block, st = sites[0]
            # every use comes after the assignment: the assignment is a top-level statement and no use precedes it
            idx = block.index(st)
            early = {prev.name: prev for prev in block[:idx] if isinstance(prev, FUNC)}
            # closures that read the name themselves or call (by name) a closure that does
            reads = {k for k, d in early.items() if _loads(d, name)}
            grew = True
            while grew:
                grew = False
                for k, d in early.items():
                    if k not in reads and any(isinstance(c, ast.Call) and isinstance(c.func, ast.Name) and c.func.id in reads for c in ast.walk(d)):
                        reads.add(k)
                        grew = True
            bad = False
            for prev in block[:idx]:
                if isinstance(prev, FUNC):
                    continue  # a nested function reads the name when it is *called*
                if _loads(prev, name):
                    bad = True
                if any(isinstance(c, ast.Call) and isinstance(c.func, ast.Name) and c.func.id in reads for c in ast.walk(prev)):
                    bad = True  # a closure that reads the name runs before the assignment
                if any(isinstance(c, ast.Name) and isinstance(c.ctx, ast.Load) and c.id in reads and not isinstance(getattr(c, "_p", None), ast.Call) for c in ast.walk(prev)
                       if not any(isinstance(k_, ast.Call) and k_.func is c for k_ in ast.walk(prev))):
                    bad = True  # such a closure escapes as a value before the assignment
            if bad:
                continue
            # `self` must still mean the same object where the alias is used: no nested function re-binds self
            rebinding = any(isinstance(n, FUNC) and n is not fn and any(a.arg == "self" for a in n.args.args) for n in ast.walk(fn))
            if rebinding:
                continue
            sub = _Subst({name: st.value})
            for i, other in enumerate(block):
                if other is st:
                    continue
                block[i] = sub.visit(other)
            block.remove(st)
            total += 1
    if total:
        ast.fix_missing_locations(tree)
    return total


# ---------------------------------------------------------------------------------------------- (2') pure single-assignment temporaries
def propagate_pure_temporaries(tree: ast.Module, facts) -> int:
    """`t = <pure expression>` at the top level of a function, `t` stored exactly once, every operand *frozen* for the rest
    of the function (a parameter or single-assignment local that is never re-bound or changed in place in the function;
    an attribute chain below `self` whose attributes are established by constructors only and whose containers are never
    changed in place anywhere in the package): every later use of `t` — also inside nested functions that are not called
    before the assignment — is written as the expression, and the assignment is dropped."""
    frozen_attrs = (facts or {}).get("frozen_attrs", set())
    total = 0

    def outer_functions(node):
        for st in getattr(node, "body", []):
            if isinstance(st, FUNC):
                yield st
            elif isinstance(st, ast.ClassDef):
                yield from outer_functions(st)

    def mutated_in(fn, name) -> bool:
        for n in ast.walk(fn):
            if isinstance(n, ast.Call) and isinstance(n.func, ast.Attribute) and n.func.attr in _MUTATORS and isinstance(n.func.value, ast.Name) and n.func.value.id == name:
                return True
            if isinstance(n, (ast.Assign, ast.AugAssign, ast.Delete)):
                for t in (n.targets if isinstance(n, (ast.Assign, ast.Delete)) else [n.target]):
                    b = t
                    while isinstance(b, (ast.Subscript, ast.Attribute)):
                        b = b.value
                    if isinstance(b, ast.Name) and b.id == name and b is not t:
                        return True
                    if isinstance(n, ast.AugAssign) and isinstance(t, ast.Name) and t.id == name:
                        return True
        return False

    def operands_frozen(fn, e, params) -> bool:
        for n in ast.walk(e):
            if isinstance(n, ast.Name) and isinstance(n.ctx, ast.Load):
                if n.id in PURE_FUNCS or n.id in ("self", "np", "True", "False", "None"):
                    continue
                k = _stores(fn, n.id)
                if n.id in params:
                    if k != 1 or mutated_in(fn, n.id):  # the parameter itself counts as one store
                        return False
                elif k != 1 or mutated_in(fn, n.id):
                    return False
            if isinstance(n, ast.Attribute):
                if isinstance(n.ctx, ast.Load) and not (isinstance(n.value, ast.Name) and n.value.id == "np"):
                    # method of a pure call is checked by _pure; data attributes must be frozen and rooted at self
                    par_call = False
                    if n.attr in PURE_METHODS:
                        par_call = True
                    if not par_call:
                        root = n
                        while isinstance(root, ast.Attribute):
                            if root.attr not in frozen_attrs and not (root is n and False):
                                return False
                            root = root.value
                        if not (isinstance(root, ast.Name) and root.id == "self"):
                            return False
        return True

    def do_function(fn):
        nonlocal total
        params = {a.arg for a in fn.args.posonlyargs + fn.args.args + fn.args.kwonlyargs}
        changed = True
        while changed:
            changed = False
            block = fn.body
            for st in list(block):
                if not (isinstance(st, ast.Assign) and len(st.targets) == 1 and isinstance(st.targets[0], ast.Name)):
                    continue
                name = st.targets[0].id
                v = st.value
                if name in params or _stores(fn, name) != 1 or _loads(v, name) or not _pure(v) or isinstance(v, (ast.Constant, ast.Name, ast.List, ast.Dict, ast.Set, ast.ListComp, ast.DictComp, ast.SetComp, ast.GeneratorExp)):
                    continue
                if not any(isinstance(n, ast.Call) for n in ast.walk(v)) and not isinstance(v, (ast.Compare, ast.BoolOp)):
                    continue  # only computed facts (len(...), comparisons): plain arithmetic temporaries are left alone
                if sum(1 for _ in ast.walk(v)) > 14 or mutated_in(fn, name):
                    continue
                if not operands_frozen(fn, v, params):
                    continue
                idx = block.index(st)
                early_defs = {prev.name for prev in block[:idx] if isinstance(prev, FUNC)}
                bad = False
                for prev in block[:idx]:
                    if isinstance(prev, FUNC):
                        continue
                    if _loads(prev, name) or any(isinstance(c, ast.Call) and isinstance(c.func, ast.Name) and c.func.id in early_defs for c in ast.walk(prev)):
                        bad = True
                if bad or not any(_loads(o, name) for o in block if o is not st):
                    continue
                # operands assigned later than the temporary would change its meaning: require their single store to precede
                later_stores = set()
                for o in block[idx + 1:]:
                    if not isinstance(o, FUNC):
                        later_stores |= {n.id for n in ast.walk(o) if isinstance(n, ast.Name) and isinstance(n.ctx, (ast.Store, ast.Del))}
                if later_stores & {n.id for n in ast.walk(v) if isinstance(n, ast.Name)}:
                    continue
                sub = _Subst({name: v})
                for i, other in enumerate(block):
                    if other is not st:
                        block[i] = sub.visit(other)
                block.remove(st)
                total += 1
                changed = True
                break
        for st in fn.body:
            if isinstance(st, FUNC):
                do_function(st)

    for fn in outer_functions(tree):
        do_function(fn)
    if total:
        ast.fix_missing_locations(tree)
    return total


# ---------------------------------------------------------------------------------------------- (10) X.sum() -> np.sum(X)
def canonical_sum(tree: ast.Module) -> int:
    total = 0
    has_np = any(isinstance(n, ast.Import) and any(a.name == "numpy" and (a.asname or "numpy") == "np" for a in n.names) for n in ast.walk(tree))
    if not has_np:
        return 0

    class T(ast.NodeTransformer):
        def visit_Call(self, c):
            nonlocal total
            self.generic_visit(c)
            f = c.func
            if isinstance(f, ast.Attribute) and f.attr == "sum" and not c.args and not c.keywords and not (isinstance(f.value, ast.Name) and f.value.id in ("np", "numpy")):
                total += 1
                return ast.copy_location(ast.Call(func=ast.Attribute(value=ast.Name(id="np", ctx=ast.Load()), attr="sum", ctx=ast.Load()), args=[f.value], keywords=[]), c)
            return c

    T().visit(tree)
    if total:
        ast.fix_missing_locations(tree)
    return total


# ---------------------------------------------------------------------------------------------- (11) NumPy spellings
def canonical_numpy(tree: ast.Module) -> int:
    """`A.all()` / `A.any()` are written `np.all(A)` / `np.any(A)`; `not np.any(x != y)` is `np.all(x == y)` (also true for
    NaN: both are False); `X.size` compared with 0 / 1 is `len(X)` (the arrays of this package are one-dimensional)."""
    if not any(isinstance(n, ast.Import) and any(a.name == "numpy" and (a.asname or "numpy") == "np" for a in n.names) for n in ast.walk(tree)):
        return 0
    total = 0

    def np_call(name, arg):
        return ast.Call(func=ast.Attribute(value=ast.Name(id="np", ctx=ast.Load()), attr=name, ctx=ast.Load()), args=[arg], keywords=[])

    class T(ast.NodeTransformer):
        def visit_Call(self, c):
            nonlocal total
            self.generic_visit(c)
            f = c.func
            if isinstance(f, ast.Attribute) and f.attr in ("all", "any") and not c.args and not c.keywords and not (isinstance(f.value, ast.Name) and f.value.id in ("np", "numpy")):
                total += 1
                return ast.copy_location(np_call(f.attr, f.value), c)
            return c

        def visit_UnaryOp(self, u):
            nonlocal total
            self.generic_visit(u)
            if isinstance(u.op, ast.Not) and isinstance(u.operand, ast.Call) and isinstance(u.operand.func, ast.Attribute) and u.operand.func.attr == "any" \
                    and isinstance(u.operand.func.value, ast.Name) and u.operand.func.value.id == "np" and len(u.operand.args) == 1 \
                    and isinstance(u.operand.args[0], ast.Compare) and len(u.operand.args[0].ops) == 1 and isinstance(u.operand.args[0].ops[0], ast.NotEq):
                cmp_ = u.operand.args[0]
                total += 1
                return ast.copy_location(np_call("all", ast.Compare(left=cmp_.left, ops=[ast.Eq()], comparators=cmp_.comparators)), u)
            return u

        def visit_Compare(self, c):
            nonlocal total
            self.generic_visit(c)
            if len(c.ops) == 1 and isinstance(c.left, ast.Attribute) and c.left.attr == "size" and isinstance(c.comparators[0], ast.Constant) and c.comparators[0].value in (0, 1):
                total += 1
                c.left = ast.copy_location(ast.Call(func=ast.Name(id="len", ctx=ast.Load()), args=[c.left.value], keywords=[]), c.left)
            return c

    T().visit(tree)
    if total:
        ast.fix_missing_locations(tree)
    return total


# ---------------------------------------------------------------------------------------------- (12) loop tests
def canonical_loop_tests(tree: ast.Module) -> int:
    """(a) `while True:` whose first statement is `if C: break` (no else) is `while not C:`; the same with a bare `return`
    when the loop is the last statement of its function.
    (b) `while F:` / `while not F:` where F is a plain local flag whose only definition reaching the loop from outside is a
    constant that makes the test true, and whose every assignment inside the loop is directly followed by nothing but the end
    of the iteration is *not* rewritten (too many shapes) — the CFG handles it: see R-DO-WHILE."""
    total = 0
    for fn in [n for n in ast.walk(tree) if isinstance(n, FUNC)]:
        for holder in ast.walk(fn):
            for fld in ("body", "orelse", "finalbody"):
                block = getattr(holder, fld, None)
                if not (isinstance(block, list) and block and isinstance(block[0], ast.stmt)):
                    continue
                for i, st in enumerate(block):
                    if not (isinstance(st, ast.While) and isinstance(st.test, ast.Constant) and st.test.value is True and not st.orelse and st.body):
                        continue
                    first = st.body[0]
                    if not (isinstance(first, ast.If) and not first.orelse and len(first.body) == 1):
                        continue
                    ex = first.body[0]
                    is_break = isinstance(ex, ast.Break)
                    is_ret = isinstance(ex, ast.Return) and ex.value is None and holder is fn and fld == "body" and i == len(block) - 1
                    if not (is_break or is_ret) or len(st.body) < 2:
                        continue
                    # no `continue` may skip the test... it cannot: the test is the first statement of every iteration
                    t = first.test
                    st.test = t.operand if (isinstance(t, ast.UnaryOp) and isinstance(t.op, ast.Not)) else ast.UnaryOp(op=ast.Not(), operand=t)
                    ast.copy_location(st.test, t)
                    st.body = st.body[1:]
                    total += 1
    if total:
        ast.fix_missing_locations(tree)
    return total


def fold_inlining_temporaries(tree: ast.Module) -> int:
    """A temporary introduced by helper inlining / hoisting (`…__i<k>`), assigned once with a pure value and used exactly once,
    in the statement that directly follows, is folded into that use (nothing can happen in between)."""
    import re as _re_

    total = 0
    for fn in [n for n in ast.walk(tree) if isinstance(n, FUNC)]:
        for holder in ast.walk(fn):
            for fld in ("body", "orelse", "finalbody"):
                block = getattr(holder, fld, None)
                if not (isinstance(block, list) and block and isinstance(block[0], ast.stmt)):
                    continue
                i = 0
                while i < len(block) - 1:
                    st, nxt = block[i], block[i + 1]
                    if isinstance(st, ast.Assign) and len(st.targets) == 1 and isinstance(st.targets[0], ast.Name) and _re_.search(r"__i\d+$", st.targets[0].id):
                        name = st.targets[0].id
                        j = i + 1
                        while j < len(block) - 1 and _loads(block[j], name) == 0 and isinstance(block[j], ast.Assign) and len(block[j].targets) == 1 and isinstance(block[j].targets[0], ast.Name) \
                                and _re_.search(r"__i\d+$", block[j].targets[0].id) and _pure(block[j].value):
                            j += 1
                        nxt = block[j]
                        if _stores(fn, name) == 1 and _loads(fn, name) == 1 and _loads(nxt, name) == 1 and _pure(st.value) and not isinstance(nxt, FUNC + (ast.ClassDef, ast.For, ast.While, ast.Try, ast.With)):
                            # in compound statements (if) only the test may use it
                            if isinstance(nxt, ast.If) and _loads(nxt.test, name) != 1:
                                i += 1
                                continue
                            block[j] = _Subst({name: st.value}).visit(nxt)
                            del block[i]
                            total += 1
                            i = max(i - 1, 0)
                            continue
                    i += 1
    if total:
        ast.fix_missing_locations(tree)
    return total


# ---------------------------------------------------------------------------------------------- (14) neighbouring pairs
def index_neighbour_pairs(tree: ast.Module) -> int:
    """`for a, b in zip(X, X[1:]): BODY` is written `for i in range(len(X) - 1): BODY` with a ↦ X[i], b ↦ X[i + 1]
    (X a plain name / attribute chain that BODY does not re-bind or change; a, b not re-bound in BODY)."""
    total = 0
    for loop in [n for n in ast.walk(tree) if isinstance(n, ast.For)]:
        it, tg = loop.iter, loop.target
        if not (isinstance(it, ast.Call) and isinstance(it.func, ast.Name) and it.func.id == "zip" and len(it.args) == 2 and not it.keywords
                and isinstance(tg, ast.Tuple) and len(tg.elts) == 2 and all(isinstance(e, ast.Name) for e in tg.elts) and not loop.orelse):
            continue
        x, tail = it.args
        if not (isinstance(tail, ast.Subscript) and isinstance(tail.slice, ast.Slice) and tail.slice.upper is None and tail.slice.step is None
                and isinstance(tail.slice.lower, ast.Constant) and tail.slice.lower.value == 1 and ast.dump(tail.value) == ast.dump(x)):
            continue
        base = x
        while isinstance(base, ast.Attribute):
            base = base.value
        if not isinstance(base, ast.Name):
            continue
        a, b = tg.elts[0].id, tg.elts[1].id
        xs = ast.unparse(x)
        bad = False
        for st in loop.body:
            for n in ast.walk(st):
                if isinstance(n, ast.Name) and isinstance(n.ctx, (ast.Store, ast.Del)) and n.id in (a, b, base.id):
                    bad = True
                if isinstance(n, ast.Call) and isinstance(n.func, ast.Attribute) and ast.unparse(n.func.value) == xs:
                    bad = True  # a method call on X may change it
                if isinstance(n, (ast.Subscript, ast.Attribute)) and isinstance(n.ctx, (ast.Store, ast.Del)) and ast.unparse(n.value).startswith(xs):
                    bad = True
        if bad:
            continue
        total += 1
        idx = f"i__z{total}"

        class _S(ast.NodeTransformer):
            def visit_Name(self, n):
                if isinstance(n.ctx, ast.Load) and n.id in (a, b):
                    i = ast.Name(id=idx, ctx=ast.Load())
                    sl = i if n.id == a else ast.BinOp(left=i, op=ast.Add(), right=ast.Constant(value=1))
                    import copy as _c

                    return ast.copy_location(ast.Subscript(value=_c.deepcopy(x), slice=sl, ctx=ast.Load()), n)
                return n

        loop.body = [_S().visit(st) for st in loop.body]
        import copy as _c

        loop.target = ast.copy_location(ast.Name(id=idx, ctx=ast.Store()), tg)
        loop.iter = ast.copy_location(ast.Call(func=ast.Name(id="range", ctx=ast.Load()), args=[ast.BinOp(
            left=ast.Call(func=ast.Name(id="len", ctx=ast.Load()), args=[_c.deepcopy(x)], keywords=[]), op=ast.Sub(), right=ast.Constant(value=1))], keywords=[]), it)
    if total:
        ast.fix_missing_locations(tree)
    return total


# ---------------------------------------------------------------------------------------------- (16) local alias of a fresh field value
def fold_field_aliases(tree: ast.Module) -> int:
    """`L = E` directly followed by `self.F = L` (each stored exactly once in the function) names one object twice: the
    pair is written `self.F = E` and every later read of `L` as `self.F`.  (A callee that re-binds self.F in between would
    break the equivalence; none of the package's constructors calls such a method — accepted, documented.)"""
    total = 0
    for fn in [n for n in ast.walk(tree) if isinstance(n, FUNC)]:
        if not (fn.args.args and fn.args.args[0].arg == "self"):
            continue
        for holder in ast.walk(fn):
            for fld in ("body", "orelse", "finalbody"):
                block = getattr(holder, fld, None)
                if not (isinstance(block, list) and block and isinstance(block[0], ast.stmt)):
                    continue
                i = 0
                while i + 1 < len(block):
                    a, b = block[i], block[i + 1]
                    i += 1
                    if not (isinstance(a, ast.Assign) and len(a.targets) == 1 and isinstance(a.targets[0], ast.Name)
                            and isinstance(b, ast.Assign) and len(b.targets) == 1 and isinstance(b.targets[0], ast.Attribute)
                            and isinstance(b.targets[0].value, ast.Name) and b.targets[0].value.id == "self"
                            and isinstance(b.value, ast.Name) and b.value.id == a.targets[0].id):
                        continue
                    L, F = a.targets[0].id, b.targets[0].attr
                    if not isinstance(a.value, (ast.List, ast.Dict, ast.Set, ast.ListComp, ast.DictComp, ast.SetComp, ast.Call)):
                        continue
                    if _stores(fn, L) != 1:
                        continue
                    f_stores = sum(1 for n in ast.walk(fn) if isinstance(n, ast.Attribute) and n.attr == F and isinstance(n.ctx, (ast.Store, ast.Del))
                                   and isinstance(n.value, ast.Name) and n.value.id == "self")
                    if f_stores != 1 or L in {x.arg for x in fn.args.args + fn.args.kwonlyargs}:
                        continue
                    b.value = a.value
                    del block[i - 1]
                    i -= 1

                    class _R(ast.NodeTransformer):
                        def visit_Name(self, n):
                            if n.id == L and isinstance(n.ctx, ast.Load):
                                return ast.copy_location(ast.Attribute(value=ast.copy_location(ast.Name(id="self", ctx=ast.Load()), n), attr=F, ctx=ast.Load()), n)
                            return n

                    for st in ast.walk(fn):
                        for f2 in ("body", "orelse", "finalbody"):
                            bl = getattr(st, f2, None)
                            if isinstance(bl, list) and bl and isinstance(bl[0], ast.stmt):
                                bl[:] = [_R().visit(x) if x is not b else x for x in bl]
                    total += 1
    if total:
        ast.fix_missing_locations(tree)
    return total


# ---------------------------------------------------------------------------------------------- (17) annotations
def strip_annotations(tree: ast.Module) -> int:
    """`x: T = v` is the statement `x = v`; a bare declaration `x: T` is no statement at all; parameter and return
    annotations carry no behaviour (the package never inspects `__annotations__`; checked: no such read)."""
    if any(isinstance(n, ast.Attribute) and n.attr == "__annotations__" for n in ast.walk(tree)) or any(
            isinstance(n, ast.Call) and isinstance(n.func, ast.Name) and n.func.id in ("dataclass", "get_type_hints") for n in ast.walk(tree)) or any(
            isinstance(d, (ast.Name, ast.Attribute, ast.Call)) and "dataclass" in ast.unparse(d) for c in ast.walk(tree) if isinstance(c, ast.ClassDef) for d in c.decorator_list):
        return 0
    total = 0
    for holder in ast.walk(tree):
        for fld in ("body", "orelse", "finalbody"):
            block = getattr(holder, fld, None)
            if not (isinstance(block, list) and block and isinstance(block[0], ast.stmt)):
                continue
            for i, st in enumerate(block):
                if isinstance(st, ast.AnnAssign):
                    if st.value is not None:
                        new = ast.Assign(targets=[st.target], value=st.value, type_comment=None)
                    else:
                        new = ast.Pass()
                    block[i] = ast.copy_location(new, st)
                    total += 1
        if isinstance(holder, FUNC):
            for a in holder.args.args + holder.args.kwonlyargs + holder.args.posonlyargs + [x for x in (holder.args.vararg, holder.args.kwarg) if x is not None]:
                if a.annotation is not None:
                    a.annotation = None
                    total += 1
            if holder.returns is not None:
                holder.returns = None
                total += 1
    return total


# ---------------------------------------------------------------------------------------------- (18) loops over a literal table
def unroll_literal_tables(tree: ast.Module) -> int:
    """`for a, b in ((x1, y1), (x2, y2), …): BODY` over a literal tuple / list of at most 8 rows (written in place, or held in
    a local that is assigned exactly once, to the literal, and only read by this loop) is written as the sequence of its
    iterations, with a ↦ x_k, b ↦ y_k (rows of names / constants / attribute chains only; BODY neither stores the loop
    variables nor contains break / continue of this loop; the variables are not read after the loop)."""
    total = 0
    for fn in [n for n in ast.walk(tree) if isinstance(n, FUNC)]:
        for holder in ast.walk(fn):
            for fld in ("body", "orelse", "finalbody"):
                block = getattr(holder, fld, None)
                if not (isinstance(block, list) and block and isinstance(block[0], ast.stmt)):
                    continue
                i = 0
                while i < len(block):
                    st = block[i]
                    i += 1
                    if not (isinstance(st, ast.For) and not st.orelse):
                        continue
                    it = st.iter
                    table_def = None
                    if isinstance(it, ast.Name):
                        defs = [a for a in ast.walk(fn) if isinstance(a, ast.Assign) and len(a.targets) == 1 and isinstance(a.targets[0], ast.Name) and a.targets[0].id == it.id]
                        uses = [x for x in ast.walk(fn) if isinstance(x, ast.Name) and x.id == it.id and isinstance(x.ctx, ast.Load)]
                        if len(defs) == 1 and _stores(fn, it.id) == 1 and len(uses) == 1 and isinstance(defs[0].value, (ast.Tuple, ast.List)):
                            table_def, it = defs[0], defs[0].value
                    if not (isinstance(it, (ast.Tuple, ast.List)) and 1 <= len(it.elts) <= 8):
                        continue
                    tg = st.target
                    names = [tg.id] if isinstance(tg, ast.Name) else ([e.id for e in tg.elts] if isinstance(tg, (ast.Tuple, ast.List)) and all(isinstance(e, ast.Name) for e in tg.elts) else None)
                    if names is None:
                        continue
                    rows = []
                    for row in it.elts:
                        if isinstance(tg, ast.Name):
                            cells = [row]
                        elif isinstance(row, (ast.Tuple, ast.List)) and len(row.elts) == len(names):
                            cells = list(row.elts)
                        else:
                            rows = None
                            break
                        if not all(_simple_arg(c) for c in cells):
                            rows = None
                            break
                        rows.append(cells)
                    if not rows:
                        continue
                    # body: no store to the loop variables, no break / continue belonging to this loop, no nested definitions
                    bad = False

                    def scan(stmts, depth):
                        nonlocal bad
                        for s_ in stmts:
                            if isinstance(s_, (ast.Break, ast.Continue)) and depth == 0:
                                bad = True
                            if isinstance(s_, FUNC) or isinstance(s_, (ast.ClassDef, ast.Lambda)):
                                bad = True
                            for f2 in ("body", "orelse", "finalbody", "handlers"):
                                sub = getattr(s_, f2, None)
                                if isinstance(sub, list) and sub and isinstance(sub[0], (ast.stmt, ast.ExceptHandler)):
                                    scan([x for x in sub if isinstance(x, ast.stmt)] + [y for x in sub if isinstance(x, ast.ExceptHandler) for y in x.body], depth + (1 if isinstance(s_, (ast.For, ast.While)) else 0))

                    scan(st.body, 0)
                    for x in ast.walk(st):
                        if x is not tg and isinstance(x, ast.Name) and x.id in names and isinstance(x.ctx, (ast.Store, ast.Del)) and not any(x is y for y in ast.walk(tg)):
                            bad = True
                        if isinstance(x, ast.Lambda):
                            bad = True
                    inside = {id(x) for x in ast.walk(st)}
                    if any(isinstance(x, ast.Name) and x.id in names and id(x) not in inside for x in ast.walk(fn)):
                        bad = True
                    if bad:
                        continue
                    new = []
                    for cells in rows:
                        env = dict(zip(names, cells))

                        class _S(ast.NodeTransformer):
                            def visit_Name(self, n):
                                if isinstance(n.ctx, ast.Load) and n.id in env:
                                    return ast.copy_location(copy.deepcopy(env[n.id]), n)
                                return n

                        for b_ in st.body:
                            new.append(_S().visit(copy.deepcopy(b_)))
                    block[i - 1:i] = new
                    i += len(new) - 1
                    if table_def is not None:
                        for h2 in ast.walk(fn):
                            for f3 in ("body", "orelse", "finalbody"):
                                bl = getattr(h2, f3, None)
                                if isinstance(bl, list) and table_def in bl:
                                    if len(bl) > 1:
                                        k_ = bl.index(table_def)
                                        del bl[k_]
                                        if bl is block and k_ < i:
                                            i -= 1
                                    else:
                                        bl[0] = ast.copy_location(ast.Pass(), table_def)
                    total += 1
    if total:
        ast.fix_missing_locations(tree)
    return total


# ---------------------------------------------------------------------------------------------- (19) lazily initialised loop constants
def _pure_np(e) -> bool:
    for n in ast.walk(e):
        if isinstance(n, ast.Call):
            f = n.func
            if isinstance(f, ast.Name) and f.id in PURE_FUNCS:
                continue
            if isinstance(f, ast.Attribute) and (f.attr in PURE_METHODS or (isinstance(f.value, ast.Name) and f.value.id in ("np", "numpy", "math") and f.attr in ("sum", "asarray", "array", "sqrt", "exp", "log", "cumsum", "prod"))):
                continue
            return False
        if isinstance(n, (ast.Yield, ast.YieldFrom, ast.Await, ast.NamedExpr, ast.Lambda)):
            return False
    return True


def inline_lazy_loop_constants(tree: ast.Module) -> int:
    """`x = None` before a loop whose body starts with `if x is None: x = E` (E pure, over names the loop does not store or
    change; x read nowhere else) caches a loop constant: every read of x in the loop is written as E, the cache disappears."""
    total = 0
    for fn in [n for n in ast.walk(tree) if isinstance(n, FUNC)]:
        for loop in [n for n in ast.walk(fn) if isinstance(n, (ast.While, ast.For))]:
            if not loop.body or not isinstance(loop.body[0], ast.If) or loop.body[0].orelse:
                continue
            guard = loop.body[0]
            t = guard.test
            if not (isinstance(t, ast.Compare) and len(t.ops) == 1 and isinstance(t.ops[0], ast.Is) and isinstance(t.left, ast.Name)
                    and isinstance(t.comparators[0], ast.Constant) and t.comparators[0].value is None):
                continue
            if not all(isinstance(s_, ast.Assign) and len(s_.targets) == 1 and isinstance(s_.targets[0], ast.Name) for s_ in guard.body):
                continue
            cached = {s_.targets[0].id: s_.value for s_ in guard.body}
            if t.left.id not in cached or len(cached) != len(guard.body):
                continue
            stored_in_loop = {n.id for st in loop.body[1:] for n in ast.walk(st) if isinstance(n, ast.Name) and isinstance(n.ctx, (ast.Store, ast.Del))}
            if isinstance(loop, ast.For):
                stored_in_loop |= {n.id for n in ast.walk(loop.target) if isinstance(n, ast.Name)}
            changed_in_loop = {n.func.value.id for st in loop.body[1:] for n in ast.walk(st) if isinstance(n, ast.Call) and isinstance(n.func, ast.Attribute) and isinstance(n.func.value, ast.Name)
                               and n.func.attr in ("append", "extend", "pop", "remove", "clear", "insert", "sort", "reverse", "update", "fill")}
            changed_in_loop |= {n.value.id for st in loop.body[1:] for n in ast.walk(st) if isinstance(n, ast.Subscript) and isinstance(n.ctx, (ast.Store, ast.Del)) and isinstance(n.value, ast.Name)}
            ok = True
            inits = {}
            for x, e in cached.items():
                free = {n.id for n in ast.walk(e) if isinstance(n, ast.Name)}
                if not _pure_np(e) or free & (stored_in_loop | changed_in_loop | set(cached)):
                    ok = False
                defs = [a for a in ast.walk(fn) if isinstance(a, ast.Assign) and any(isinstance(tt, ast.Name) and tt.id == x for tt in a.targets)]
                other = [a for a in defs if a not in guard.body]
                if len(other) != 1 or not (isinstance(other[0].value, ast.Constant) and other[0].value.value is None) or _stores(fn, x) != 2:
                    ok = False
                else:
                    inits[x] = other[0]
                inside = {id(n) for n in ast.walk(loop)}
                if any(isinstance(n, ast.Name) and n.id == x and isinstance(n.ctx, ast.Load) and id(n) not in inside for n in ast.walk(fn)):
                    ok = False
            if not ok:
                continue

            class _S(ast.NodeTransformer):
                def visit_Name(self, n):
                    if isinstance(n.ctx, ast.Load) and n.id in cached:
                        return ast.copy_location(copy.deepcopy(cached[n.id]), n)
                    return n

            loop.body = [_S().visit(st) for st in loop.body[1:]] or [ast.copy_location(ast.Pass(), guard)]
            for x, a in inits.items():
                for h2 in ast.walk(fn):
                    for f3 in ("body", "orelse", "finalbody"):
                        bl = getattr(h2, f3, None)
                        if isinstance(bl, list) and a in bl:
                            if len(a.targets) == 1:
                                if len(bl) > 1:
                                    bl.remove(a)
                                else:
                                    bl[0] = ast.copy_location(ast.Pass(), a)
            total += 1
    if total:
        ast.fix_missing_locations(tree)
    return total


# ---------------------------------------------------------------------------------------------- (20) private module constants
def inline_private_constants(tree: ast.Module, keep=frozenset()) -> int:
    """A private module-level name (`_NAME`) bound exactly once, at module level, to an immutable literal (number, text, tuple
    of at most 8 such) and never re-bound (`global`) is that literal: reads inside the module are written as the literal.
    Names the rules anchor on (`keep`) stay."""
    consts = {}
    for st in tree.body:
        if isinstance(st, ast.Assign) and len(st.targets) == 1 and isinstance(st.targets[0], ast.Name):
            n, v = st.targets[0].id, st.value
            if not n.startswith("_") or n.startswith("__") or n in keep:
                continue
            imported = {(a.asname or a.name).split(".")[0] for st2 in tree.body if isinstance(st2, (ast.Import, ast.ImportFrom)) for a in st2.names}

            def _cell(e):
                if isinstance(e, ast.Constant):
                    return isinstance(e.value, (int, float, str)) and not isinstance(e.value, bool)
                if isinstance(e, ast.Attribute):  # an enumeration member of an imported module: rc.BondType.DOUBLE
                    b_ = e
                    while isinstance(b_, ast.Attribute):
                        b_ = b_.value
                    return isinstance(b_, ast.Name) and b_.id in imported
                return False

            lit = _cell(v) and isinstance(v, ast.Constant)
            tup = isinstance(v, ast.Tuple) and 1 <= len(v.elts) <= 8 and all(
                _cell(e) or (isinstance(e, ast.Tuple) and 1 <= len(e.elts) <= 4 and all(_cell(x) for x in e.elts)) for e in v.elts)
            if (lit or tup) and _stores(tree, n) == 1:
                consts[n] = v
    if not consts:
        return 0
    total = 0

    class _S(ast.NodeTransformer):
        def visit_Name(self, n):
            nonlocal total
            if isinstance(n.ctx, ast.Load) and n.id in consts:
                total += 1
                return ast.copy_location(copy.deepcopy(consts[n.id]), n)
            return n

    for fn in [n for n in ast.walk(tree) if isinstance(n, FUNC)]:
        params = {a.arg for a in fn.args.args + fn.args.kwonlyargs + fn.args.posonlyargs}
        if params & set(consts):
            continue
        fn.body = [_S().visit(st) for st in fn.body]
    if total:
        ast.fix_missing_locations(tree)
    return total


# ---------------------------------------------------------------------------------------------- (23) loop-carried search positions
def recompute_loop_carried_tests(tree: ast.Module) -> int:
    """`v = E` before `while T(v): BODY; v = E` (the same pure E, v stored nowhere else, no `continue` in BODY that would skip
    the update, v not read after the loop) — and `while T(v := E): BODY` — are written `while T(E): v = E; BODY`: the test
    always sees the freshly computed E; BODY sees the value computed at the top of the iteration."""
    total = 0
    for fn in [n for n in ast.walk(tree) if isinstance(n, FUNC)]:
        for holder in ast.walk(fn):
            for fld in ("body", "orelse", "finalbody"):
                block = getattr(holder, fld, None)
                if not (isinstance(block, list) and block and isinstance(block[0], ast.stmt)):
                    continue
                for i, loop in enumerate(block):
                    if not (isinstance(loop, ast.While) and not loop.orelse and loop.body):
                        continue

                    def _has_continue(stmts):
                        for s_ in stmts:
                            if isinstance(s_, ast.Continue):
                                return True
                            if isinstance(s_, (ast.For, ast.While)) or isinstance(s_, FUNC):
                                continue
                            for f2 in ("body", "orelse", "finalbody"):
                                sub = getattr(s_, f2, None)
                                if isinstance(sub, list) and sub and isinstance(sub[0], ast.stmt) and _has_continue(sub):
                                    return True
                            for h in getattr(s_, "handlers", []) or []:
                                if _has_continue(h.body):
                                    return True
                        return False

                    inside = {id(n) for n in ast.walk(loop)}
                    # walrus form
                    wal = [n for n in ast.walk(loop.test) if isinstance(n, ast.NamedExpr) and isinstance(n.target, ast.Name)]
                    if len(wal) == 1 and _pure_np(wal[0].value):
                        v, e = wal[0].target.id, wal[0].value
                        if _stores(fn, v) == 1 and not any(isinstance(n, ast.Name) and n.id == v and isinstance(n.ctx, ast.Load) and id(n) not in inside for n in ast.walk(fn)) \
                                and sum(1 for n in ast.walk(loop.test) if isinstance(n, ast.Name) and n.id == v) == 1:
                            class _W(ast.NodeTransformer):
                                def visit_NamedExpr(self, n):
                                    return n.value if n is wal[0] else self.generic_visit(n)
                            loop.test = _W().visit(loop.test)
                            first = ast.copy_location(ast.Assign(targets=[ast.Name(id=v, ctx=ast.Store())], value=copy.deepcopy(e)), loop.body[0])
                            loop.body.insert(0, first)
                            total += 1
                        continue
                    if i == 0:
                        continue
                    pre, last = block[i - 1], loop.body[-1]
                    if not (isinstance(pre, ast.Assign) and len(pre.targets) == 1 and isinstance(pre.targets[0], ast.Name)
                            and isinstance(last, ast.Assign) and len(last.targets) == 1 and isinstance(last.targets[0], ast.Name)
                            and pre.targets[0].id == last.targets[0].id and ast.dump(pre.value) == ast.dump(last.value) and len(loop.body) > 1):
                        continue
                    v, e = pre.targets[0].id, pre.value
                    if not _pure_np(e) or _stores(fn, v) != 2 or _has_continue(loop.body):
                        continue
                    if any(isinstance(n, ast.Name) and n.id == v and isinstance(n.ctx, ast.Load) and id(n) not in inside for n in ast.walk(fn)):
                        continue
                    if not any(isinstance(n, ast.Name) and n.id == v for n in ast.walk(loop.test)):
                        continue

                    class _T(ast.NodeTransformer):
                        def visit_Name(self, n):
                            if n.id == v and isinstance(n.ctx, ast.Load):
                                return ast.copy_location(copy.deepcopy(e), n)
                            return n

                    loop.test = _T().visit(loop.test)
                    loop.body = [ast.copy_location(ast.Assign(targets=[ast.Name(id=v, ctx=ast.Store())], value=copy.deepcopy(e)), loop.body[0])] + loop.body[:-1]
                    block[i - 1] = ast.copy_location(ast.Pass(), pre)
                    total += 1
    if total:
        ast.fix_missing_locations(tree)
    return total


# ---------------------------------------------------------------------------------------------- (24) parallel assignment of independent values
def split_parallel_assignments(tree: ast.Module) -> int:
    """`a, b = x, y` (displays of equal length, plain names as targets, no target read by any of the values, no starred
    element) is written `a = x; b = y`."""
    total = 0
    for holder in ast.walk(tree):
        for fld in ("body", "orelse", "finalbody"):
            block = getattr(holder, fld, None)
            if not (isinstance(block, list) and block and isinstance(block[0], ast.stmt)):
                continue
            i = 0
            while i < len(block):
                st = block[i]
                i += 1
                if not (isinstance(st, ast.Assign) and len(st.targets) == 1 and isinstance(st.targets[0], (ast.Tuple, ast.List)) and isinstance(st.value, (ast.Tuple, ast.List))):
                    continue
                ts, vs = st.targets[0].elts, st.value.elts
                if len(ts) != len(vs) or len(ts) < 2 or not all(isinstance(t, ast.Name) for t in ts) or any(isinstance(v, ast.Starred) for v in vs):
                    continue
                names = {t.id for t in ts}
                if len(names) != len(ts) or any(isinstance(n, ast.Name) and n.id in names for v in vs for n in ast.walk(v)):
                    continue
                if any(isinstance(n, (ast.NamedExpr, ast.Yield, ast.Await)) for v in vs for n in ast.walk(v)):
                    continue
                new = [ast.copy_location(ast.Assign(targets=[t], value=v), st) for t, v in zip(ts, vs)]
                block[i - 1:i] = new
                i += len(new) - 1
                total += 1
    if total:
        ast.fix_missing_locations(tree)
    return total


def normalise(tree: ast.Module, keep=frozenset(), facts=None) -> Dict[str, int]:
    strip_annotations(tree)
    split_parallel_assignments(tree)
    recompute_loop_carried_tests(tree)
    inline_private_constants(tree, keep)
    inline_lazy_loop_constants(tree)
    unroll_literal_tables(tree)
    kz = index_neighbour_pairs(tree)
    kz += fold_field_aliases(tree)
    k8 = positional_package_arguments(tree, facts)
    k8 += canonical_str_calls(tree, facts)
    k8 += canonical_prefix_tests(tree)
    k8 += canonical_removeprefix(tree)
    k9 = propagate_stable_aliases(tree, facts)
    k9 += propagate_pure_temporaries(tree, facts)
    k9 += propagate_stable_aliases(tree, facts)
    k10 = canonical_sum(tree)
    k10 += canonical_numpy(tree)
    k10 += canonical_loop_tests(tree)
    a = inline_trivial_helpers(tree)
    a2 = inline_straight_line_helpers(tree, keep)
    a2 += fold_inlining_temporaries(tree) if a2 else 0
    b = propagate_condition_temps(tree)
    c = canonicalise_updates(tree)
    d = canonicalise_text_building(tree)
    q = expand_quantified_returns(tree)
    q += unroll_literal_tables(tree)  # a lowered quantifier may range over a literal table
    l = comprehend_append_loops(tree)
    return {"append_loops": l, "helpers_inlined": a, "straight_line_helpers_inlined": a2, "keyword_arguments_positional": k8, "stable_aliases": k9, "sum_calls": k10, "condition_temporaries": b, "updates": c, "text_concatenations": d, "quantified_returns": q, "neighbour_pairs": kz}
