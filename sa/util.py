"""Small helpers shared by the rule modules."""
from __future__ import annotations

import ast
from typing import Iterable, List, Optional

from .loader import AnalysisError, ClassInfo, FuncInfo, norm, own_nodes, src

RDKIT_MUTATORS = {"AddBond", "AddAtom", "RemoveAtom", "RemoveBond", "ReplaceAtom", "ReplaceBond", "CombineMols", "EditableMol", "RWMol"}
RDKIT_SOURCES = {"MolFromSmiles", "MolFromSmarts", "MolFromMolBlock"}


def callee_name(call: ast.Call) -> Optional[str]:
    f = call.func
    if isinstance(f, ast.Attribute):
        return f.attr
    if isinstance(f, ast.Name):
        return f.id
    return None


def calls(fi_or_node, name: Optional[str] = None) -> List[ast.Call]:
    node = fi_or_node.node if isinstance(fi_or_node, FuncInfo) else fi_or_node
    out = []
    for n in own_nodes(node):
        if isinstance(n, ast.Call) and (name is None or callee_name(n) == name):
            out.append(n)
    return out


def calls_deep(node, name: Optional[str] = None) -> List[ast.Call]:
    return [n for n in ast.walk(node) if isinstance(n, ast.Call) and (name is None or callee_name(n) == name)]


def one(xs, what: str):
    xs = list(xs)
    if len(xs) != 1:
        raise AnalysisError(f"expected exactly one {what}, found {len(xs)}")
    return xs[0]


def generate_roots(eng) -> List[str]:
    """Entry points of MolGen-based generation."""
    roots = []
    for ci in eng.prog.subclasses("BigSMILESbase"):
        m = ci.method("generate")
        if m is not None:
            roots.append(m.qualname)
    g = eng.prog.func_opt("system.System.generator")
    if g is not None:
        roots.append(g.qualname)
    return roots


def with_nested(fi: FuncInfo) -> List[FuncInfo]:
    out = [fi]
    for n in fi.nested.values():
        out += with_nested(n)
    return out


def with_helpers(eng, fi: FuncInfo) -> List[FuncInfo]:
    """fi, its nested functions and — transitively — the private methods of its own class they call (`self._step(...)`),
    each with its nested functions: a closure moved to a private method is still part of the same machinery."""
    out: List[FuncInfo] = []
    seen = set()
    own = fi.enclosing_class() or fi.outermost().enclosing_class()
    todo = [fi]
    while todo:
        f = todo.pop(0)
        for g in with_nested(f):
            if g.qualname in seen:
                continue
            seen.add(g.qualname)
            out.append(g)
            for c in calls(g):
                for t in eng.repo_callees(g, c):
                    tc = t.enclosing_class()
                    if own is not None and tc is not None and tc.name == own.name and t.name.startswith("_") and not t.name.startswith("__") and t.qualname not in seen:
                        todo.append(t)
    return out


def resolved_sites(eng, target_qual: str, within: Optional[Iterable[FuncInfo]] = None):
    """(caller FuncInfo, Call) for every call that may resolve to target."""
    out = []
    fis = list(within) if within is not None else list(eng.prog.all_functions())
    for fi in fis:
        for c in calls(fi):
            for t in eng.repo_callees(fi, c):
                if t.qualname == target_qual:
                    out.append((fi, c))
                    break
    return out


def kwarg(call: ast.Call, name: str):
    for k in call.keywords:
        if k.arg == name:
            return k.value
    return None


def arg(call: ast.Call, pos: int, name: Optional[str] = None):
    if pos is not None and pos < len(call.args):
        return call.args[pos]
    if name is not None:
        return kwarg(call, name)
    return None


def attr_of(e, a: str) -> bool:
    return isinstance(e, ast.Attribute) and e.attr == a


def strip_attr(e, a: str):
    """X.a -> X (else None)"""
    if isinstance(e, ast.Attribute) and e.attr == a:
        return e.value
    return None


def txt(e) -> str:
    return src(e) if e is not None else "<none>"


def is_self_attr(e, a: Optional[str] = None) -> bool:
    return isinstance(e, ast.Attribute) and isinstance(e.value, ast.Name) and e.value.id == "self" and (a is None or e.attr == a)


def stores_to_attr(fi_node, attr: str) -> List[ast.AST]:
    """Statements that assign / aug-assign / delete `<x>.attr` (any base)."""
    out = []
    for n in own_nodes(fi_node):
        if isinstance(n, ast.Assign):
            for t in n.targets:
                for s in ast.walk(t):
                    if isinstance(s, ast.Attribute) and s.attr == attr and isinstance(s.ctx, ast.Store):
                        out.append(n)
        elif isinstance(n, ast.AugAssign):
            if isinstance(n.target, ast.Attribute) and n.target.attr == attr:
                out.append(n)
    return out
