"""Engine: program + cached flows + call resolution (A-CALLS) + light type inference (A-TYPES)
+ dynamic-feature census."""
from __future__ import annotations

import ast
import builtins
from typing import Dict, FrozenSet, List, Optional, Set, Tuple

from .dataflow import Flow
from .loader import AnalysisError, ClassInfo, FuncInfo, Program, calls_in, dotted, norm, own_nodes, parent

BUILTINS = set(dir(builtins))

UNKNOWN = ("unknown",)

STR_METHODS_STR = {"strip", "lstrip", "rstrip", "upper", "lower", "replace", "join", "format", "title"}
STR_METHODS_INT = {"find", "rfind", "count", "index", "rindex"}
STR_METHODS_BOOL = {"startswith", "endswith", "isdigit", "isalpha"}


SCALAR_FUNCS = {"float", "int", "str", "len", "abs", "round", "sum", "min", "max", "bool"}


def _scalar_by_construction(v) -> bool:
    if v is None:
        return False
    if isinstance(v, ast.Constant):
        return True
    if isinstance(v, (ast.BinOp, ast.UnaryOp, ast.Compare, ast.JoinedStr)):
        return True
    if isinstance(v, ast.Call):
        f = v.func
        if isinstance(f, ast.Name) and f.id in SCALAR_FUNCS:
            return True
        if isinstance(f, ast.Attribute) and (f.attr in ("sum", "strip", "item") or (isinstance(f.value, ast.Name) and f.value.id in ("np", "numpy", "math"))):
            return True
    return False


class Engine:
    def __init__(self, root: str):
        self.prog = Program(root)
        self._flows: Dict[str, Flow] = {}
        self._attr_types: Dict[Tuple[str, str], FrozenSet] = {}
        self._attr_busy: Set[Tuple[str, str]] = set()
        self._ret_types: Dict[str, FrozenSet] = {}
        self._ret_busy: Set[str] = set()
        self._callgraph: Optional[Dict[str, Set[str]]] = None
        self._infer_cache: Dict[Tuple[int, str], FrozenSet] = {}
        self._resolve_cache: Dict[Tuple[int, str], List] = {}
        self._appends: Dict[str, Dict[str, List[ast.Call]]] = {}
        self._install_child_oracle()

    # ------------------------------------------------------------------ flows
    def _install_child_oracle(self):
        from . import template

        notation = {c.name for c in self.prog.subclasses("BigSMILESbase", strict=False)} if "BigSMILESbase" in self.prog.classes else set()

        def oracle(fi, e):
            if isinstance(e, ast.Name) and e.id == "self":
                return True
            ts = self.infer(e, fi)
            if any(t[0] == "inst" and t[1] in notation for t in ts):
                return True
            if ts and not any(t[0] in ("unknown",) for t in ts):
                return False
            # `self.attr` all of whose stores in the class are numbers / text by construction
            if isinstance(e, ast.Attribute) and isinstance(e.value, ast.Name) and e.value.id == "self":
                ci = fi.enclosing_class()
                vals = []
                for c in ([ci] + [self.prog.classes[b.split(".")[-1]] for b in (ci.base_names if ci else []) if b.split(".")[-1] in self.prog.classes]) if ci else []:
                    for fs in c.methods.values():
                        for f in fs:
                            for n in ast.walk(f.node):
                                if isinstance(n, (ast.Assign, ast.AugAssign, ast.AnnAssign)):
                                    tg = n.targets if isinstance(n, ast.Assign) else [n.target]
                                    if any(isinstance(t, ast.Attribute) and t.attr == e.attr and isinstance(t.value, ast.Name) and t.value.id == "self" for t in tg):
                                        vals.append(n.value)
                if vals and all(_scalar_by_construction(v) for v in vals):
                    return False
                # ... or that the class itself compares with a number / uses in arithmetic
                if ci is not None:
                    for fs in ci.methods.values():
                        for f in fs:
                            for n in ast.walk(f.node):
                                ops = []
                                if isinstance(n, ast.Compare):
                                    ops = [n.left] + list(n.comparators)
                                elif isinstance(n, ast.BinOp) and isinstance(n.op, (ast.Add, ast.Sub, ast.Mult, ast.Div)):
                                    ops = [n.left, n.right]
                                mine = [o for o in ops if isinstance(o, ast.Attribute) and o.attr == e.attr and isinstance(o.value, ast.Name) and o.value.id == "self"]
                                nums = [o for o in ops if isinstance(o, ast.Constant) and isinstance(o.value, (int, float)) and not isinstance(o.value, bool)]
                                if mine and nums:
                                    return False
            return None

        template.CHILD_ORACLE = oracle

    def flow(self, fi: FuncInfo) -> Flow:
        f = self._flows.get(fi.qualname)
        if f is None:
            f = Flow(fi)
            self._flows[fi.qualname] = f
        return f

    def func(self, q) -> FuncInfo:
        return self.prog.func(q)

    # ------------------------------------------------------------------ census
    def census(self) -> List[str]:
        out = []
        for m in self.prog.modules.values():
            for n in ast.walk(m.tree):
                if isinstance(n, ast.Call):
                    d = dotted(n.func)
                    if d in ("setattr", "getattr", "delattr") and not (
                        len(n.args) >= 2 and isinstance(n.args[1], ast.Constant)
                    ):
                        out.append(f"{m.relpath}:{n.lineno} {d} with non-constant name")
                    if d in ("exec", "eval", "globals", "locals", "vars", "__import__"):
                        out.append(f"{m.relpath}:{n.lineno} {d}()")
                if isinstance(n, ast.Attribute) and n.attr in ("__dict__", "__class__") and isinstance(n.ctx, ast.Store):
                    out.append(f"{m.relpath}:{n.lineno} store to {n.attr}")
                if isinstance(n, ast.Attribute) and n.attr == "__dict__":
                    out.append(f"{m.relpath}:{n.lineno} __dict__ access")
                if isinstance(n, ast.ImportFrom) and any(a.name == "*" for a in n.names):
                    out.append(f"{m.relpath}:{n.lineno} import *")
                # monkey patching: assignment ClassName.attr = ... outside the class
                if isinstance(n, ast.Assign):
                    for t in n.targets:
                        if isinstance(t, ast.Attribute) and isinstance(t.value, ast.Name) and t.value.id in self.prog.classes:
                            # re-binding a *method* (or binding a function) changes call resolution; class-level data is state,
                            # which the effect analysis tracks as a root of its own (A-EFFECT `@class.<Name>`)
                            is_method = any(t.attr in c.methods for c in self.prog.classes.values())
                            is_func = isinstance(n.value, ast.Lambda) or (isinstance(n.value, ast.Name) and self.prog.resolve_name(m, n.value.id).__class__.__name__ == "FuncInfo")
                            if is_method or is_func:
                                out.append(f"{m.relpath}:{n.lineno} assignment to class attribute {t.value.id}.{t.attr}")
        return out

    # ------------------------------------------------------------------ scope helpers
    def lookup_nested(self, fi: FuncInfo, name: str) -> Optional[FuncInfo]:
        f = fi
        while f is not None:
            if name in f.nested:
                return f.nested[name]
            f = f.parent
        return None

    def self_class(self, fi: FuncInfo) -> Optional[ClassInfo]:
        """Class whose instance `self` denotes inside fi (methods and their closures)."""
        f = fi
        while f is not None:
            if f.cls is not None:
                if f.is_static:
                    return None
                return f.cls
            # a nested function that rebinds self as a parameter: still the same role in this repo
            f = f.parent
        return None

    def external_name(self, fi: FuncInfo, d: str) -> str:
        head, _, rest = d.partition(".")
        imp = fi.module.imports.get(head)
        if imp is None:
            return d
        src, orig = imp
        base = f"{src}.{orig}" if orig else src
        return base + ("." + rest if rest else "")

    # ------------------------------------------------------------------ call resolution
    def resolve_call(self, fi: FuncInfo, call: ast.Call) -> List:
        """Targets: FuncInfo | ClassInfo | ('external', dotted) | ('builtin', name) | ('unknown', text)."""
        key = (id(call), fi.qualname)
        r = self._resolve_cache.get(key)
        if r is None:
            r = self._resolve_call(fi, call)
            if hasattr(call, "lineno"):
                self._resolve_cache[key] = r
        return r

    def _resolve_call(self, fi: FuncInfo, call: ast.Call) -> List:
        f = call.func
        if isinstance(f, ast.Name):
            n = self.lookup_nested(fi, f.id)
            flow_owner = fi
            if n is not None:
                return [n]
            r = self.prog.resolve_name(fi.module, f.id)
            if isinstance(r, (FuncInfo, ClassInfo)):
                return [r]
            if isinstance(r, tuple) and r[0] == "external":
                return [("external", r[1])]
            # local import inside function (e.g. from .bond import BondDescriptor)
            for node in own_nodes(fi.outermost().node):
                if isinstance(node, ast.ImportFrom) and node.level >= 1:
                    for al in node.names:
                        if (al.asname or al.name) == f.id:
                            if al.name in self.prog.classes:
                                return [self.prog.classes[al.name]]
                            q = f"{node.module}.{al.name}"
                            if q in self.prog.functions:
                                return [self.prog.functions[q]]
            if f.id in BUILTINS:
                return [("builtin", f.id)]
            return [("unknown", f.id)]
        if isinstance(f, ast.Attribute):
            v = f.value
            # super().m
            if isinstance(v, ast.Call) and isinstance(v.func, ast.Name) and v.func.id == "super":
                ci = self.self_class(fi)
                if ci is not None:
                    m = self.prog.lookup_method(ci, f.attr, skip_self=True)
                    if m is not None:
                        return [m]
                    return [("external", f"super.{f.attr}")]
            if isinstance(v, ast.Name) and v.id == "self":
                ci = self.self_class(fi)
                if ci is not None:
                    m = self.prog.lookup_method(ci, f.attr)
                    out = [m] if m is not None else []
                    for sc in self.prog.subclasses(ci.name, strict=True):
                        mm = sc.method(f.attr)
                        if mm is not None and mm not in out:
                            out.append(mm)
                    if out:
                        return out
                    # attribute holding a nested class (self.flory_schulz_gen(...))
                    if f.attr in self.prog.classes and self.prog.classes[f.attr].outer is not None:
                        return [self.prog.classes[f.attr]]
            d = dotted(f)
            if d is not None:
                head = d.split(".")[0]
                if head in fi.module.imports and not self.flow(fi).is_local(head):
                    src, orig = fi.module.imports[head]
                    if not src.startswith(".") or True:
                        ext = self.external_name(fi, d)
                        # package-internal dotted access: gbigsmiles.mol_prob.RememberAdd
                        parts = ext.split(".")
                        if parts[0] in ("gbigsmiles", "") and parts[-1] in self.prog.classes:
                            return [self.prog.classes[parts[-1]]]
                        if parts[-1] in self.prog.classes and src.startswith("."):
                            return [self.prog.classes[parts[-1]]]
                        return [("external", ext)]
                # ClassName.static_method
                if head in self.prog.classes and len(d.split(".")) == 2:
                    m = self.prog.lookup_method(self.prog.classes[head], f.attr)
                    if m is not None:
                        return [m]
            # typed receiver
            ts = self.infer(v, fi)
            insts = [t for t in ts if t[0] == "inst"]
            if insts and len(insts) == len(ts):
                out = []
                for t in insts:
                    ci = self.prog.classes.get(t[1])
                    if ci is None:
                        continue
                    m = self.prog.lookup_method(ci, f.attr)
                    if m is not None and m not in out:
                        out.append(m)
                    for sc in self.prog.subclasses(ci.name, strict=True):
                        mm = sc.method(f.attr)
                        if mm is not None and mm not in out:
                            out.append(mm)
                if out:
                    return out
            if any(t[0] in ("str", "list", "int", "float", "ndarray", "dict") for t in ts) and len(ts) == 1:
                return [("builtin", f"{next(iter(ts))[0]}.{f.attr}")]
            # by method name among package classes (may-call)
            cands = []
            for c in self.prog.classes.values():
                m = c.method(f.attr)
                if m is not None and not m.is_property and _arity_ok(m, call):
                    cands.append(m)
            if cands:
                return cands + [("byname", f.attr)]
            return [("unknown", "." + f.attr)]
        return [("unknown", norm(f)[:40])]

    def repo_callees(self, fi: FuncInfo, call: ast.Call) -> List[FuncInfo]:
        out = []
        for t in self.resolve_call(fi, call):
            if isinstance(t, FuncInfo):
                out.append(t)
            elif isinstance(t, ClassInfo):
                m = self.prog.lookup_method(t, "__init__")
                if m is not None:
                    out.append(m)
        return out

    def property_reads(self, fi: FuncInfo) -> List[Tuple[ast.Attribute, FuncInfo]]:
        """Attribute loads that resolve (by typed receiver or unique name) to @property getters."""
        out = []
        props: Dict[str, List[FuncInfo]] = {}
        for c in self.prog.classes.values():
            for name, fs in c.methods.items():
                for f in fs:
                    if f.is_property:
                        props.setdefault(name, []).append(f)
        for n in own_nodes(fi.node):
            if isinstance(n, ast.Attribute) and isinstance(n.ctx, ast.Load) and n.attr in props:
                if isinstance(n.value, ast.Name) and n.value.id == "self":
                    ci = self.self_class(fi)
                    if ci is not None:
                        m = self.prog.lookup_method(ci, n.attr)
                        if m is not None and m.is_property:
                            out.append((n, m))
                            for sc in self.prog.subclasses(ci.name, strict=True):
                                mm = sc.method(n.attr)
                                if mm is not None and mm.is_property:
                                    out.append((n, mm))
                            continue
                ts = self.infer(n.value, fi)
                insts = [t for t in ts if t[0] == "inst"]
                if insts and len(insts) == len(ts):
                    for t in insts:
                        ci = self.prog.classes.get(t[1])
                        if ci is None:
                            continue
                        m = self.prog.lookup_method(ci, n.attr)
                        if m is not None and m.is_property:
                            out.append((n, m))
                        for sc in self.prog.subclasses(ci.name, strict=True):
                            mm = sc.method(n.attr)
                            if mm is not None and mm.is_property:
                                out.append((n, mm))
                else:
                    for m in props[n.attr]:
                        out.append((n, m))
        return out

    def callgraph(self) -> Dict[str, Set[str]]:
        if self._callgraph is None:
            g: Dict[str, Set[str]] = {}
            for fi in self.prog.all_functions():
                s = g.setdefault(fi.qualname, set())
                for c in calls_in(fi.node):
                    for t in self.repo_callees(fi, c):
                        s.add(t.qualname)
                for _, m in self.property_reads(fi):
                    s.add(m.qualname)
                for nf in fi.nested.values():
                    # a closure defined here is (conservatively) callable from here
                    s.add(nf.qualname)
            self._callgraph = g
        return self._callgraph

    def reachable_funcs(self, roots: List[str], stop: Set[str] = frozenset()) -> Set[str]:
        g = self.callgraph()
        seen = set()
        stack = [r for r in roots]
        while stack:
            a = stack.pop()
            if a in seen or a in stop:
                continue
            seen.add(a)
            stack.extend(g.get(a, ()))
        return seen

    # ------------------------------------------------------------------ types
    def infer(self, e, fi: FuncInfo, depth: int = 6) -> FrozenSet:
        if depth <= 0:
            return frozenset({UNKNOWN})
        key = (id(e), fi.qualname)
        if depth >= 5 and key in self._infer_cache:
            return self._infer_cache[key]
        try:
            r = self._infer(e, fi, depth)
        except RecursionError:  # pragma: no cover
            r = frozenset({UNKNOWN})
        if depth >= 5 and hasattr(e, "lineno"):
            self._infer_cache[key] = r
        return r

    def _appends_to(self, fi: FuncInfo, name: str) -> List[ast.Call]:
        d = self._appends.get(fi.qualname)
        if d is None:
            d = {}
            for n in own_nodes(fi.node):
                if (
                    isinstance(n, ast.Call)
                    and isinstance(n.func, ast.Attribute)
                    and n.func.attr == "append"
                    and isinstance(n.func.value, ast.Name)
                    and n.args
                ):
                    d.setdefault(n.func.value.id, []).append(n)
            self._appends[fi.qualname] = d
        return d.get(name, [])

    def _infer(self, e, fi, depth) -> FrozenSet:
        U = frozenset({UNKNOWN})
        if isinstance(e, ast.Constant):
            v = e.value
            if v is None:
                return frozenset({("none",)})
            return frozenset({(type(v).__name__,)})
        if isinstance(e, ast.JoinedStr):
            return frozenset({("str",)})
        if isinstance(e, (ast.List, ast.ListComp)):
            el = set()
            if isinstance(e, ast.List):
                for x in e.elts:
                    el |= self._infer(x, fi, depth - 1)
            return frozenset({("list", frozenset(el))})
        if isinstance(e, ast.Dict):
            return frozenset({("dict",)})
        if isinstance(e, ast.Tuple):
            return frozenset({("tuple",)})
        if isinstance(e, ast.Name):
            if e.id == "self":
                ci = self.self_class(fi)
                if ci is not None:
                    return frozenset({("inst", ci.name)})
            flow = self.flow(fi)
            if flow.is_local(e.id):
                try:
                    at = flow.cfg.node_of(e)
                except AnalysisError:
                    return U
                out = set()
                for d in flow.reaching(e.id, at):
                    out |= self._def_type(d, fi, depth - 1)
                if any(t[0] == "list" for t in out):
                    extra = set()
                    for n in self._appends_to(fi, e.id):
                        extra |= self.infer(n.args[0], fi, depth - 1)
                    out = {("list", frozenset(set(t[1]) | extra)) if t[0] == "list" else t for t in out}
                return frozenset(out) if out else U
            # closure variable
            p = fi.parent
            while p is not None:
                pf = self.flow(p)
                if pf.is_local(e.id):
                    out = set()
                    for d in pf.defs:
                        if d.name == e.id:
                            out |= self._def_type(d, p, depth - 1)
                    return frozenset(out) if out else U
                p = p.parent
            return U
        if isinstance(e, ast.Call):
            d = dotted(e.func)
            if d in ("copy.deepcopy", "copy.copy", "deepcopy") and e.args:
                return self._infer(e.args[0], fi, depth - 1)
            if d in ("list", "sorted", "reversed") and e.args:
                t = self._infer(e.args[0], fi, depth - 1)
                return t if all(x[0] == "list" for x in t) else frozenset({("list", frozenset())})
            if d in ("len", "int"):
                return frozenset({("int",)})
            if d == "float":
                return frozenset({("float",)})
            if d == "str":
                return frozenset({("str",)})
            if d in ("np.asarray", "np.array", "np.zeros"):
                return frozenset({("ndarray",)})
            if isinstance(e.func, ast.Attribute):
                rt = self.infer(e.func.value, fi, depth - 1)
                if rt == frozenset({("str",)}):
                    a = e.func.attr
                    if a in STR_METHODS_STR:
                        return frozenset({("str",)})
                    if a in STR_METHODS_INT:
                        return frozenset({("int",)})
                    if a in STR_METHODS_BOOL:
                        return frozenset({("bool",)})
                    if a == "split":
                        return frozenset({("list", frozenset({("str",)}))})
            targets = self.resolve_call(fi, e)
            out = set()
            for t in targets:
                if isinstance(t, ClassInfo):
                    out.add(("inst", t.name))
                elif isinstance(t, FuncInfo):
                    out |= self.return_types(t, depth - 1)
                else:
                    out.add(UNKNOWN)
            return frozenset(out) if out else U
        if isinstance(e, ast.Attribute):
            bt = self.infer(e.value, fi, depth - 1)
            out = set()
            for t in bt:
                if t[0] == "inst":
                    out |= self.attr_types(t[1], e.attr, depth - 1)
                else:
                    out.add(UNKNOWN)
            return frozenset(out) if out else U
        if isinstance(e, ast.Subscript):
            bt = self.infer(e.value, fi, depth - 1)
            out = set()
            for t in bt:
                if t[0] == "list":
                    if isinstance(e.slice, ast.Slice):
                        out.add(t)
                    elif t[1]:
                        out |= set(t[1])
                    else:
                        out.add(UNKNOWN)
                elif t[0] == "str":
                    out.add(("str",))
                else:
                    out.add(UNKNOWN)
            return frozenset(out) if out else U
        if isinstance(e, ast.BinOp):
            lt = self._infer(e.left, fi, depth - 1)
            rt = self._infer(e.right, fi, depth - 1)
            if all(t[0] == "list" for t in lt | rt):
                el = set()
                for t in lt | rt:
                    el |= set(t[1])
                return frozenset({("list", frozenset(el))})
            if lt == rt and len(lt) == 1:
                return lt
            return U
        if isinstance(e, (ast.Compare, ast.BoolOp)) and not isinstance(e, ast.BoolOp):
            return frozenset({("bool",)})
        if isinstance(e, ast.IfExp):
            return self._infer(e.body, fi, depth - 1) | self._infer(e.orelse, fi, depth - 1)
        return U

    def _def_type(self, d, fi, depth) -> Set:
        if d.kind == "assign":
            return set(self.infer(d.value, fi, depth))
        if d.kind == "aug":
            base = set()
            flow = self.flow(fi)
            for pd in flow.reaching(d.name, d.nid):
                if pd is not d:
                    base |= self._def_type(pd, fi, depth - 1) if depth > 0 else {UNKNOWN}
            return base or {UNKNOWN}
        if d.kind == "for":
            it = self.infer(d.value, fi, depth)
            out = set()
            if d.extra:
                return {UNKNOWN}
            for t in it:
                if t[0] == "list" and t[1]:
                    out |= set(t[1])
                elif t[0] == "str":
                    out.add(("str",))
                else:
                    out.add(UNKNOWN)
            return out or {UNKNOWN}
        if d.kind == "param":
            if d.name == "self":
                ci = self.self_class(fi)
                if ci is not None:
                    return {("inst", ci.name)}
            for a in fi.node.args.args + fi.node.args.kwonlyargs:
                if a.arg == d.name and a.annotation is not None:
                    an = dotted(a.annotation)
                    if an in self.prog.classes:
                        return {("inst", an)}
                    if an in ("int", "str", "float", "bool"):
                        return {(an,)}
            return {UNKNOWN}
        return {UNKNOWN}

    def return_types(self, fi: FuncInfo, depth: int = 5) -> FrozenSet:
        if fi.qualname in self._ret_types:
            return self._ret_types[fi.qualname]
        if fi.qualname in self._ret_busy or depth <= 0:
            return frozenset({UNKNOWN})
        self._ret_busy.add(fi.qualname)
        out = set()
        for n in own_nodes(fi.node):
            if isinstance(n, ast.Return):
                if n.value is None:
                    out.add(("none",))
                else:
                    out |= self._infer(n.value, fi, depth)
        self._ret_busy.discard(fi.qualname)
        r = frozenset(out) if out else frozenset({("none",)})
        self._ret_types[fi.qualname] = r
        return r

    def attr_types(self, cls_name: str, attr: str, depth: int = 5) -> FrozenSet:
        key = (cls_name, attr)
        if key in self._attr_types:
            return self._attr_types[key]
        if key in self._attr_busy or depth <= 0:
            return frozenset({UNKNOWN})
        ci = self.prog.classes.get(cls_name)
        if ci is None:
            return frozenset({UNKNOWN})
        self._attr_busy.add(key)
        out = set()
        elem = set()
        found = False
        # property?
        m = self.prog.lookup_method(ci, attr)
        if m is not None and m.is_property:
            out |= self.return_types(m, depth - 1)
            found = True
        else:
            for c in self.prog.mro(ci):
                for fs in c.methods.values():
                    for f in fs:
                        for sub in [f] + _all_nested(f):
                            for n in own_nodes(sub.node):
                                # self.attr = e
                                if isinstance(n, ast.Assign):
                                    for t in n.targets:
                                        if _is_self_attr(t, attr):
                                            out |= self._infer(n.value, sub, depth - 1)
                                            found = True
                                elif isinstance(n, ast.AugAssign) and _is_self_attr(n.target, attr):
                                    vt = self._infer(n.value, sub, depth - 1)
                                    for t in vt:
                                        if t[0] == "list":
                                            elem |= set(t[1])
                                        else:
                                            elem.add(UNKNOWN) if isinstance(n.op, ast.Add) else None
                                elif isinstance(n, ast.Call) and isinstance(n.func, ast.Attribute):
                                    if n.func.attr == "append" and _is_self_attr(n.func.value, attr) and n.args:
                                        elem |= self._infer(n.args[0], sub, depth - 1)
                # class-level attribute
                for st in c.node.body:
                    if isinstance(st, ast.Assign):
                        for t in st.targets:
                            if isinstance(t, ast.Name) and t.id == attr and c is ci and not found:
                                pass
        self._attr_busy.discard(key)
        if not found:
            r = frozenset({UNKNOWN})
        else:
            res = set()
            for t in out:
                if t[0] == "list":
                    res.add(("list", frozenset(set(t[1]) | elem)))
                else:
                    res.add(t)
            r = frozenset(res)
        self._attr_types[key] = r
        return r


def _arity_ok(m: FuncInfo, call: ast.Call) -> bool:
    a = m.node.args
    params = [x.arg for x in a.posonlyargs + a.args]
    if params and params[0] in ("self", "cls") and not m.is_static:
        params = params[1:]
    npos = len(call.args)
    if any(isinstance(x, ast.Starred) for x in call.args) or any(k.arg is None for k in call.keywords):
        return True
    if npos > len(params) and a.vararg is None:
        return False
    names = set(params) | {x.arg for x in a.kwonlyargs}
    for k in call.keywords:
        if k.arg not in names and a.kwarg is None:
            return False
    ndefaults = len(a.defaults)
    required = params[: len(params) - ndefaults] if ndefaults else params
    given = set(params[:npos]) | {k.arg for k in call.keywords}
    for r in required:
        if r not in given:
            return False
    return True


def _is_self_attr(t, attr) -> bool:
    return isinstance(t, ast.Attribute) and t.attr == attr and isinstance(t.value, ast.Name) and t.value.id == "self"


def _all_nested(f: FuncInfo) -> List[FuncInfo]:
    out = []
    for n in f.nested.values():
        out.append(n)
        out += _all_nested(n)
    return out
