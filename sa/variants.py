"""Thorough tier: validate the analysis on variants of the *current* tree.

A variant is an edit (file, old fragment, new fragment) applied to a scratch copy of the package.
`break` variants compile, keep the test-suite green by construction (they touch what no test
observes) and break a clause of a property: the property's check must exit 1 and name the expected
rule.  `preserve` variants leave behaviour unchanged (respellings, renamings, ast.unparse round
trip): every listed check must stay silent (exit 0).  A fragment that no longer occurs in the
current tree makes the variant *inapplicable* (reported, not failed) — the repository moved on.

Scratch copies live in a mkdtemp directory that is removed as soon as the variant has been judged.
"""
from __future__ import annotations

import ast
import concurrent.futures as cf
import contextlib
import io
import os
import random
import re
import shutil
import sys
import tempfile
from dataclasses import dataclass, field
from typing import Callable, List, Optional

HERE = os.path.dirname(os.path.abspath(__file__))
sys.path.insert(0, os.path.dirname(HERE))


@dataclass
class V:
    vid: str
    props: List[str]
    file: str
    old: str
    new: str
    kind: str = "break"  # break | preserve
    rules: List[str] = field(default_factory=list)  # a violated obligation must carry one of these rules
    note: str = ""
    count: int = 1  # which occurrence (1-based); 0 = all
    extra: List[tuple] = field(default_factory=list)  # further (file, old, new) edits of the same variant (e.g. an import, a module-level table)
    accept_undecided: bool = False  # a preserving variant on which "cannot speak" (exit 2) is the expected, honest answer


def _ws(s: str) -> str:
    return re.sub(r"\s+", " ", s.strip())


def apply_edit(text: str, old: str, new: str, count: int = 1) -> Optional[str]:
    """Whitespace-insensitive replacement of a fragment (line structure of `new` is kept)."""
    # build a regex from old: whitespace runs -> \s+
    parts = [re.escape(p) for p in re.split(r"\s+", old.strip())]
    rx = re.compile(r"\s*".join(parts) if False else r"\s+".join(parts))
    ms = list(rx.finditer(text))
    if not ms:
        # tolerate missing whitespace around punctuation
        rx = re.compile(r"\s*".join(re.escape(ch) for ch in re.sub(r"\s+", "", old)))
        ms = list(rx.finditer(text))
    if not ms:
        return None
    if count == 0:
        sel = ms
    elif count <= len(ms):
        sel = [ms[count - 1]]
    else:
        return None
    out = text
    for m in reversed(sel):
        # keep indentation of the first line for multi-line replacements
        line_start = out.rfind("\n", 0, m.start()) + 1
        indent = re.match(r"[ \t]*", out[line_start:m.start()]).group(0) if out[line_start:m.start()].strip() == "" else ""
        rep = new  # continuation lines of `new` carry the file's absolute indentation
        out = out[: m.start()] + rep + out[m.end():]
    return out


def make_root(src_root: str, edits, allow_empty: bool = True) -> Optional[str]:
    """Copy the package sources into a fresh scratch root and apply edits. None if inapplicable."""
    tmp = tempfile.mkdtemp(prefix="sa_variant_")
    try:
        dst = os.path.join(tmp, "src", "gbigsmiles")
        os.makedirs(dst)
        srcdir = os.path.join(src_root, "src", "gbigsmiles")
        for fn in os.listdir(srcdir):
            if fn.endswith(".py"):
                shutil.copy(os.path.join(srcdir, fn), os.path.join(dst, fn))
        pp = os.path.join(src_root, "pyproject.toml")
        if os.path.exists(pp):
            shutil.copy(pp, os.path.join(tmp, "pyproject.toml"))
        for file, fn_edit in edits:
            p = os.path.join(dst, file)
            with open(p) as fh:
                text = fh.read()
            new = fn_edit(text)
            if new is None or new == text:
                shutil.rmtree(tmp, ignore_errors=True)
                return None
            ast.parse(new)  # must still compile
            with open(p, "w") as fh:
                fh.write(new)
        return tmp
    except Exception:
        shutil.rmtree(tmp, ignore_errors=True)
        raise


def rename_locals(text: str, suffix: str = "_r") -> str:
    """Behaviour-preserving: consistently rename the local variables of every function (not parameters, not
    globals / nonlocals, not names shared with nested functions or comprehensions-free usage)."""
    tree = ast.parse(text)

    def own(fn):
        stack = list(fn.body)
        while stack:
            n = stack.pop()
            yield n
            if isinstance(n, (ast.FunctionDef, ast.AsyncFunctionDef, ast.ClassDef, ast.Lambda)):
                continue
            stack.extend(ast.iter_child_nodes(n))

    for fn in [n for n in ast.walk(tree) if isinstance(n, (ast.FunctionDef, ast.AsyncFunctionDef))]:
        params = {a.arg for a in fn.args.posonlyargs + fn.args.args + fn.args.kwonlyargs}
        if fn.args.vararg:
            params.add(fn.args.vararg.arg)
        if fn.args.kwarg:
            params.add(fn.args.kwarg.arg)
        declared = set()
        stored = set()
        nested_names = set()
        for n in own(fn):
            if isinstance(n, (ast.Global, ast.Nonlocal)):
                declared |= set(n.names)
            if isinstance(n, ast.Name) and isinstance(n.ctx, (ast.Store, ast.Del)):
                stored.add(n.id)
            if isinstance(n, (ast.FunctionDef, ast.AsyncFunctionDef, ast.ClassDef, ast.Lambda)):
                if not isinstance(n, ast.Lambda):
                    stored.discard(n.name)
                    nested_names.add(n.name)
                for m in ast.walk(n):
                    if isinstance(m, ast.Name):
                        nested_names.add(m.id)
            if isinstance(n, ast.ExceptHandler) and n.name:
                nested_names.add(n.name)
        # names of enclosing-function variables used here must not be shadowed: only rename what is stored here
        ren = {x for x in stored if x not in params and x not in declared and x not in nested_names and not x.startswith("__")}
        for n in own(fn):
            if isinstance(n, ast.Name) and n.id in ren:
                n.id = n.id + suffix
    return ast.unparse(tree) + "\n"


def flip_comparisons(text: str) -> str:
    """Behaviour-preserving: `a OP b` -> `b OP' a` for single ==, !=, <, <=, >, >= comparisons whose left operand is
    not a constant and whose right operand is a constant or a call (yoda style), leaving chained comparisons alone."""
    tree = ast.parse(text)
    flip = {ast.Eq: ast.Eq, ast.NotEq: ast.NotEq, ast.Lt: ast.Gt, ast.Gt: ast.Lt, ast.LtE: ast.GtE, ast.GtE: ast.LtE}
    for n in ast.walk(tree):
        if isinstance(n, ast.Compare) and len(n.ops) == 1 and type(n.ops[0]) in flip:
            l, r = n.left, n.comparators[0]
            if isinstance(r, (ast.Constant, ast.Call)) and not isinstance(l, ast.Constant):
                n.left, n.comparators, n.ops = r, [l], [flip[type(n.ops[0])]()]
    return ast.unparse(tree) + "\n"


def invert_ifelse(text: str) -> str:
    """Behaviour-preserving: `if c: A else: B` -> `if not c: B else: A` for plain if/else (no elif chains)."""
    tree = ast.parse(text)
    for n in ast.walk(tree):
        if isinstance(n, ast.If) and n.orelse and not (len(n.orelse) == 1 and isinstance(n.orelse[0], ast.If)):
            if any(isinstance(x, ast.If) and x is not n and False for x in n.body):
                continue
            n.test = ast.UnaryOp(op=ast.Not(), operand=n.test)
            n.body, n.orelse = n.orelse, n.body
    return ast.unparse(ast.fix_missing_locations(tree)) + "\n"


def hoist_conditions(text: str) -> str:
    """Behaviour-preserving: `if <compound test>:` -> `_cK = <test>` + `if _cK:` for plain if statements (not elif)
    whose test is a comparison, boolean operation or call (evaluated exactly once either way)."""
    tree = ast.parse(text)
    counter = [0]

    def process(body):
        out = []
        for st in body:
            for fld in ("body", "orelse", "finalbody"):
                sub = getattr(st, fld, None)
                if isinstance(sub, list) and sub and isinstance(sub[0], ast.stmt):
                    if fld == "orelse" and isinstance(st, ast.If) and len(sub) == 1 and isinstance(sub[0], ast.If):
                        # elif chain: recurse into its bodies only
                        sub[0].body = process(sub[0].body)
                        sub[0].orelse = process(sub[0].orelse) if not (len(sub[0].orelse) == 1 and isinstance(sub[0].orelse[0], ast.If)) else sub[0].orelse
                        continue
                    setattr(st, fld, process(sub))
            for h in getattr(st, "handlers", []) or []:
                h.body = process(h.body)
            if isinstance(st, ast.If) and isinstance(st.test, (ast.Compare, ast.BoolOp, ast.Call)) and not any(isinstance(x, (ast.NamedExpr, ast.Yield)) for x in ast.walk(st.test)):
                counter[0] += 1
                nm = f"_c{counter[0]}"
                out.append(ast.Assign(targets=[ast.Name(id=nm, ctx=ast.Store())], value=st.test, lineno=st.lineno))
                st.test = ast.Name(id=nm, ctx=ast.Load())
            out.append(st)
        return out

    for fn in [n for n in ast.walk(tree) if isinstance(n, (ast.FunctionDef, ast.AsyncFunctionDef))]:
        fn.body = process(fn.body)
    return ast.unparse(ast.fix_missing_locations(tree)) + "\n"


def extract_helpers(text: str) -> str:
    """Behaviour-preserving: every `if` test and every assigned arithmetic / comparison expression that reads only
    plain local names and attributes is moved into a new module-level helper `_xhK(names...)`, called in its place."""
    import builtins

    tree = ast.parse(text)
    module_names = set(dir(builtins))
    for st in tree.body:
        if isinstance(st, (ast.Import, ast.ImportFrom)):
            for al in st.names:
                module_names.add((al.asname or al.name).split(".")[0])
        elif isinstance(st, (ast.FunctionDef, ast.ClassDef)):
            module_names.add(st.name)
        elif isinstance(st, ast.Assign):
            for t in st.targets:
                if isinstance(t, ast.Name):
                    module_names.add(t.id)
    helpers = []
    counter = [0]

    def extractable(e, local_names):
        if not isinstance(e, (ast.Compare, ast.BoolOp, ast.BinOp)):
            return None
        inner_bound = {n.id for n in ast.walk(e) if isinstance(n, ast.Name) and isinstance(n.ctx, ast.Store)}
        if inner_bound:
            return None
        if any(isinstance(n, (ast.NamedExpr, ast.Yield, ast.YieldFrom, ast.Await, ast.Lambda, ast.Starred)) for n in ast.walk(e)):
            return None
        free = []
        for n in ast.walk(e):
            if isinstance(n, ast.Name) and isinstance(n.ctx, ast.Load):
                if n.id in local_names:
                    if n.id not in free:
                        free.append(n.id)
                elif n.id not in module_names:
                    return None
                if n.id == "super":
                    return None
        return free

    def do_function(fn):
        local_names = {a.arg for a in fn.args.posonlyargs + fn.args.args + fn.args.kwonlyargs}
        if fn.args.vararg:
            local_names.add(fn.args.vararg.arg)
        if fn.args.kwarg:
            local_names.add(fn.args.kwarg.arg)
        for n in ast.walk(fn):
            if isinstance(n, ast.Name) and isinstance(n.ctx, ast.Store):
                local_names.add(n.id)
        # names of enclosing-scope locals are unknown here: only extract in top-level functions / methods

        class T(ast.NodeTransformer):
            def visit_FunctionDef(self, node):
                return node if node is not fn else self.generic_visit(node)

            def visit_Lambda(self, node):
                return node

            def _x(self, e):
                free = extractable(e, local_names)
                if free is None:
                    return e
                counter[0] += 1
                nm = f"_xh{counter[0]}"
                helpers.append(ast.FunctionDef(name=nm, args=ast.arguments(posonlyargs=[], args=[ast.arg(arg=a) for a in free], kwonlyargs=[], kw_defaults=[], defaults=[]),
                                               body=[ast.Return(value=e)], decorator_list=[], type_params=[]))
                return ast.Call(func=ast.Name(id=nm, ctx=ast.Load()), args=[ast.Name(id=a, ctx=ast.Load()) for a in free], keywords=[])

            def visit_If(self, node):
                self.generic_visit(node)
                node.test = self._x(node.test)
                return node

            def visit_Assign(self, node):
                self.generic_visit(node)
                if len(node.targets) == 1 and isinstance(node.targets[0], (ast.Name, ast.Attribute)):
                    node.value = self._x(node.value)
                return node

        T().visit(fn)

    def walk(body, nested):
        for st in body:
            if isinstance(st, (ast.FunctionDef, ast.AsyncFunctionDef)):
                if not any(isinstance(n, (ast.FunctionDef, ast.AsyncFunctionDef)) and n is not st for n in ast.walk(st)) or True:
                    do_function(st)
            elif isinstance(st, ast.ClassDef):
                walk(st.body, nested)

    walk(tree.body, False)
    tree.body.extend(helpers)
    return ast.unparse(ast.fix_missing_locations(tree)) + "\n"


def expand_augassign(text: str) -> str:
    """Behaviour-preserving for numbers and strings: `x += e` on a plain local name becomes `x = x + e` (same for
    - * /); names that are ever used as containers in the function (subscripted, appended to, iterated) are left."""
    tree = ast.parse(text)
    for fn in [n for n in ast.walk(tree) if isinstance(n, (ast.FunctionDef, ast.AsyncFunctionDef))]:
        cont = set()
        for n in ast.walk(fn):
            if isinstance(n, ast.Subscript) and isinstance(n.value, ast.Name):
                cont.add(n.value.id)
            if isinstance(n, ast.Call) and isinstance(n.func, ast.Attribute) and isinstance(n.func.value, ast.Name):
                cont.add(n.func.value.id)
            if isinstance(n, (ast.For, ast.comprehension)) and isinstance(n.iter, ast.Name):
                cont.add(n.iter.id)
            if isinstance(n, ast.Assign) and isinstance(n.value, (ast.List, ast.Dict, ast.Set, ast.ListComp)):
                for t in n.targets:
                    if isinstance(t, ast.Name):
                        cont.add(t.id)
            if isinstance(n, ast.AugAssign) and isinstance(n.value, (ast.List, ast.ListComp)) and isinstance(n.target, ast.Name):
                cont.add(n.target.id)
            if isinstance(n, (ast.Global, ast.Nonlocal)):
                cont.update(n.names)

        class T(ast.NodeTransformer):
            def visit_AugAssign(self, node):
                if isinstance(node.target, ast.Name) and node.target.id not in cont and isinstance(node.op, (ast.Add, ast.Sub, ast.Mult, ast.Div)):
                    return ast.copy_location(ast.Assign(targets=[ast.Name(id=node.target.id, ctx=ast.Store())],
                                                        value=ast.BinOp(left=ast.Name(id=node.target.id, ctx=ast.Load()), op=node.op, right=node.value)), node)
                return node

        T().visit(fn)
    return ast.unparse(ast.fix_missing_locations(tree)) + "\n"


def len_as_condition(text: str) -> str:
    """Behaviour-preserving for text, lists, tuples and dictionaries: in a boolean context `len(E) > 0` (`!= 0`,
    `>= 1`) is written `E` and `len(E) == 0` (`< 1`, `<= 0`) is written `not E` (NumPy arrays are left alone)."""
    tree = ast.parse(text)
    ARRAYS = {"weights", "prob", "probabilities", "node_weights", "end_weights", "compatible_idx"}

    def conv(e):
        if not (isinstance(e, ast.Compare) and len(e.ops) == 1):
            return e
        l, op, r = e.left, e.ops[0], e.comparators[0]
        t = type(op)
        if isinstance(r, ast.Call) and isinstance(l, ast.Constant):
            l, r = r, l
            t = {ast.Lt: ast.Gt, ast.Gt: ast.Lt, ast.LtE: ast.GtE, ast.GtE: ast.LtE}.get(t, t)
        if not (isinstance(l, ast.Call) and isinstance(l.func, ast.Name) and l.func.id == "len" and len(l.args) == 1 and isinstance(r, ast.Constant) and isinstance(r.value, int)):
            return e
        x = l.args[0]
        if any(isinstance(n, ast.Name) and n.id in ARRAYS for n in ast.walk(x)):
            return e
        c = r.value
        fn = {ast.Lt: lambda n: n < c, ast.LtE: lambda n: n <= c, ast.Gt: lambda n: n > c, ast.GtE: lambda n: n >= c, ast.Eq: lambda n: n == c, ast.NotEq: lambda n: n != c}.get(t)
        if fn is None:
            return e
        zero, rest = fn(0), {fn(n) for n in (1, 2, 3, 5, 1000)}
        if len(rest) != 1 or zero in rest:
            return e
        return x if not zero else ast.UnaryOp(op=ast.Not(), operand=x)

    def ctx(e):
        if isinstance(e, ast.BoolOp):
            e.values = [ctx(v) for v in e.values]
            return e
        if isinstance(e, ast.UnaryOp) and isinstance(e.op, ast.Not):
            e.operand = ctx(e.operand)
            return e
        return conv(e)

    for n in ast.walk(tree):
        if isinstance(n, (ast.If, ast.While, ast.IfExp)):
            n.test = ctx(n.test)
    return ast.unparse(ast.fix_missing_locations(tree)) + "\n"


def fstring_to_concat(text: str) -> str:
    """Behaviour-preserving: f"a{x}b" without format specifications is written "a" + str(x) + "b"."""
    tree = ast.parse(text)

    class T(ast.NodeTransformer):
        def visit_JoinedStr(self, node):
            self.generic_visit(node)
            parts = []
            for v in node.values:
                if isinstance(v, ast.Constant):
                    parts.append(v)
                elif isinstance(v, ast.FormattedValue) and v.conversion == -1 and v.format_spec is None:
                    parts.append(ast.Call(func=ast.Name(id="str", ctx=ast.Load()), args=[v.value], keywords=[]))
                else:
                    return node
            if not parts:
                return ast.Constant("")
            e = parts[0]
            for q in parts[1:]:
                e = ast.BinOp(left=e, op=ast.Add(), right=q)
            return ast.copy_location(e, node)

    T().visit(tree)
    return ast.unparse(ast.fix_missing_locations(tree)) + "\n"


def loops_to_all(text: str) -> str:
    """Behaviour-preserving: `for x in it: if not P: return False` directly followed by `return True` is written
    `return all(P for x in it)` (and the dual with any)."""
    tree = ast.parse(text)
    for holder in ast.walk(tree):
        for fld in ("body", "orelse", "finalbody"):
            block = getattr(holder, fld, None)
            if not (isinstance(block, list) and block and isinstance(block[0], ast.stmt)):
                continue
            i = 0
            while i + 1 < len(block):
                a, b = block[i], block[i + 1]
                if isinstance(a, ast.For) and not a.orelse and len(a.body) == 1 and isinstance(a.body[0], ast.If) and not a.body[0].orelse and len(a.body[0].body) == 1 \
                        and isinstance(a.body[0].body[0], ast.Return) and isinstance(a.body[0].body[0].value, ast.Constant) and isinstance(a.body[0].body[0].value.value, bool) \
                        and isinstance(b, ast.Return) and isinstance(b.value, ast.Constant) and isinstance(b.value.value, bool) and b.value.value != a.body[0].body[0].value.value:
                    inner = a.body[0].body[0].value.value
                    t = a.body[0].test
                    if inner is False:
                        elt = t.operand if isinstance(t, ast.UnaryOp) and isinstance(t.op, ast.Not) else ast.UnaryOp(op=ast.Not(), operand=t)
                        fn = "all"
                    else:
                        elt, fn = t, "any"
                    tgt = a.target
                    for x in ast.walk(tgt):
                        if isinstance(x, ast.Name):
                            x.ctx = ast.Store()
                    gen = ast.GeneratorExp(elt=elt, generators=[ast.comprehension(target=tgt, iter=a.iter, ifs=[], is_async=0)])
                    block[i:i + 2] = [ast.copy_location(ast.Return(value=ast.Call(func=ast.Name(id=fn, ctx=ast.Load()), args=[gen], keywords=[])), a)]
                i += 1
    return ast.unparse(ast.fix_missing_locations(tree)) + "\n"


def comprehension_to_loop(text: str) -> str:
    """Behaviour-preserving: `x = [e for t in it if c]` (one generator, plain local x) is written `x = []` + a loop that
    appends."""
    tree = ast.parse(text)
    for holder in ast.walk(tree):
        for fld in ("body", "orelse", "finalbody"):
            block = getattr(holder, fld, None)
            if not (isinstance(block, list) and block and isinstance(block[0], ast.stmt)):
                continue
            i = 0
            while i < len(block):
                st = block[i]
                if isinstance(st, ast.Assign) and len(st.targets) == 1 and isinstance(st.targets[0], ast.Name) and isinstance(st.value, ast.ListComp) and len(st.value.generators) == 1 \
                        and not any(isinstance(n, ast.Name) and n.id == st.targets[0].id for n in ast.walk(st.value)) and not isinstance(holder, ast.Module) and not isinstance(holder, ast.ClassDef):
                    c = st.value
                    gen = c.generators[0]
                    x = st.targets[0].id
                    body = [ast.Expr(value=ast.Call(func=ast.Attribute(value=ast.Name(id=x, ctx=ast.Load()), attr="append", ctx=ast.Load()), args=[c.elt], keywords=[]))]
                    for cond in reversed(gen.ifs):
                        body = [ast.If(test=cond, body=body, orelse=[])]
                    loop = ast.For(target=gen.target, iter=gen.iter, body=body, orelse=[], type_comment=None)
                    st.value = ast.List(elts=[], ctx=ast.Load())
                    block.insert(i + 1, ast.copy_location(loop, st))
                    i += 1
                i += 1
    return ast.unparse(ast.fix_missing_locations(tree)) + "\n"


_SIG_CACHE = {}


def _package_signatures(root=None):
    """simple name -> parameter names (without self) for functions / methods / classes defined exactly once in the package"""
    root = root or os.environ.get("VERIF_ROOT", "/repo")
    if root in _SIG_CACHE:
        return _SIG_CACHE[root]
    seen = {}
    d = os.path.join(root, "src", "gbigsmiles")
    for fn in sorted(os.listdir(d)):
        if not fn.endswith(".py"):
            continue
        try:
            tree = ast.parse(open(os.path.join(d, fn)).read())
        except SyntaxError:
            continue
        for node in ast.walk(tree):
            if isinstance(node, ast.ClassDef):
                init = [x for x in node.body if isinstance(x, ast.FunctionDef) and x.name == "__init__"]
                if init:
                    a = init[0].args
                    if not (a.vararg or a.kwarg or a.posonlyargs):
                        seen.setdefault(node.name, []).append([x.arg for x in a.args][1:])
                    else:
                        seen.setdefault(node.name, []).append(None)
                else:
                    seen.setdefault(node.name, []).append(None)
                for x in node.body:
                    if isinstance(x, ast.FunctionDef) and not x.name.startswith("__"):
                        a = x.args
                        is_static = any(isinstance(dd, ast.Name) and dd.id == "staticmethod" for dd in x.decorator_list)
                        is_prop = any((isinstance(dd, ast.Name) and dd.id == "property") or (isinstance(dd, ast.Attribute) and dd.attr == "setter") for dd in x.decorator_list)
                        if is_prop or a.vararg or a.kwarg or a.posonlyargs:
                            seen.setdefault(x.name, []).append(None)
                        else:
                            seen.setdefault(x.name, []).append([y.arg for y in a.args][0 if is_static else 1:])
        for x in tree.body:
            if isinstance(x, ast.FunctionDef):
                a = x.args
                seen.setdefault(x.name, []).append(None if (a.vararg or a.kwarg or a.posonlyargs) else [y.arg for y in a.args])
        # nested functions: never rewritten (their names may repeat)
        for node in ast.walk(tree):
            if isinstance(node, ast.FunctionDef):
                for sub in ast.walk(node):
                    if isinstance(sub, ast.FunctionDef) and sub is not node:
                        seen.setdefault(sub.name, []).append(None)
    out = {k: v[0] for k, v in seen.items() if len(v) == 1 and v[0] is not None}
    _SIG_CACHE[root] = out
    return out


_EXTERNAL_METHOD_NAMES = {"append", "index", "copy", "get", "pop", "add", "update", "find", "count", "strip", "split", "join", "choice", "sum", "generate"}


def args_to_keywords(text: str) -> str:
    """Behaviour-preserving: calls of package functions / methods / constructors whose simple name is defined exactly once
    in the package pass their arguments by keyword instead of by position."""
    sig = _package_signatures()
    tree = ast.parse(text)
    for c in ast.walk(tree):
        if not isinstance(c, ast.Call) or not c.args:
            continue
        f = c.func
        name = f.id if isinstance(f, ast.Name) else (f.attr if isinstance(f, ast.Attribute) else None)
        if name is None or name not in sig or name in _EXTERNAL_METHOD_NAMES:
            continue
        if isinstance(f, ast.Attribute) and isinstance(f.value, ast.Call) and isinstance(f.value.func, ast.Name) and f.value.func.id == "super":
            continue
        params = sig[name]
        if any(isinstance(a, ast.Starred) for a in c.args) or any(k.arg is None for k in c.keywords) or len(c.args) > len(params):
            continue
        given = {k.arg for k in c.keywords}
        names = params[: len(c.args)]
        if set(names) & given:
            continue
        c.keywords = [ast.keyword(arg=n, value=a) for n, a in zip(names, c.args)] + c.keywords
        c.args = []
    return ast.unparse(ast.fix_missing_locations(tree)) + "\n"


def npsum_to_method(text: str) -> str:
    """Behaviour-preserving: np.sum(x) written x.sum() when x is a plain name or attribute chain (NumPy arrays in this package)."""
    tree = ast.parse(text)

    class T(ast.NodeTransformer):
        def visit_Call(self, c):
            self.generic_visit(c)
            f = c.func
            if isinstance(f, ast.Attribute) and f.attr == "sum" and isinstance(f.value, ast.Name) and f.value.id == "np" and len(c.args) == 1 and not c.keywords and isinstance(c.args[0], (ast.Name, ast.Attribute)):
                return ast.copy_location(ast.Call(func=ast.Attribute(value=c.args[0], attr="sum", ctx=ast.Load()), args=[], keywords=[]), c)
            return c

    return ast.unparse(ast.fix_missing_locations(T().visit(tree))) + "\n"


def reword_messages(text: str) -> str:
    """Behaviour-preserving (exception types kept): every message of a raise / warn is replaced by a constant text."""
    tree = ast.parse(text)
    for n in ast.walk(tree):
        call = None
        if isinstance(n, ast.Raise) and isinstance(n.exc, ast.Call):
            call = n.exc
        elif isinstance(n, ast.Expr) and isinstance(n.value, ast.Call) and isinstance(n.value.func, ast.Name) and n.value.func.id == "warn":
            call = n.value
        if call is not None and call.args and isinstance(call.args[0], (ast.JoinedStr, ast.Constant, ast.BinOp)):
            call.args[0] = ast.copy_location(ast.Constant(value="invalid input"), call.args[0])
    return ast.unparse(ast.fix_missing_locations(tree)) + "\n"


def annotate_everything(text: str) -> str:
    """Behaviour-preserving: type hints on every attribute store in a method (`self.x: object = v`), on the first assignment
    of every plain local, on parameters and returns."""
    tree = ast.parse(text)
    for fn in [n for n in ast.walk(tree) if isinstance(n, (ast.FunctionDef,))]:
        for a in fn.args.args[1:] if fn.args.args and fn.args.args[0].arg in ("self", "cls") else fn.args.args:
            if a.annotation is None:
                a.annotation = ast.Name(id="object", ctx=ast.Load())
        for holder in ast.walk(fn):
            for fld in ("body", "orelse", "finalbody"):
                block = getattr(holder, fld, None)
                if not (isinstance(block, list) and block and isinstance(block[0], ast.stmt)):
                    continue
                for i, st in enumerate(block):
                    if isinstance(st, ast.Assign) and len(st.targets) == 1 and isinstance(st.targets[0], ast.Attribute) and isinstance(st.targets[0].value, ast.Name) \
                            and st.targets[0].value.id == "self":
                        block[i] = ast.copy_location(ast.AnnAssign(target=st.targets[0], annotation=ast.Name(id="object", ctx=ast.Load()), value=st.value, simple=0), st)
    return ast.unparse(ast.fix_missing_locations(tree)) + "\n"


def loops_to_if_quantifiers(text: str) -> str:
    """Behaviour-preserving: `for x in it: if P: return C / raise E` (nothing else in the loop, C a constant) becomes
    `if any(P for x in it): return C / raise E`; `if not P` becomes `if not all(P …)`."""
    tree = ast.parse(text)
    for holder in ast.walk(tree):
        for fld in ("body", "orelse", "finalbody"):
            block = getattr(holder, fld, None)
            if not (isinstance(block, list) and block and isinstance(block[0], ast.stmt)):
                continue
            for i, st in enumerate(block):
                if not (isinstance(st, ast.For) and not st.orelse and len(st.body) == 1 and isinstance(st.body[0], ast.If) and not st.body[0].orelse):
                    continue
                inner = st.body[0]
                if not (len(inner.body) == 1 and ((isinstance(inner.body[0], ast.Return) and isinstance(inner.body[0].value, ast.Constant)) or isinstance(inner.body[0], ast.Raise))):
                    continue
                tnames = {x.id for x in ast.walk(st.target) if isinstance(x, ast.Name)}
                if any(isinstance(x, ast.Name) and x.id in tnames for x in ast.walk(inner.body[0])):
                    continue  # the exit statement uses the loop variable (e.g. in its message)
                if any(isinstance(x, (ast.NamedExpr, ast.Yield, ast.Await)) for x in ast.walk(inner.test)):
                    continue
                t = inner.test
                if isinstance(t, ast.UnaryOp) and isinstance(t.op, ast.Not):
                    q = ast.UnaryOp(op=ast.Not(), operand=ast.Call(func=ast.Name(id="all", ctx=ast.Load()), args=[ast.GeneratorExp(elt=t.operand, generators=[ast.comprehension(target=st.target, iter=st.iter, ifs=[], is_async=0)])], keywords=[]))
                else:
                    q = ast.Call(func=ast.Name(id="any", ctx=ast.Load()), args=[ast.GeneratorExp(elt=t, generators=[ast.comprehension(target=st.target, iter=st.iter, ifs=[], is_async=0)])], keywords=[])
                block[i] = ast.copy_location(ast.If(test=q, body=inner.body, orelse=[]), st)
    return ast.unparse(ast.fix_missing_locations(tree)) + "\n"


def alias_self_attributes(text: str) -> str:
    """Behaviour-preserving: inside every method, an attribute `self.X` that the method reads at least twice and that is
    never stored (in this module: not by this method, its nested functions, nor anywhere outside constructors) is read once
    into a local `X_l` at the top of the method and the local is used instead (only plain data attributes, no calls in between
    can re-bind them because nothing outside constructors stores them)."""
    tree = ast.parse(text)
    stored_outside_ctor = set()
    props = set()
    for cls in [n for n in ast.walk(tree) if isinstance(n, ast.ClassDef)]:
        for m in cls.body:
            if isinstance(m, ast.FunctionDef):
                if any((isinstance(d, ast.Name) and d.id in ("property", "cached_property")) or isinstance(d, ast.Attribute) for d in m.decorator_list):
                    props.add(m.name)
                else:
                    props.add(m.name)  # methods are not data either
                if m.name == "__init__":
                    continue
                for x in ast.walk(m):
                    if isinstance(x, ast.Attribute) and isinstance(x.ctx, (ast.Store, ast.Del)):
                        stored_outside_ctor.add(x.attr)
                    if isinstance(x, ast.AugAssign) and isinstance(x.target, ast.Attribute):
                        stored_outside_ctor.add(x.target.attr)
    for x in ast.walk(tree):
        if isinstance(x, ast.FunctionDef) and x.name != "__init__":
            for y in ast.walk(x):
                if isinstance(y, ast.Attribute) and isinstance(y.ctx, (ast.Store, ast.Del)):
                    stored_outside_ctor.add(y.attr)
    # attributes of this package that are (re-)bound after construction anywhere (kept conservative, by name)
    REBOUND = {"bond_descriptors", "graph", "_mol", "weight", "transitions", "atom_bonding_to", "node_idx", "mixture", "_elements", "_raw_text",
               "left_terminal", "right_terminal", "_relative_mass", "_absolute_mass", "_system_mass", "rng", "node_counter", "node_offset_list",
               "_mw_draw_map", "_stochastic_vector", "fully_generated", "_log_prob", "_active_element", "_open_atoms", "_handled_atoms", "_element_weights"}
    for cls in [n for n in ast.walk(tree) if isinstance(n, ast.ClassDef)]:
        for m in cls.body:
            if not isinstance(m, ast.FunctionDef) or m.name == "__init__" or not m.args.args or m.args.args[0].arg != "self":
                continue
            if any(isinstance(d, ast.Attribute) and d.attr == "setter" for d in m.decorator_list):
                continue
            loads = {}
            for x in ast.walk(m):
                if isinstance(x, ast.Attribute) and isinstance(x.value, ast.Name) and x.value.id == "self" and isinstance(x.ctx, ast.Load):
                    loads[x.attr] = loads.get(x.attr, 0) + 1
            names_used = {x.id for x in ast.walk(m) if isinstance(x, ast.Name)} | {a.arg for a in ast.walk(m) if isinstance(a, ast.arg)}
            cand = [a for a, k in loads.items() if k >= 2 and a not in stored_outside_ctor and a not in props and a not in REBOUND and (a + "_l") not in names_used]
            # not a method call receiver name: self.a(...) is a call of a method
            called = {x.func.attr for x in ast.walk(m) if isinstance(x, ast.Call) and isinstance(x.func, ast.Attribute) and isinstance(x.func.value, ast.Name) and x.func.value.id == "self"}
            cand = [a for a in cand if a not in called]
            if not cand:
                continue

            class R(ast.NodeTransformer):
                def visit_Attribute(self, n):
                    self.generic_visit(n)
                    if isinstance(n.value, ast.Name) and n.value.id == "self" and isinstance(n.ctx, ast.Load) and n.attr in cand:
                        return ast.copy_location(ast.Name(id=n.attr + "_l", ctx=ast.Load()), n)
                    return n

            body = m.body
            start = 1 if (body and isinstance(body[0], ast.Expr) and isinstance(body[0].value, ast.Constant) and isinstance(body[0].value.value, str)) else 0
            new_body = [R().visit(st) for st in body[start:]]
            pre = [ast.Assign(targets=[ast.Name(id=a + "_l", ctx=ast.Store())], value=ast.Attribute(value=ast.Name(id="self", ctx=ast.Load()), attr=a, ctx=ast.Load())) for a in sorted(cand)]
            m.body = body[:start] + pre + new_body
    return ast.unparse(ast.fix_missing_locations(tree)) + "\n"


def _judge(args):
    vid, kind, prop, rules, src_root, edits_spec = args[:6]
    accept_undecided = args[6] if len(args) > 6 else False
    from sa.check import run_property

    edits = []
    patch_file = None
    for file, old, new, count, special in edits_spec:
        if special == "unparse":
            edits.append((file, lambda t: ast.unparse(ast.parse(t)) + "\n"))
        elif special == "rename":
            edits.append((file, rename_locals))
        elif special == "flip":
            edits.append((file, flip_comparisons))
        elif special == "invert":
            edits.append((file, invert_ifelse))
        elif special == "hoist":
            edits.append((file, hoist_conditions))
        elif special == "extract":
            edits.append((file, extract_helpers))
        elif special == "augexp":
            edits.append((file, expand_augassign))
        elif special == "lencond":
            edits.append((file, len_as_condition))
        elif special == "fconcat":
            edits.append((file, fstring_to_concat))
        elif special == "toall":
            edits.append((file, loops_to_all))
        elif special == "comploop":
            edits.append((file, comprehension_to_loop))
        elif special == "argkw":
            edits.append((file, args_to_keywords))
        elif special == "npsum":
            edits.append((file, npsum_to_method))
        elif special == "reword":
            edits.append((file, reword_messages))
        elif special == "aliasattr":
            edits.append((file, alias_self_attributes))
        elif special == "annotate":
            edits.append((file, annotate_everything))
        elif special == "ifquant":
            edits.append((file, loops_to_if_quantifiers))
        elif special == "patch":
            patch_file = os.path.join(HERE, "variant_patches", new)
        else:
            edits.append((file, (lambda o, n, c: (lambda t: apply_edit(t, o, n, c)))(old, new, count)))
    try:
        root = make_root(src_root, edits)
        if root is not None and patch_file is not None:
            import subprocess

            r = subprocess.run(["patch", "-p1", "-s", "-d", root, "-i", patch_file], capture_output=True, text=True)
            if r.returncode != 0:
                shutil.rmtree(root, ignore_errors=True)
                root = None
    except SyntaxError as exc:
        return vid, prop, "broken-variant", f"variant does not compile: {exc}"
    if root is None:
        return vid, prop, "inapplicable", "fragment not present in the current tree"
    try:
        buf = io.StringIO()
        with contextlib.redirect_stdout(buf), contextlib.redirect_stderr(buf):
            rc = run_property(prop, root, "quick", 0, write=False)
        out = buf.getvalue()
    finally:
        shutil.rmtree(root, ignore_errors=True)
    if kind == "break":
        if rc == 1:
            viol = [l for l in out.splitlines() if l.startswith("VIOLATED:")]
            if rules and not any(any(f"— {r} —" in l for r in rules) for l in viol):
                return vid, prop, "wrong-rule", f"reported, but not by {rules}: {viol[:2]}"
            return vid, prop, "caught", (viol[0][:200] if viol else "")
        if rc == 2:
            err = [l for l in out.splitlines() if l.startswith("ANALYSIS-ERROR")]
            return vid, prop, "analysis-error", (err[0][:200] if err else "exit 2")
        return vid, prop, "missed", "check exited 0 on a breaking variant"
    else:
        if rc == 0:
            return vid, prop, "silent", ""
        if rc == 2 and accept_undecided:
            return vid, prop, "undecided", "exit 2 (accepted for this variant)"
        lines = [l for l in out.splitlines() if l.startswith(("VIOLATED:", "ANALYSIS-ERROR"))]
        return vid, prop, "false-alarm", (lines[0][:300] if lines else f"exit {rc}")


def _judge_seed(args):
    """An independent seeded change (seeded/<name>/patch.diff) applied to a scratch copy must be reported."""
    name, prop, src_root, patch_path = args
    import subprocess

    from sa.check import run_property

    root = make_root(src_root, [])
    if root is None:
        return name, prop, "inapplicable", "no scratch copy"
    try:
        r = subprocess.run(["patch", "-p1", "-s", "-d", root, "-i", patch_path], capture_output=True, text=True)
        if r.returncode != 0:
            return name, prop, "inapplicable", "patch does not apply to the current tree"
        buf = io.StringIO()
        with contextlib.redirect_stdout(buf), contextlib.redirect_stderr(buf):
            rc = run_property(prop, root, "quick", 0, write=False)
        out = buf.getvalue()
    finally:
        shutil.rmtree(root, ignore_errors=True)
    if rc == 1:
        viol = [l for l in out.splitlines() if l.startswith("VIOLATED:")]
        return name, prop, "caught", (viol[0][:200] if viol else "")
    if rc == 2:
        return name, prop, "analysis-error", "exit 2"
    return name, prop, "missed", "check exited 0 on a seeded change it used to report"


def _judge_preserving(args):
    """A behaviour-preserving change of the corpus (preserving/<name>/patch.diff) must not be reported as a violation."""
    name, prop, src_root, patch_path = args
    import subprocess

    from sa.check import run_property

    root = make_root(src_root, [])
    if root is None:
        return name, prop, "inapplicable", "no scratch copy"
    try:
        r = subprocess.run(["patch", "-p1", "-s", "-d", root, "-i", patch_path], capture_output=True, text=True)
        if r.returncode != 0:
            return name, prop, "inapplicable", "patch does not apply to the current tree"
        buf = io.StringIO()
        with contextlib.redirect_stdout(buf), contextlib.redirect_stderr(buf):
            rc = run_property(prop, root, "quick", 0, write=False)
        out = buf.getvalue()
    finally:
        shutil.rmtree(root, ignore_errors=True)
    if rc == 1:
        viol = [l for l in out.splitlines() if l.startswith("VIOLATED:")]
        return name, prop, "false-alarm", (viol[0][:200] if viol else "")
    return name, prop, ("silent" if rc == 0 else "undecided"), ""


def preserving_for(prop: str):
    import json

    base = os.path.join(os.path.dirname(HERE), "preserving")
    out = []
    if not os.path.isdir(base):
        return out
    for name in sorted(os.listdir(base)):
        mp = os.path.join(base, name, "meta.json")
        pp = os.path.join(base, name, "patch.diff")
        if os.path.exists(mp) and os.path.exists(pp):
            try:
                meta = json.load(open(mp))
            except Exception:
                continue
            if prop not in meta.get("checks_reporting_a_violation", []):
                out.append((name, pp))
    return out


def seeded_for(prop: str):
    import json

    base = os.path.join(os.path.dirname(HERE), "seeded")
    out = []
    if not os.path.isdir(base):
        return out
    for name in sorted(os.listdir(base)):
        mp = os.path.join(base, name, "meta.json")
        pp = os.path.join(base, name, "patch.diff")
        if os.path.exists(mp) and os.path.exists(pp):
            try:
                meta = json.load(open(mp))
            except Exception:
                continue
            if prop in meta.get("checks_fired", []):
                out.append((name, pp))
    return out


def all_variants() -> List[V]:
    from sa import variant_defs

    return variant_defs.VARIANTS


def run(prop: str, seed: int, root: str, coverage_out: dict, jobs: int = 16, only: Optional[str] = None) -> int:
    # the canonical forms of A-NORM are validated first: a form that identifies different programs, or no longer fires,
    # invalidates every verdict below
    from sa.norm_examples import CASES as _norm_cases, run as _norm_run

    _nb = _norm_run()
    if _nb:
        for x in _nb:
            print(f"ANALYSIS-ERROR self-test property={prop} canonical-form example failed: {x}")
        return 2
    vs = [v for v in all_variants() if prop in v.props and (only is None or v.vid == only)]
    rnd = random.Random(seed)
    rnd.shuffle(vs)
    tasks = []
    for v in vs:
        special = {"<unparse>": "unparse", "<rename-locals>": "rename", "<flip-comparisons>": "flip", "<invert-ifelse>": "invert", "<hoist-conditions>": "hoist", "<extract-helpers>": "extract", "<expand-augassign>": "augexp", "<len-as-condition>": "lencond", "<fstring-to-concat>": "fconcat", "<loops-to-all>": "toall", "<comprehension-to-loop>": "comploop", "<patch>": "patch", "<args-to-keywords>": "argkw", "<npsum-to-method>": "npsum", "<reword-messages>": "reword", "<alias-self-attributes>": "aliasattr", "<annotate>": "annotate", "<loops-to-if-quantifiers>": "ifquant"}.get(v.old)
        files = v.file.split(",") if special else [v.file]
        tasks.append((v.vid, v.kind, prop, v.rules, root, [(f, v.old, v.new, v.count, special) for f in files] + [(f2, o2, n2, 1, None) for f2, o2, n2 in v.extra], v.accept_undecided))
    results = []
    seed_tasks = [(f"seed:{name}", prop, root, pp) for name, pp in seeded_for(prop)] if only is None else []
    pres_tasks = [(f"preserving:{name}", prop, root, pp) for name, pp in preserving_for(prop)] if only is None else []
    if tasks or seed_tasks or pres_tasks:
        with cf.ProcessPoolExecutor(max_workers=min(jobs, len(tasks) + len(seed_tasks) + len(pres_tasks))) as ex:
            results = list(ex.map(_judge, tasks))
            results += list(ex.map(_judge_seed, seed_tasks))
            results += list(ex.map(_judge_preserving, pres_tasks))
    bad = []
    tally = {}
    for vid, p, verdict, detail in results:
        tally[verdict] = tally.get(verdict, 0) + 1
        print(f"self-test {p} {vid}: {verdict} {detail}")
        if verdict in ("missed", "false-alarm", "wrong-rule", "analysis-error", "broken-variant"):
            bad.append((vid, verdict, detail))
    coverage_out.clear()
    coverage_out.update(
        {
            "selftest_variants": len(results),
            "canonical_form_examples": len(_norm_cases),
            "selftest_tally": tally,
            "selftest_samples": [
                {"variant": vid, "verdict": verdict, "detail": detail[:160]} for vid, _, verdict, detail in results[:25]
            ],
        }
    )
    if bad:
        for vid, verdict, detail in bad:
            print(f"ANALYSIS-ERROR self-test property={prop} variant={vid} {verdict}: {detail}")
        return 2
    return 0


def main(argv=None) -> int:
    argv = sys.argv[1:] if argv is None else argv
    props = [a for a in argv if re.fullmatch(r"C\d\d", a)]
    only = None
    for a in argv:
        if a.startswith("--only="):
            only = a.split("=", 1)[1]
    if not props:
        props = [f"C{i:02d}" for i in range(1, 21)]
    rc = 0
    for p in props:
        cov = {}
        r = run(p, 0, os.environ.get("VERIF_ROOT", "/repo"), cov, only=only)
        print(f"self-test {p}: {cov.get('selftest_tally')}")
        rc = max(rc, r)
    return rc


if __name__ == "__main__":
    sys.exit(main())
