"""A-TEMPLATE: string templates of the `generate_string(self, extension)` printers by partial evaluation.

The printer body is executed symbolically with `extension` bound to True / False.  The result is
a set of *paths* (one per combination of the remaining, data-dependent conditions); each path is
a flat sequence of pieces:
    ('C', text)                      constant text
    ('H', expr)                      a hole: the printed value of an expression
    ('K', receiver, flag)            a child printed with generate_string(flag)
    ('L', iterable, (alt, ...))      a loop; each alt is a piece sequence appended per iteration
    ('T', k)                         trailing-separator trim  s = s[:-k]
plus the list of (condition text, polarity) under which the path is taken.
Unsupported constructs raise AnalysisError (exit 2), never a verdict.
"""
from __future__ import annotations

import ast
from typing import Dict, List, Optional, Tuple

from .loader import AnalysisError, FuncInfo, src

Piece = tuple
MAX_PATHS = 64


def _const_bool(e, ext_name, ext_val, benv=None):
    """Evaluate a condition to True/False when it is decided by the binding of `extension`, else None."""
    if isinstance(e, ast.Name) and e.id == ext_name:
        return ext_val
    if isinstance(e, ast.Name) and benv and e.id in benv:
        return _const_bool(benv[e.id], ext_name, ext_val, benv)
    if isinstance(e, ast.Constant) and isinstance(e.value, bool):
        return e.value
    if isinstance(e, ast.UnaryOp) and isinstance(e.op, ast.Not):
        v = _const_bool(e.operand, ext_name, ext_val, benv)
        return None if v is None else (not v)
    if isinstance(e, ast.BoolOp):
        vals = [_const_bool(v, ext_name, ext_val, benv) for v in e.values]
        if isinstance(e.op, ast.And):
            if any(v is False for v in vals):
                return False
            if all(v is True for v in vals):
                return True
            return None
        if any(v is True for v in vals):
            return True
        if all(v is False for v in vals):
            return False
        return None
    return None


def _residual_cond(e, ext_name, ext_val, benv=None) -> str:
    """Condition text with the decided conjuncts removed."""
    if isinstance(e, ast.Name) and benv and e.id in benv:
        return _residual_cond(benv[e.id], ext_name, ext_val, benv)
    if isinstance(e, ast.UnaryOp) and isinstance(e.op, ast.Not) and isinstance(e.operand, ast.Name) and benv and e.operand.id in benv:
        return "not (" + _residual_cond(benv[e.operand.id], ext_name, ext_val, benv) + ")"
    if isinstance(e, ast.BoolOp):
        rest = [v for v in e.values if _const_bool(v, ext_name, ext_val, benv) is None]
        if len(rest) == 1:
            return src(rest[0])
        if rest:
            return (" and " if isinstance(e.op, ast.And) else " or ").join(src(v) for v in rest)
    return src(e)


# set by the engine: (function, expression) -> False when the expression is definitely not a notation object
CHILD_ORACLE = None


class Printer:
    def __init__(self, fi: FuncInfo):
        self.fi = fi
        if len(fi.params) < 2:
            raise AnalysisError(f"{fi.qualname}: printer without an extension parameter")
        self.ext = fi.params[1]

    # -- expression -> pieces
    def pieces(self, e, env: Dict[str, list], ext_val) -> List[Piece]:
        if isinstance(e, ast.Constant) and isinstance(e.value, str):
            return [("C", e.value)] if e.value else []
        if isinstance(e, ast.JoinedStr):
            out = []
            for v in e.values:
                if isinstance(v, ast.Constant):
                    if v.value:
                        out.append(("C", str(v.value)))
                elif isinstance(v, ast.FormattedValue):
                    inner = v.value
                    if isinstance(inner, ast.Tuple):
                        # f"{a, b}" prints "(a, b)"
                        out.append(("C", "("))
                        for i, el in enumerate(inner.elts):
                            if i:
                                out.append(("C", ", "))
                            out.append(("H", src(el)))
                        out.append(("C", ")"))
                    else:
                        out += self._value_pieces(inner, env, ext_val)
            return out
        if isinstance(e, ast.BinOp) and isinstance(e.op, ast.Add):
            return self.pieces(e.left, env, ext_val) + self.pieces(e.right, env, ext_val)
        if isinstance(e, ast.Name) and e.id in env:
            return list(env[e.id])
        if isinstance(e, ast.Call):
            f = e.func
            if isinstance(f, ast.Attribute) and f.attr in ("strip", "rstrip", "lstrip") and not e.args:
                return self.pieces(f.value, env, ext_val)
            if isinstance(f, ast.Attribute) and f.attr == "generate_string":
                flag = self._flag(e, ext_val)
                return [("K", src(f.value), flag)]
            if isinstance(f, ast.Name) and f.id == "str" and len(e.args) == 1:
                if CHILD_ORACLE is not None and CHILD_ORACLE(self.fi, e.args[0]) is False:
                    return [("H", src(e.args[0]))]  # str(<number / text>) is a plain hole, like f"{x}"
                return [("K", src(e.args[0]), True)]  # str(x) == x.generate_string(True)
            if isinstance(f, ast.Attribute) and f.attr == "join" and isinstance(f.value, ast.Constant) and len(e.args) == 1:
                a = e.args[0]
                if isinstance(a, (ast.GeneratorExp, ast.ListComp)) and len(a.generators) == 1:
                    body = self.pieces(a.elt, env, ext_val) + [("C", f.value.value)]
                    out = [("L", src(a.generators[0].iter), (tuple(body),))]
                    if f.value.value:
                        out.append(("T", len(f.value.value)))
                    return out
        return self._value_pieces(e, env, ext_val)

    def _value_pieces(self, e, env, ext_val):
        if isinstance(e, ast.Name) and e.id in env:
            return list(env[e.id])
        if isinstance(e, ast.Call) and isinstance(e.func, ast.Attribute) and e.func.attr == "generate_string":
            return [("K", src(e.func.value), self._flag(e, ext_val))]
        if isinstance(e, ast.Constant):
            return [("C", str(e.value))]
        return [("H", src(e))]

    def _flag(self, call, ext_val):
        a = call.args[0] if call.args else None
        for k in call.keywords:
            if k.arg == "extension":
                a = k.value
        if a is None:
            raise AnalysisError(f"{self.fi.qualname}: generate_string call without flag")
        v = _const_bool(a, self.ext, ext_val)
        if v is None:
            return f"?{src(a)}"
        return v

    # -- statements
    def run(self, ext_val) -> List[Tuple[tuple, tuple]]:
        """[(pieces, conditions)] for every path to a return."""
        results = []
        self._block(list(self.fi.node.body), {}, [], ext_val, results, loop=False)
        if not results:
            raise AnalysisError(f"{self.fi.qualname}: printer has no return")
        if len(results) > MAX_PATHS:
            raise AnalysisError(f"{self.fi.qualname}: too many printer paths")
        return [(tuple(normalise(p)), tuple(c)) for p, c in results]

    def _block(self, stmts, env, conds, ext_val, results, loop):
        """Returns list of (env, conds) states that fall off the end of the block."""
        states = [(env, conds)]
        for st in stmts:
            new_states = []
            for env_, conds_ in states:
                new_states += self._stmt(st, env_, conds_, ext_val, results, loop)
            states = new_states
            if not states:
                break
            if len(states) > MAX_PATHS:
                raise AnalysisError(f"{self.fi.qualname}: too many printer paths")
        return states

    def _stmt(self, st, env, conds, ext_val, results, loop):
        if isinstance(st, ast.Expr) and isinstance(st.value, ast.Constant):
            return [(env, conds)]
        if isinstance(st, ast.Pass):
            return [(env, conds)]
        if isinstance(st, ast.Expr):
            return [(env, conds)]  # an expression statement does not change what is appended to the string
        if isinstance(st, ast.Return):
            if loop:
                raise AnalysisError(f"{self.fi.qualname}: return inside a printer loop")
            p = self.pieces(st.value, env, ext_val) if st.value is not None else []
            results.append((p, conds))
            return []
        if isinstance(st, ast.Assign) and len(st.targets) == 1 and isinstance(st.targets[0], ast.Name) and isinstance(st.value, (ast.Compare, ast.BoolOp)) or (
                isinstance(st, ast.Assign) and len(st.targets) == 1 and isinstance(st.targets[0], ast.Name) and isinstance(st.value, ast.Call)
                and isinstance(st.value.func, ast.Name) and st.value.func.id in ("isinstance", "len", "bool")):
            # a condition kept in a temporary
            e2 = dict(env)
            b = dict(env.get("§benv", {}))
            b[st.targets[0].id] = st.value
            e2["§benv"] = b
            return [(e2, conds)]
        if isinstance(st, ast.Assign) and len(st.targets) == 1 and isinstance(st.targets[0], ast.Name):
            name = st.targets[0].id
            v = st.value
            # trim: s = s[:-k]
            if (
                isinstance(v, ast.Subscript) and isinstance(v.value, ast.Name) and v.value.id == name and name in env
                and isinstance(v.slice, ast.Slice) and v.slice.lower is None and isinstance(v.slice.upper, ast.UnaryOp)
                and isinstance(v.slice.upper.op, ast.USub) and isinstance(v.slice.upper.operand, ast.Constant)
            ):
                e2 = dict(env)
                e2[name] = env[name] + [("T", int(v.slice.upper.operand.value))]
                return [(e2, conds)]
            e2 = dict(env)
            e2[name] = self.pieces(v, env, ext_val)
            return [(e2, conds)]
        if isinstance(st, ast.AugAssign) and isinstance(st.target, ast.Name) and isinstance(st.op, ast.Add):
            name = st.target.id
            if name not in env:
                raise AnalysisError(f"{self.fi.qualname}: += on a string not initialised in the printer")
            e2 = dict(env)
            e2[name] = env[name] + self.pieces(st.value, env, ext_val)
            return [(e2, conds)]
        if isinstance(st, ast.If):
            benv = env.get("§benv", {})
            v = _const_bool(st.test, self.ext, ext_val, benv)
            if v is True:
                return self._block(list(st.body), env, conds, ext_val, results, loop)
            if v is False:
                return self._block(list(st.orelse), env, conds, ext_val, results, loop)
            c = _residual_cond(st.test, self.ext, ext_val, benv)
            a = self._block(list(st.body), dict(env), conds + [(c, True)], ext_val, results, loop)
            b = self._block(list(st.orelse), dict(env), conds + [(c, False)], ext_val, results, loop)
            return a + b
        if isinstance(st, ast.For):
            # per-iteration effect on each string variable
            names = [n for n in env if n != "§benv"]
            alts: Dict[str, list] = {n: [] for n in names}
            start = {n: [("§", n)] for n in names}
            inner_results: list = []
            ends = self._block(list(st.body), dict(start), [], ext_val, inner_results, loop=True)
            if inner_results:
                raise AnalysisError(f"{self.fi.qualname}: return inside a printer loop")
            for e_end, _ in ends:
                for n in names:
                    p = e_end.get(n, [])
                    if not p or p[0] != ("§", n):
                        raise AnalysisError(f"{self.fi.qualname}: string {n} is re-assigned (not appended to) inside a loop")
                    alts[n].append(tuple(normalise(p[1:])))
            e2 = dict(env)
            for n in names:
                uniq = tuple(sorted(set(alts[n])))
                if any(a for a in uniq):
                    e2[n] = env[n] + [("L", src(st.iter), uniq)]
            return [(e2, conds)]
        raise AnalysisError(f"{self.fi.qualname}: statement '{src(st)[:60]}' is outside the printer fragment A-TEMPLATE evaluates")


def normalise(pieces) -> list:
    out = []
    for p in pieces:
        if p[0] == "C":
            if not p[1]:
                continue
            if out and out[-1][0] == "C":
                out[-1] = ("C", out[-1][1] + p[1])
                continue
        out.append(p)
    return out


def split_bars(pieces) -> list:
    out = []
    for p in pieces:
        if p[0] == "C" and "|" in p[1]:
            buf = ""
            for ch in p[1]:
                if ch == "|":
                    if buf:
                        out.append(("C", buf))
                        buf = ""
                    out.append(("C", "|"))
                else:
                    buf += ch
            if buf:
                out.append(("C", buf))
        else:
            out.append(p)
    return out


def erase(pieces) -> list:
    """Delete every |...| run; children True -> False; loops recursively."""
    toks = split_bars(pieces)
    out = []
    i = 0
    n = len(toks)
    while i < n:
        t = toks[i]
        if t == ("C", "|"):
            j = i + 1
            while j < n and toks[j] != ("C", "|"):
                j += 1
            if j >= n:
                raise AnalysisError("unbalanced '|' in a printer template")
            i = j + 1
            continue
        if t[0] == "K":
            out.append(("K", t[1], False if t[2] is True else t[2]))
        elif t[0] == "L":
            alts = tuple(sorted({tuple(normalise(erase(list(a)))) for a in t[2]}))
            if any(a for a in alts):
                out.append(("L", t[1], alts))
        else:
            out.append(t)
        i += 1
    return normalise(out)


def has_bar(pieces) -> bool:
    for p in pieces:
        if p[0] == "C" and "|" in p[1]:
            return True
        if p[0] == "L" and any(has_bar(a) for a in p[2]):
            return True
    return False


def show(pieces) -> str:
    out = []
    for p in pieces:
        if p[0] == "C":
            out.append(repr(p[1]))
        elif p[0] == "H":
            out.append("{" + p[1] + "}")
        elif p[0] == "K":
            out.append(f"<{p[1]}:{p[2]}>")
        elif p[0] == "L":
            out.append("loop(" + p[1] + ": " + " / ".join(show(a) for a in p[2]) + ")")
        elif p[0] == "T":
            out.append(f"trim{p[1]}")
        else:
            out.append(str(p))
    return " ".join(out)
