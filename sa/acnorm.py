"""A-ALG (second part): canonical form of arithmetic expressions modulo associativity / commutativity of + and *,
x/y = x*y**-1, merging of equal bases (exponents added) and of numeric constants.  Used to compare the
hand-written probability laws with their documented formulas without depending on the spelling.
Distributivity is *not* applied: forms that differ by expanding a product are reported as different.
"""
from __future__ import annotations

import ast
from fractions import Fraction
from typing import Dict, Optional

from .loader import AnalysisError, src

FUNCS = {"exp", "log", "sqrt", "gamma", "ndtri", "ndtr", "erf", "erfc", "power", "abs"}
CONSTS = {"pi": "pi", "inf": "inf", "e": "e"}


def _num(v):
    if isinstance(v, bool):
        raise AnalysisError("boolean in a formula")
    if isinstance(v, int):
        return Fraction(v)
    if isinstance(v, float):
        return Fraction(v).limit_denominator(10**12)
    raise AnalysisError(f"constant {v!r} in a formula")


def canon(e, names: Dict[str, str], env: Optional[Dict[str, ast.AST]] = None):
    """Canonical nested-tuple form.  names: variable -> canonical name; env: local name -> defining expression."""
    env = env or {}

    def term(x):
        if isinstance(x, ast.Constant):
            return ("num", _num(x.value))
        if isinstance(x, ast.Name):
            if x.id in env:
                return term(env[x.id])
            if x.id in names:
                return ("var", names[x.id])
            if x.id in CONSTS:
                return ("const", CONSTS[x.id])
            raise AnalysisError(f"free name {x.id} in a formula")
        if isinstance(x, ast.Attribute):
            if x.attr in CONSTS:
                return ("const", CONSTS[x.attr])
            raise AnalysisError(f"attribute {src(x)} in a formula")
        if isinstance(x, ast.UnaryOp) and isinstance(x.op, ast.USub):
            return mul([("num", Fraction(-1)), term(x.operand)])
        if isinstance(x, ast.UnaryOp) and isinstance(x.op, ast.UAdd):
            return term(x.operand)
        if isinstance(x, ast.BinOp):
            if isinstance(x.op, ast.Add):
                return add([term(x.left), term(x.right)])
            if isinstance(x.op, ast.Sub):
                return add([term(x.left), mul([("num", Fraction(-1)), term(x.right)])])
            if isinstance(x.op, ast.Mult):
                return mul([term(x.left), term(x.right)])
            if isinstance(x.op, ast.Div):
                return mul([term(x.left), power(term(x.right), ("num", Fraction(-1)))])
            if isinstance(x.op, ast.Pow):
                return power(term(x.left), term(x.right))
        if isinstance(x, ast.Call):
            f = x.func
            fname = f.attr if isinstance(f, ast.Attribute) else getattr(f, "id", None)
            if fname == "sqrt" and len(x.args) == 1:
                return power(term(x.args[0]), ("num", Fraction(1, 2)))
            if fname == "power" and len(x.args) == 2:
                return power(term(x.args[0]), term(x.args[1]))
            if fname in FUNCS:
                return ("call", fname, tuple(term(a) for a in x.args))
            raise AnalysisError(f"function {fname} in a formula")
        if isinstance(x, ast.Tuple):
            return ("tuple", tuple(term(a) for a in x.elts))
        raise AnalysisError(f"construct {type(x).__name__} in a formula")

    return term(e)


def add(ts):
    """sum with flattening; like terms (same non-numeric part) are merged."""
    flat = []
    for t in ts:
        if t[0] == "add":
            flat += list(t[1])
        else:
            flat.append(t)
    acc: Dict = {}
    const = Fraction(0)
    for t in flat:
        c, rest = _split_coef(t)
        if rest is None:
            const += c
        else:
            acc[rest] = acc.get(rest, Fraction(0)) + c
    items = []
    for rest, c in acc.items():
        if c == 0:
            continue
        items.append(rest if c == 1 else mul([("num", c), rest]))
    if const != 0:
        items.append(("num", const))
    if not items:
        return ("num", Fraction(0))
    if len(items) == 1:
        return items[0]
    return ("add", tuple(sorted(items, key=repr)))


def _split_coef(t):
    if t[0] == "num":
        return t[1], None
    if t[0] == "mul":
        c = Fraction(1)
        rest = []
        for b, e in t[1]:
            if b[0] == "num" and e == ("num", Fraction(1)):
                c *= b[1]
            else:
                rest.append((b, e))
        if not rest:
            return c, None
        if len(rest) == 1 and rest[0][1] == ("num", Fraction(1)):
            return c, rest[0][0]
        return c, ("mul", tuple(sorted(rest, key=repr)))
    return Fraction(1), t


def mul(ts):
    """product as a multiset of (base, exponent); equal bases merge by adding exponents."""
    pairs = []
    for t in ts:
        if t[0] == "mul":
            pairs += list(t[1])
        elif t[0] == "pow":
            pairs.append((t[1], t[2]))
        else:
            pairs.append((t, ("num", Fraction(1))))
    acc: Dict = {}
    const = Fraction(1)
    for b, e in pairs:
        if b[0] == "num" and e[0] == "num" and e[1].denominator == 1:
            if b[1] == 0 and e[1] < 0:
                raise AnalysisError("division by zero in a formula")
            const *= b[1] ** int(e[1])
            continue
        acc[b] = add([acc[b], e]) if b in acc else e
    items = []
    for b, e in acc.items():
        if e == ("num", Fraction(0)):
            continue
        items.append((b, e))
    if const == 0:
        return ("num", Fraction(0))
    if const != 1:
        items.append((("num", const), ("num", Fraction(1))))
    if not items:
        return ("num", Fraction(1))
    if len(items) == 1 and items[0][1] == ("num", Fraction(1)):
        return items[0][0]
    return ("mul", tuple(sorted(items, key=repr)))


def power(b, e):
    if e == ("num", Fraction(1)):
        return b
    if e == ("num", Fraction(0)):
        return ("num", Fraction(1))
    if b[0] == "num" and e[0] == "num" and e[1].denominator == 1:
        return ("num", b[1] ** int(e[1]))
    if b[0] == "pow":
        return power(b[1], mul([b[2], e]))
    if b[0] == "mul":
        return mul([power(x, mul([y, e])) for x, y in b[1]])
    return ("pow", b, e)


def show(t) -> str:
    k = t[0]
    if k == "num":
        return str(t[1])
    if k in ("var", "const"):
        return t[1]
    if k == "call":
        return f"{t[1]}({', '.join(show(a) for a in t[2])})"
    if k == "pow":
        return f"({show(t[1])})^({show(t[2])})"
    if k == "mul":
        return "*".join(f"({show(b)})^({show(e)})" if e != ("num", Fraction(1)) else f"({show(b)})" for b, e in t[1])
    if k == "add":
        return " + ".join(show(x) for x in t[1])
    if k == "tuple":
        return "(" + ", ".join(show(x) for x in t[1]) + ")"
    return repr(t)


def parse(text: str, names: Dict[str, str]):
    return canon(ast.parse(text, mode="eval").body, names)
