"""A-DEFUSE: reaching definitions on the CFG and provenance expansion of expressions.

`Flow(fi)` bundles the CFG of a function with reaching definitions for its local names.
`Flow.expand(expr, at)` rewrites an expression into a *provenance term*: local names are replaced
by the expression that defines them (recursively) when a single definition reaches; several
reaching definitions give a `§phi(...)` term; loop targets give `§elem(iterable)` / `§idx(iterable)`;
tuple unpacking gives `§unpack(value, k)`.  Terms are ordinary `ast` nodes so they can be compared
with `norm()` and pattern-matched by the rules.
"""
from __future__ import annotations

import ast
import copy
from typing import Dict, List, Optional, Set, Tuple

from .cfg import CFG, within
from .loader import AnalysisError, FuncInfo, norm, own_nodes

MARK = "§"


class Def:
    __slots__ = ("name", "nid", "kind", "value", "extra", "stmt")

    def __init__(self, name, nid, kind, value=None, extra=None, stmt=None):
        self.name = name
        self.nid = nid
        self.kind = kind  # param | assign | aug | for | unpack | with | except | import | def | global | free
        self.value = value
        self.extra = extra
        self.stmt = stmt

    def __repr__(self):
        return f"Def({self.name}@{self.nid}:{self.kind})"


def mark(name, *args):
    return ast.Call(func=ast.Name(id=MARK + name, ctx=ast.Load()), args=list(args), keywords=[])


def is_mark(node, name=None):
    return (
        isinstance(node, ast.Call)
        and isinstance(node.func, ast.Name)
        and node.func.id.startswith(MARK)
        and (name is None or node.func.id == MARK + name)
    )


def _target_names(t, path=()):
    """Yield (Name node, index path) for an assignment target."""
    if isinstance(t, ast.Name):
        yield t, path
    elif isinstance(t, (ast.Tuple, ast.List)):
        for i, e in enumerate(t.elts):
            yield from _target_names(e, path + (i,))
    elif isinstance(t, ast.Starred):
        yield from _target_names(t.value, path + ("*",))


class Flow:
    def __init__(self, fi: FuncInfo):
        self.fi = fi
        self.cfg = CFG(fi.node)
        self.defs: List[Def] = []
        self.defs_at: Dict[int, List[Def]] = {}
        self.assigned: Set[str] = set()
        self.globals_declared: Set[str] = set()
        self._collect()
        self._solve()
        self.cfg.flow = self

    # ------------------------------------------------------------------ collection
    def _add(self, d: Def):
        self.defs.append(d)
        self.defs_at.setdefault(d.nid, []).append(d)
        self.assigned.add(d.name)

    def _collect(self):
        cfg = self.cfg
        for p in self.fi.params:
            self._add(Def(p, cfg.entry, "param"))
        for n in own_nodes(self.fi.node):
            if isinstance(n, (ast.Global, ast.Nonlocal)):
                self.globals_declared.update(n.names)
        for g in self.globals_declared:
            self._add(Def(g, cfg.entry, "global"))
        for node in cfg.nodes:
            s = node.stmt
            if s is None:
                continue
            nid = node.id
            if node.kind == "stmt":
                if isinstance(s, ast.Assign):
                    for t in s.targets:
                        for nm, path in _target_names(t):
                            if path:
                                self._add(Def(nm.id, nid, "unpack", s.value, path, s))
                            else:
                                self._add(Def(nm.id, nid, "assign", s.value, None, s))
                elif isinstance(s, ast.AnnAssign):
                    if isinstance(s.target, ast.Name) and s.value is not None:
                        self._add(Def(s.target.id, nid, "assign", s.value, None, s))
                elif isinstance(s, ast.AugAssign):
                    if isinstance(s.target, ast.Name):
                        self._add(Def(s.target.id, nid, "aug", s.value, s.op, s))
                elif isinstance(s, (ast.FunctionDef, ast.AsyncFunctionDef, ast.ClassDef)):
                    self._add(Def(s.name, nid, "def", None, None, s))
                elif isinstance(s, (ast.Import, ast.ImportFrom)):
                    for al in s.names:
                        self._add(Def((al.asname or al.name).split(".")[0], nid, "import", None, None, s))
            elif node.kind == "for":
                for nm, path in _target_names(s.target):
                    self._add(Def(nm.id, nid, "for", s.iter, path, s))
            elif node.kind == "with":
                for item in s.items:
                    if item.optional_vars is not None:
                        for nm, path in _target_names(item.optional_vars):
                            self._add(Def(nm.id, nid, "with", item.context_expr, path, s))
            elif node.kind == "except":
                if s.name:
                    self._add(Def(s.name, nid, "except", s.type, None, s))
            # walrus anywhere in the node's own expressions
            for sub in _own_exprs(node):
                for w in ast.walk(sub):
                    if isinstance(w, ast.NamedExpr) and isinstance(w.target, ast.Name):
                        self._add(Def(w.target.id, nid, "assign", w.value, None, s))

    def _solve(self):
        cfg = self.cfg
        n = len(cfg.nodes)
        self.IN: List[Set[int]] = [set() for _ in range(n)]
        self.OUT: List[Set[int]] = [set() for _ in range(n)]
        idx = {id(d): i for i, d in enumerate(self.defs)}
        by_name: Dict[str, Set[int]] = {}
        for i, d in enumerate(self.defs):
            by_name.setdefault(d.name, set()).add(i)
        gen = [set() for _ in range(n)]
        kill = [set() for _ in range(n)]
        for nid, ds in self.defs_at.items():
            for d in ds:
                gen[nid].add(idx[id(d)])
                kill[nid] |= by_name[d.name]
        # a later def of the same name in the same node wins; approximate: all gens survive
        work = list(range(n))
        while work:
            a = work.pop()
            new_in = set()
            for p, _ in cfg.pred[a]:
                new_in |= self.OUT[p]
            if a == cfg.entry:
                new_in = set()
            new_out = gen[a] | (new_in - kill[a])
            if new_in != self.IN[a] or new_out != self.OUT[a]:
                self.IN[a] = new_in
                self.OUT[a] = new_out
                for s, _ in cfg.succ[a]:
                    work.append(s)

    # ------------------------------------------------------------------ queries
    def reaching(self, name: str, at: int, after: bool = False) -> List[Def]:
        src = self.OUT[at] if after else self.IN[at]
        return [self.defs[i] for i in sorted(src) if self.defs[i].name == name]

    def is_local(self, name: str) -> bool:
        return name in self.assigned

    def node_of(self, ast_node) -> int:
        return self.cfg.node_of(ast_node)

    # ------------------------------------------------------------------ expansion
    def expand(self, expr, at: Optional[int] = None, depth: int = 12, _stack=None, after=False, phi=True, opaque=(), ssa=False, keep_for=False):
        if at is None:
            at = self.cfg.node_of(expr)
        return _Expander(self, depth, phi, set(opaque), ssa, keep_for).run(expr, at, after)

    def expand_names(self, expr, at: Optional[int] = None, depth: int = 8):
        """Replace single-definition temporaries by their defining expression; loop variables, parameters and
        multiply-defined names stay as written (terms comparable with guard texts)."""
        return self.expand(expr, at, depth=depth, phi=False, keep_for=True)

    def expand_ssa(self, expr, at: Optional[int] = None, depth: int = 10):
        """Single-definition expansion; a name with several reaching definitions becomes
        `name#<def nodes>` so that two occurrences print alike iff the same definitions reach both
        (same value within one pass through the code)."""
        return self.expand(expr, at, depth=depth, phi=False, ssa=True)

    def resolve_hoisted(self, t, at: int, depth: int = 4):
        """`c` / `not c` where c is a local with exactly one reaching definition `c = <comparison | boolean | call>`:
        return that definition (copied), else t itself."""
        import copy as _copy

        if depth <= 0:
            return t
        if isinstance(t, ast.UnaryOp) and isinstance(t.op, ast.Not):
            inner = self.resolve_hoisted(t.operand, at, depth)
            if inner is t.operand:
                return t
            new = ast.UnaryOp(op=ast.Not(), operand=inner)
            return new
        if isinstance(t, ast.Name) and self.is_local(t.id):
            defs = self.reaching(t.id, at)
            if len(defs) == 1 and defs[0].kind == "assign" and isinstance(defs[0].value, (ast.Compare, ast.BoolOp, ast.Call, ast.UnaryOp, ast.Name)):
                v = defs[0].value
                # the operands must not be redefined between the definition and the test
                for n in ast.walk(v):
                    if isinstance(n, ast.Name) and self.is_local(n.id):
                        if {id(d) for d in self.reaching(n.id, defs[0].nid)} != {id(d) for d in self.reaching(n.id, at)}:
                            return t
                if isinstance(v, ast.Call) and not (isinstance(v.func, ast.Name) and v.func.id in ("isinstance", "len", "bool")) and not (
                        isinstance(v.func, ast.Attribute) and v.func.attr in ("is_compatible", "startswith", "endswith")):
                    return t
                r = self.resolve_hoisted(v, defs[0].nid, depth - 1)
                c = _copy.copy(r)
                return c
        return t

    def mutated_names(self) -> Set[str]:
        """Local names that are mutated in place (method calls like append / subscript stores / del)."""
        out = set()
        MUT = {"append", "extend", "insert", "pop", "remove", "clear", "sort", "reverse", "update", "add", "discard"}
        for n in own_nodes(self.fi.node):
            if isinstance(n, ast.Call) and isinstance(n.func, ast.Attribute) and n.func.attr in MUT:
                if isinstance(n.func.value, ast.Name):
                    out.add(n.func.value.id)
            elif isinstance(n, (ast.Subscript,)) and isinstance(n.ctx, (ast.Store, ast.Del)) and isinstance(n.value, ast.Name):
                out.add(n.value.id)
        return out

    def expand_shallow(self, expr, at: Optional[int] = None, depth: int = 8):
        """Single-definition expansion only: names with several reaching definitions or in-place
        mutation stay opaque (readable, loop-safe terms for guard roles)."""
        return self.expand(expr, at, depth=depth, phi=False, opaque=self.mutated_names())

    def expand_name(self, name: str, at: int, after=False, depth=12):
        return self.expand(ast.Name(id=name, ctx=ast.Load()), at, depth=depth, after=after)


def _own_exprs(node):
    s = node.stmt
    k = node.kind
    if k == "stmt":
        if isinstance(s, (ast.FunctionDef, ast.AsyncFunctionDef, ast.ClassDef)):
            return []
        return [s]
    if k == "test":
        return [s.test]
    if k == "foriter":
        return [s.iter]
    if k == "for":
        return []
    if k == "with":
        return [i.context_expr for i in s.items]
    return []


class _Expander:
    def __init__(self, flow: Flow, depth: int, phi: bool = True, opaque=(), ssa: bool = False, keep_for: bool = False):
        self.flow = flow
        self.depth = depth
        self.phi = phi
        self.opaque = opaque
        self.ssa = ssa
        self.keep_for = keep_for

    def run(self, expr, at, after=False):
        return self._x(expr, at, self.depth, frozenset(), frozenset(), after)

    def _x(self, e, at, depth, stack, bound, after=False):
        flow = self.flow
        if isinstance(e, ast.Name):
            if e.id in bound or e.id.startswith(MARK):
                return ast.Name(id=e.id, ctx=ast.Load())
            if not flow.is_local(e.id):
                return ast.Name(id=e.id, ctx=ast.Load())
            if e.id in self.opaque:
                return ast.Name(id=e.id, ctx=ast.Load())
            defs = flow.reaching(e.id, at, after=after)
            if not defs:
                return mark("undef", ast.Constant(e.id))
            if not self.phi and (len(defs) > 1 or defs[0].kind in ("aug", "with", "except", "def", "import", "global") or (self.keep_for and defs[0].kind in ("for", "unpack"))):
                if self.ssa and not (len(defs) == 1 and defs[0].kind in ("def", "import", "global")):
                    return ast.Name(id=e.id + "#" + "_".join(str(d.nid) for d in defs), ctx=ast.Load())
                return ast.Name(id=e.id, ctx=ast.Load())
            if depth <= 0:
                return mark("deep", ast.Constant(e.id))
            terms = []
            for d in defs:
                key = (d.name, d.nid, d.kind)
                if key in stack:
                    terms.append(mark("loop", ast.Constant(d.name)))
                    continue
                terms.append(self._def_term(d, depth - 1, stack | {key}, bound))
            if len(terms) == 1:
                return terms[0]
            uniq = {}
            for t in terms:
                uniq.setdefault(norm(t), t)
            if len(uniq) == 1:
                return next(iter(uniq.values()))
            return mark("phi", *[uniq[k] for k in sorted(uniq)])
        if isinstance(e, (ast.ListComp, ast.SetComp, ast.GeneratorExp, ast.DictComp)):
            new = copy.copy(e)
            b = set(bound)
            gens = []
            for g in e.generators:
                g2 = copy.copy(g)
                g2.iter = self._x(g.iter, at, depth, stack, frozenset(b))
                for nm, _ in _target_names(g.target):
                    b.add(nm.id)
                g2.ifs = [self._x(i, at, depth, stack, frozenset(b)) for i in g.ifs]
                gens.append(g2)
            new.generators = gens
            fb = frozenset(b)
            if isinstance(e, ast.DictComp):
                new.key = self._x(e.key, at, depth, stack, fb)
                new.value = self._x(e.value, at, depth, stack, fb)
            else:
                new.elt = self._x(e.elt, at, depth, stack, fb)
            return new
        if isinstance(e, ast.Lambda):
            return e
        if isinstance(e, ast.AST):
            new = copy.copy(e)
            for field, val in ast.iter_fields(e):
                if isinstance(val, ast.AST):
                    if isinstance(val, (ast.expr_context, ast.operator, ast.cmpop, ast.boolop, ast.unaryop)):
                        continue
                    setattr(new, field, self._x(val, at, depth, stack, bound, after))
                elif isinstance(val, list):
                    setattr(
                        new,
                        field,
                        [self._x(v, at, depth, stack, bound, after) if isinstance(v, ast.AST) else v for v in val],
                    )
            return new
        return e

    def _def_term(self, d: Def, depth, stack, bound):
        k = d.kind
        if k == "param":
            return ast.Name(id=d.name, ctx=ast.Load())
        if k == "global":
            return mark("global", ast.Constant(d.name))
        if k == "assign":
            return self._x(d.value, d.nid, depth, stack, bound)
        if k == "aug":
            prev = self._x(ast.Name(id=d.name, ctx=ast.Load()), d.nid, depth, stack, bound)
            return ast.BinOp(left=prev, op=d.extra, right=self._x(d.value, d.nid, depth, stack, bound))
        if k == "unpack":
            v = self._x(d.value, d.nid, depth, stack, bound)
            if isinstance(v, (ast.Tuple, ast.List)) and len(d.extra) == 1 and isinstance(d.extra[0], int):
                if d.extra[0] < len(v.elts):
                    return v.elts[d.extra[0]]
            return mark("unpack", v, ast.Constant(d.extra))
        if k == "for":
            # iterable is evaluated at the foriter node (before the loop)
            it_node = self.flow.cfg._foriter.get(id(d.stmt), d.nid)
            it = d.value
            path = d.extra
            if isinstance(it, ast.Call) and isinstance(it.func, ast.Name) and it.func.id == "enumerate" and it.args:
                base = self._x(it.args[0], it_node, depth, stack, bound)
                if path == (0,):
                    return mark("idx", base)
                if path[:1] == (1,):
                    el = mark("elem", base)
                    return el if len(path) == 1 else mark("unpack", el, ast.Constant(path[1:]))
            if isinstance(it, ast.Call) and isinstance(it.func, ast.Name) and it.func.id == "zip" and path:
                if isinstance(path[0], int) and path[0] < len(it.args):
                    el = mark("elem", self._x(it.args[path[0]], it_node, depth, stack, bound))
                    return el if len(path) == 1 else mark("unpack", el, ast.Constant(path[1:]))
            base = self._x(it, it_node, depth, stack, bound)
            if isinstance(base, ast.Call) and isinstance(base.func, ast.Name) and base.func.id == "range":
                el = mark("idx", *base.args)
            else:
                el = mark("elem", base)
            return el if not path else mark("unpack", el, ast.Constant(path))
        if k == "with":
            return mark("with", self._x(d.value, d.nid, depth, stack, bound))
        if k == "except":
            return mark("exc", ast.Constant(d.name))
        if k == "def":
            return mark("def", ast.Constant(d.name))
        if k == "import":
            return ast.Name(id=d.name, ctx=ast.Load())
        return mark("unknown", ast.Constant(d.name))


# ---------------------------------------------------------------------- helpers on terms


def access_path(e) -> Optional[Tuple]:
    """('root', '.attr', ('[]', norm(index)), ...) for Name/Attribute/Subscript chains."""
    parts = []
    n = e
    while True:
        if isinstance(n, ast.Attribute):
            parts.append("." + n.attr)
            n = n.value
        elif isinstance(n, ast.Subscript):
            parts.append(("[]", norm(n.slice)))
            n = n.value
        elif isinstance(n, ast.Name):
            parts.append(n.id)
            break
        else:
            return None
    return tuple(reversed(parts))


def names_in(e) -> Set[str]:
    return {n.id for n in ast.walk(e) if isinstance(n, ast.Name)}


def attrs_in(e) -> Set[str]:
    return {n.attr for n in ast.walk(e) if isinstance(n, ast.Attribute)}


def consts_in(e) -> List:
    return [n.value for n in ast.walk(e) if isinstance(n, ast.Constant)]


def calls_named(e, name: str) -> List[ast.Call]:
    out = []
    for n in ast.walk(e):
        if isinstance(n, ast.Call):
            f = n.func
            if (isinstance(f, ast.Name) and f.id == name) or (isinstance(f, ast.Attribute) and f.attr == name):
                out.append(n)
    return out


def contains(e, sub_norm: str) -> bool:
    return any(norm(n) == sub_norm for n in ast.walk(e) if isinstance(n, ast.expr))
