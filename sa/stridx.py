"""A-STRIDX: string-cursor reasoning — integer lower bounds of find/len based indices, strict
shrinking of cursor strings in while loops, must-raise-on-empty-text constructor summaries."""
from __future__ import annotations

import ast
import math
from typing import Optional, Tuple

from .formula import Canon
from .loader import AnalysisError, ClassInfo, FuncInfo, norm, own_nodes, src

NEG_INF = -math.inf


def loop_key(node: ast.While) -> str:
    """Stable role key of a loop: the names and methods its test reads."""
    names = sorted({n.id for n in ast.walk(node.test) if isinstance(n, ast.Name)})
    calls = sorted({n.func.attr for n in ast.walk(node.test) if isinstance(n, ast.Call) and isinstance(n.func, ast.Attribute)})
    return ",".join(names + calls) or "const"


def must_raise_on_empty(eng, ci: ClassInfo) -> Tuple[bool, str]:
    """C(text, ...) raises for text == '' : the constructor stores text (optionally stripped) in an
    attribute and subscripts that attribute at a constant index unconditionally."""
    init = eng.prog.lookup_method(ci, "__init__")
    if init is None:
        return False, "no constructor"
    params = init.params
    if len(params) < 2:
        return False, "no text parameter"
    text = params[1]
    flow = eng.flow(init)
    cfg = flow.cfg
    holders = set()
    for n in own_nodes(init.node):
        if isinstance(n, ast.Assign) and len(n.targets) == 1 and isinstance(n.targets[0], ast.Attribute):
            t = n.targets[0]
            if isinstance(t.value, ast.Name) and t.value.id == "self":
                v = n.value
                if isinstance(v, ast.Call) and isinstance(v.func, ast.Attribute) and v.func.attr == "strip" and not v.args:
                    v = v.func.value
                if isinstance(v, ast.Name) and v.id == text and not cfg.guards(cfg.node_of(n)):
                    holders.add(t.attr)
    for n in own_nodes(init.node):
        if isinstance(n, ast.Subscript) and isinstance(n.ctx, ast.Load) and isinstance(n.slice, ast.Constant) and isinstance(n.slice.value, int):
            v = n.value
            if isinstance(v, ast.Attribute) and isinstance(v.value, ast.Name) and v.value.id == "self" and v.attr in holders:
                nid = cfg.node_of(n)
                if not cfg.guards(nid) and all(cfg.must_pass(nid, p) for p, _ in cfg.pred[cfg.exit]):
                    # no reassignment of the holder before: holders assigned once unconditionally
                    return True, f"{ci.name}.__init__ subscripts self.{v.attr}[{n.slice.value}] unconditionally (line {n.lineno})"
    return False, "no unconditional constant subscript of the stored text"


class Bounds:
    def __init__(self, eng, fi: FuncInfo):
        self.eng = eng
        self.fi = fi
        self.flow = eng.flow(fi)
        self.cfg = self.flow.cfg

    def _same_defs(self, name, a, b) -> bool:
        da = {id(d) for d in self.flow.reaching(name, a)}
        db = {id(d) for d in self.flow.reaching(name, b)}
        return da == db and bool(da)

    def _guard_nonneg(self, name: str, at: int) -> bool:
        """A dominating guard `name < 0 -> raise` (F branch taken) on the same definition of name,
        possibly followed only by additions of non-negative constants."""
        for gnid, label in self.cfg.guards(at):
            st = self.cfg.nodes[gnid].stmt
            if not isinstance(st, (ast.If, ast.While)):
                continue
            c = Canon()
            try:
                f = c.formula(st.test)
            except AnalysisError:
                continue
            # f must be exactly the atom  name < 0  (or name <= -1)
            if f[0] == "atom" and f[1][0] == "num" and label == "F":
                _, subj, op, thr = f[1]
                if subj == f"1*{norm(ast.Name(id=name, ctx=ast.Load()))}" and ((op == "<" and thr == 0) or (op == "<=" and thr == -1)):
                    if self._defs_chain_nonneg(name, gnid, at):
                        return True
        return False

    def _guard_found(self, call: ast.Call, at: int) -> bool:
        """A dominating guard `X.find(c) < 0 -> raise` on the same X (same reaching definitions)."""
        recv = call.func.value
        if not (isinstance(recv, ast.Name) and len(call.args) == 1 and isinstance(call.args[0], ast.Constant)):
            return False
        key = ("contains", norm(recv), call.args[0].value)
        for gnid, label in self.cfg.guards(at):
            st = self.cfg.nodes[gnid].stmt
            if not isinstance(st, (ast.If, ast.While)):
                continue
            try:
                f = Canon().formula(st.test)
            except AnalysisError:
                continue
            holds = (f == ("atom", key) and label == "T") or (f == ("not", ("atom", key)) and label == "F")
            if holds and self._same_defs(recv.id, gnid, at):
                return True
        return False

    def _defs_chain_nonneg(self, name, guard_nid, at) -> bool:
        """Between the guard and `at`, name is only changed by += non-negative constant."""
        defs_g = {id(d) for d in self.flow.reaching(name, guard_nid)}
        work = list(self.flow.reaching(name, at))
        seen = set()
        while work:
            d = work.pop()
            if id(d) in seen:
                continue
            seen.add(id(d))
            if id(d) in defs_g:
                continue
            if d.kind == "aug" and isinstance(d.extra, ast.Add) and isinstance(d.value, ast.Constant) and isinstance(d.value.value, int) and d.value.value >= 0:
                work += self.flow.reaching(name, d.nid)
                continue
            return False
        return True

    def lb(self, e, at: int, depth: int = 8) -> float:
        if depth <= 0:
            return NEG_INF
        if isinstance(e, ast.Constant) and isinstance(e.value, int) and not isinstance(e.value, bool):
            return e.value
        if isinstance(e, ast.UnaryOp) and isinstance(e.op, ast.USub) and isinstance(e.operand, ast.Constant):
            return -e.operand.value
        if isinstance(e, ast.BinOp) and isinstance(e.op, ast.Add):
            return self.lb(e.left, at, depth - 1) + self.lb(e.right, at, depth - 1)
        if isinstance(e, ast.BinOp) and isinstance(e.op, ast.Sub) and isinstance(e.right, ast.Constant) and isinstance(e.right.value, int):
            return self.lb(e.left, at, depth - 1) - e.right.value
        if isinstance(e, ast.Call):
            f = e.func
            if isinstance(f, ast.Attribute) and f.attr in ("find", "rfind"):
                if self._guard_found(e, at):
                    return 0
                return -1
            if isinstance(f, ast.Attribute) and f.attr in ("index", "count"):
                return 0
            if isinstance(f, ast.Name) and f.id == "len":
                return 0
            return NEG_INF
        if isinstance(e, ast.Name):
            if not self.flow.is_local(e.id):
                return NEG_INF
            defs = self.flow.reaching(e.id, at)
            if not defs:
                return NEG_INF
            vals = []
            for d in defs:
                if d.kind == "assign":
                    vals.append(self.lb(d.value, d.nid, depth - 1))
                elif d.kind == "aug" and isinstance(d.extra, ast.Add):
                    prev = self.lb(ast.Name(id=e.id, ctx=ast.Load()), d.nid, depth - 1)
                    vals.append(prev + self.lb(d.value, d.nid, depth - 1))
                else:
                    vals.append(NEG_INF)
            v = min(vals)
            if v < 0 and self._guard_nonneg(e.id, at):
                # guard proves >= 0 before the trailing additions; add those additions
                add = 0
                for d in defs:
                    if d.kind == "aug":
                        add = min(add, 0) if False else add
                # recompute: value >= 0 at the guard, plus non-negative additions afterwards
                v = max(v, self._after_guard_lb(e.id, at))
            return v
        return NEG_INF

    def _after_guard_lb(self, name, at) -> float:
        """>= 0 at the guard; add the constants of the += chain between guard and `at` (min over paths)."""
        best = None
        for gnid, label in self.cfg.guards(at):
            st = self.cfg.nodes[gnid].stmt
            if not isinstance(st, (ast.If, ast.While)) or label != "F":
                continue
            defs_g = {id(d) for d in self.flow.reaching(name, gnid)}

            def rec(nid, depth=0):
                if depth > 6:
                    return 0
                out = []
                for d in self.flow.reaching(name, nid):
                    if id(d) in defs_g:
                        out.append(0)
                    elif d.kind == "aug" and isinstance(d.value, ast.Constant) and isinstance(d.value.value, int):
                        out.append(d.value.value + rec(d.nid, depth + 1))
                    else:
                        out.append(0)
                return min(out) if out else 0

            v = rec(at)
            best = v if best is None else max(best, v)
        return best if best is not None else 0

    def raises_if_zero(self, name: str, at: int) -> Optional[str]:
        """A statement that every path to `at` passes contains C(x[:name]) with C must-raise-on-empty,
        on the same definition of `name`: so name == 0 cannot reach `at`."""
        for n in own_nodes(self.fi.node):
            if not isinstance(n, ast.Call):
                continue
            for a in n.args[:1]:
                if (
                    isinstance(a, ast.Subscript)
                    and isinstance(a.slice, ast.Slice)
                    and a.slice.lower is None
                    and isinstance(a.slice.upper, ast.Name)
                    and a.slice.upper.id == name
                ):
                    try:
                        cn = self.cfg.node_of(n)
                    except AnalysisError:
                        continue
                    if cn == at or not self.cfg.must_pass(cn, at):
                        continue
                    if not self._same_defs(name, cn, at):
                        continue
                    for t in self.eng.resolve_call(self.fi, n):
                        if isinstance(t, ClassInfo):
                            ok, why = must_raise_on_empty(self.eng, t)
                            if ok:
                                return why
        return None


def loop_progress(eng, fi: FuncInfo, loop: ast.While) -> Tuple[bool, str, str]:
    flow = eng.flow(fi)
    cfg = flow.cfg
    b = Bounds(eng, fi)
    head = cfg.node_of(loop)
    test = loop.test
    # classify
    cursor = None
    counter = None
    direction = 0
    for n in ast.walk(test):
        if isinstance(n, ast.Call) and isinstance(n.func, ast.Name) and n.func.id == "len" and n.args and isinstance(n.args[0], ast.Name):
            if cursor is None:
                cursor = n.args[0].id
        if isinstance(n, ast.Call) and isinstance(n.func, ast.Attribute) and n.func.attr in ("find", "rfind") and isinstance(n.func.value, ast.Name):
            cursor = n.func.value.id
    cmps = list(test.values) if isinstance(test, ast.BoolOp) and isinstance(test.op, ast.And) else [test]
    # `while s:` — a text cursor tested for emptiness without len(): s is re-assigned a slice of itself in the body
    for c_ in cmps:
        if cursor is None and isinstance(c_, ast.Name):
            if any(isinstance(n, ast.Assign) and any(isinstance(t, ast.Name) and t.id == c_.id for t in n.targets) and isinstance(n.value, ast.Subscript)
                   and isinstance(n.value.value, ast.Name) and n.value.value.id == c_.id and isinstance(n.value.slice, ast.Slice) for n in own_nodes(loop)):
                cursor = c_.id
    flipop = {ast.Lt: ast.Gt, ast.Gt: ast.Lt, ast.LtE: ast.GtE, ast.GtE: ast.LtE}
    for cmp_ in cmps:
        if counter is not None:
            break
        if not (isinstance(cmp_, ast.Compare) and len(cmp_.ops) == 1):
            continue
        left, op, right = cmp_.left, cmp_.ops[0], cmp_.comparators[0]
        if not isinstance(left, ast.Name) and isinstance(right, ast.Name) and type(op) in flipop:
            left, right, op = right, left, flipop[type(op)]()
        if not isinstance(left, ast.Name):
            continue
        nm = left.id
        augs = [n for n in own_nodes(loop) if isinstance(n, ast.AugAssign) and isinstance(n.target, ast.Name) and n.target.id == nm]
        if augs:
            counter = nm
            direction = -1 if isinstance(op, (ast.Gt, ast.GtE)) else (1 if isinstance(op, (ast.Lt, ast.LtE)) else 0)
    body_nodes = list(own_nodes(loop))
    progress = set()
    notes = []
    kind = "unrecognised"
    if counter is not None and direction != 0:
        kind = f"counter {counter} {'decreasing' if direction < 0 else 'increasing'}"
        for n in body_nodes:
            if isinstance(n, ast.AugAssign) and isinstance(n.target, ast.Name) and n.target.id == counter:
                c = n.value.value if isinstance(n.value, ast.Constant) and isinstance(n.value.value, int) else None
                if c is not None and c > 0 and (
                    (direction < 0 and isinstance(n.op, ast.Sub)) or (direction > 0 and isinstance(n.op, ast.Add))
                ):
                    progress.add(cfg.node_of(n))
            if isinstance(n, ast.Assign) and any(isinstance(t, ast.Name) and t.id == counter for t in n.targets):
                return False, f"counter {counter} re-assigned inside the loop (line {n.lineno})", kind
    elif cursor is not None:
        kind = f"cursor string {cursor}"
        for n in body_nodes:
            if isinstance(n, ast.Assign) and len(n.targets) == 1 and isinstance(n.targets[0], ast.Name) and n.targets[0].id == cursor:
                v = n.value
                if isinstance(v, ast.Call) and isinstance(v.func, ast.Attribute) and v.func.attr in ("strip", "lstrip", "rstrip") and not v.args:
                    v = v.func.value
                if (
                    isinstance(v, ast.Subscript)
                    and isinstance(v.value, ast.Name)
                    and v.value.id == cursor
                    and isinstance(v.slice, ast.Slice)
                    and v.slice.upper is None
                    and v.slice.step is None
                    and v.slice.lower is not None
                ):
                    nid = cfg.node_of(n)
                    low = v.slice.lower
                    lbv = b.lb(low, nid)
                    if lbv >= 1:
                        progress.add(nid)
                        notes.append(f"line {n.lineno}: slice start >= {lbv:g}")
                    elif lbv >= 0 and isinstance(low, ast.Name):
                        why = b.raises_if_zero(low.id, nid)
                        if why:
                            progress.add(nid)
                            notes.append(f"line {n.lineno}: slice start >= 0 and 0 is excluded ({why})")
                        else:
                            notes.append(f"line {n.lineno}: slice start only >= {lbv:g}")
                    else:
                        notes.append(f"line {n.lineno}: slice start lower bound {lbv}")
    else:
        return False, "loop shape not recognised (neither cursor string nor monotone counter)", kind
    if not progress:
        return False, "no statement in the body provably advances the " + kind + "; " + "; ".join(notes), kind
    starts = [d for d, lbl in cfg.succ[head] if lbl == "T"]
    r = cfg.reachable(starts, avoid_nodes=progress)
    if head in r:
        # find an offending back-edge source for the report
        offenders = [p for p, _ in cfg.pred[head] if p in r]
        lines = sorted({getattr(cfg.nodes[p].stmt, "lineno", 0) for p in offenders})
        return False, f"a path through the body returns to the loop test without advancing (reaches the test from line(s) {lines}); " + "; ".join(notes), kind
    return True, "; ".join(notes), kind
