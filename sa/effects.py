"""A-OWN / A-EFFECT: which parameter-rooted objects does a function mutate (transitively)?

mut(f) is a set of (param name, access path) — the object reached from the parameter through the
path is mutated in place by f or by something f calls.  Values that come out of a constructor, a
literal, copy.deepcopy / copy.copy (first level), a NumPy constructor or any non-accessor call are
*fresh*: mutating them is not an effect on the caller's objects.
"""
from __future__ import annotations

import ast
from typing import Dict, List, Optional, Set, Tuple

from .dataflow import is_mark
from .loader import AnalysisError, ClassInfo, FuncInfo, own_nodes, src

MUT_METHODS = {"append", "extend", "insert", "pop", "remove", "clear", "sort", "reverse", "update", "add", "discard", "setdefault", "popitem", "fill", "resize", "put"}
FRESH_CALLS = {"deepcopy", "copy", "list", "dict", "set", "tuple", "sorted", "reversed", "asarray", "array", "zeros", "ones", "arange", "str", "int", "float",
               "range", "enumerate", "zip", "len", "sum", "min", "max", "abs"}

CONTAINER_ATTRS = {"transitions", "bond_descriptors", "repeat_bonds", "end_bonds", "repeat_tokens", "end_tokens", "_elements", "elements",
                   "_molecules", "atoms", "repeat_bond_token_idx", "end_bond_token_idx"}

Effect = Tuple[str, Tuple[str, ...]]


class Effects:
    def __init__(self, eng):
        self.eng = eng
        self.mut: Dict[str, Set[Effect]] = {}
        self.why: Dict[Tuple[str, Effect], str] = {}
        self._alias_accessor: Dict[str, Optional[Tuple[str, ...]]] = {}
        self._solve()

    # ------------------------------------------------------------------ roots
    def roots(self, fi: FuncInfo, e, at: int, depth: int = 0) -> List[Effect]:
        """Parameter-rooted objects an expression may denote (empty = fresh / unknown-fresh)."""
        flow = self.eng.flow(fi)
        try:
            t = flow.expand(e, at, depth=10)
        except AnalysisError:
            return []
        return self._roots_term(fi, t, ())

    def _roots_term(self, fi: FuncInfo, t, path: Tuple[str, ...]) -> List[Effect]:
        if isinstance(t, ast.Attribute):
            return self._roots_term(fi, t.value, (t.attr,) + path)
        if isinstance(t, ast.Subscript):
            if isinstance(t.slice, ast.Slice):
                return []  # a slice of a list is a fresh list (of shared elements: first level only)
            return self._roots_term(fi, t.value, ("[]",) + path)
        if isinstance(t, ast.Starred):
            return self._roots_term(fi, t.value, path)
        if isinstance(t, ast.IfExp):
            return self._roots_term(fi, t.body, path) + self._roots_term(fi, t.orelse, path)
        if isinstance(t, ast.BoolOp):
            out = []
            for v in t.values:
                out += self._roots_term(fi, v, path)
            return out
        if isinstance(t, ast.Name):
            name = t.id
            f = fi
            while f is not None:
                if name in f.params:
                    return [(self._param_key(f, fi, name), path)]
                flow = self.eng.flow(f)
                if flow.is_local(name) and f is not fi:
                    # closure variable that is a local of the enclosing function: resolve there (all definitions)
                    out = []
                    for d in flow.defs:
                        if d.name == name and d.kind == "assign":
                            out += [(self._param_key2(f, fi, r[0]), r[1] + path) for r in self._roots_term(f, flow.expand(d.value, d.nid, depth=8), ())]
                    return out
                f = f.parent
            return []  # global / builtin / module
        if isinstance(t, ast.Call):
            if is_mark(t):
                nm = t.func.id[1:]
                if nm == "phi":
                    out = []
                    for a in t.args:
                        out += self._roots_term(fi, a, path)
                    return out
                if nm in ("elem",):
                    return self._roots_term(fi, t.args[0], ("[]",) + path) if t.args else []
                if nm == "unpack":
                    return self._roots_term(fi, t.args[0], ("[]",) + path) if t.args else []
                return []
            f = t.func
            fname = f.attr if isinstance(f, ast.Attribute) else getattr(f, "id", None)
            if fname in FRESH_CALLS:
                # copy.copy / list(): fresh container of shared elements
                if fname in ("copy", "list", "sorted", "reversed", "tuple") and t.args and path and path[0] == "[]":
                    return self._roots_term(fi, t.args[0], path)
                return []
            # alias accessor: repo method returning an attribute of its receiver without copy
            if isinstance(f, ast.Attribute):
                for tg in self.eng.resolve_call(fi, t):
                    if isinstance(tg, FuncInfo):
                        ap = self.alias_accessor(tg)
                        if ap is not None:
                            return self._roots_term(fi, f.value, ap + path)
            return []
        if isinstance(t, ast.BinOp):
            # xs + ys : fresh list of shared elements
            if path and path[0] == "[]":
                return self._roots_term(fi, t.left, path) + self._roots_term(fi, t.right, path)
            return []
        return []

    @staticmethod
    def _param_key(owner: FuncInfo, user: FuncInfo, name: str) -> str:
        return name if owner is user else f"{owner.qualname}::{name}"

    @staticmethod
    def _param_key2(owner: FuncInfo, user: FuncInfo, key: str) -> str:
        if "::" in key or owner is user:
            return key if "::" in key else (key if owner is user else f"{owner.qualname}::{key}")
        return f"{owner.qualname}::{key}"

    def alias_accessor(self, fi: FuncInfo) -> Optional[Tuple[str, ...]]:
        """Method/property whose every return value is `self.<attrs>` (no copy): returns the path."""
        q = fi.qualname
        if q in self._alias_accessor:
            return self._alias_accessor[q]
        self._alias_accessor[q] = None
        rets = [n for n in own_nodes(fi.node) if isinstance(n, ast.Return) and n.value is not None]
        paths = set()
        flow = self.eng.flow(fi)
        for r in rets:
            t = flow.expand(r.value, flow.cfg.node_of(r), depth=6)
            p = []
            x = t
            while isinstance(x, ast.Attribute):
                p.append(x.attr)
                x = x.value
            if isinstance(x, ast.Name) and x.id == "self" and p:
                paths.add(tuple(reversed(p)))
            else:
                paths.add(None)
        if len(paths) == 1 and None not in paths:
            self._alias_accessor[q] = next(iter(paths))
        return self._alias_accessor[q]

    # ------------------------------------------------------------------ direct effects
    def direct(self, fi: FuncInfo) -> List[Tuple[Effect, str]]:
        out = []
        flow = self.eng.flow(fi)
        cfg = flow.cfg

        def add(obj_expr, extra_path, node, what):
            try:
                at = cfg.node_of(node)
            except AnalysisError:
                return
            for root, path in self.roots(fi, obj_expr, at):
                out.append(((root, path + extra_path), f"{fi.module.relpath}:{node.lineno} {what}"))

        for n in own_nodes(fi.node):
            if isinstance(n, (ast.Assign, ast.AugAssign, ast.AnnAssign, ast.Delete)):
                tgs = n.targets if isinstance(n, (ast.Assign, ast.Delete)) else [n.target]
                flat = []
                for t in tgs:
                    if isinstance(t, (ast.Tuple, ast.List)):
                        flat += list(t.elts)
                    else:
                        flat.append(t)
                for t in flat:
                    if isinstance(t, ast.Attribute):
                        add(t.value, (t.attr,), n, f"store to {src(t)}")
                    elif isinstance(t, ast.Subscript):
                        add(t.value, ("[]",), n, f"element store/delete on {src(t.value)}")
                    elif isinstance(t, ast.Name) and isinstance(n, ast.AugAssign):
                        # in-place update of a mutable reached without copy: only when the value is a container path
                        defs = flow.reaching(t.id, cfg.node_of(n))
                        for d in defs:
                            if d.kind == "assign" and isinstance(d.value, (ast.Attribute, ast.Name)):
                                ts = self.eng.infer(d.value, fi)
                                container = any(x[0] in ("list", "ndarray", "dict") for x in ts) or (
                                    isinstance(d.value, ast.Attribute) and d.value.attr in CONTAINER_ATTRS
                                )
                                if container:
                                    add(d.value, ("<inplace>",), n, f"in-place {src(n)[:40]}")
            elif isinstance(n, ast.Call) and isinstance(n.func, ast.Attribute) and n.func.attr in MUT_METHODS:
                recv = n.func.value
                # only built-in containers: skip when the receiver resolves to a repo method of that name
                tg = [t for t in self.eng.resolve_call(fi, n) if isinstance(t, FuncInfo)]
                if not tg:
                    add(recv, ("<" + n.func.attr + ">",), n, f"{src(n.func)}(...)")
        return out

    # ------------------------------------------------------------------ fixpoint
    def _solve(self):
        eng = self.eng
        funcs = list(eng.prog.all_functions())
        for fi in funcs:
            s = set()
            for eff, why in self.direct(fi):
                s.add(eff)
                self.why.setdefault((fi.qualname, eff), why)
            self.mut[fi.qualname] = s
        # call edges with bindings
        edges = []
        for fi in funcs:
            flow = eng.flow(fi)
            for n in own_nodes(fi.node):
                if isinstance(n, ast.Call):
                    for tg in eng.resolve_call(fi, n):
                        callee = None
                        if isinstance(tg, FuncInfo):
                            callee = tg
                            ctor = False
                        elif isinstance(tg, ClassInfo):
                            callee = eng.prog.lookup_method(tg, "__init__")
                            ctor = True
                        if callee is None:
                            continue
                        edges.append((fi, n, callee, ctor))
            for attr_node, getter in eng.property_reads(fi):
                edges.append((fi, attr_node, getter, False))
            # nested functions: effects on closure variables propagate up as effects of the parent
        changed = True
        rounds = 0
        while changed and rounds < 30:
            changed = False
            rounds += 1
            for fi, node, callee, ctor in edges:
                cm = self.mut.get(callee.qualname, set())
                if not cm:
                    continue
                flow = eng.flow(fi)
                try:
                    at = flow.cfg.node_of(node)
                except AnalysisError:
                    continue
                for (pname, path) in list(cm):
                    if "::" in pname:
                        # effect on a closure variable of an enclosing function of the callee
                        owner_q, var = pname.split("::", 1)
                        new = None
                        f = fi
                        while f is not None:
                            if f.qualname == owner_q:
                                new = (var if f is fi else pname, path)
                                break
                            f = f.parent
                        if new is None:
                            continue
                        effs = [new]
                    else:
                        arg = self._bind(callee, node, pname, ctor)
                        if arg is None:
                            continue
                        effs = [(r, p + path) for r, p in self.roots(fi, arg, at)]
                    for eff in effs:
                        if len(eff[1]) > 8:
                            eff = (eff[0], eff[1][:4] + ("…",) + eff[1][-3:])
                        if eff not in self.mut[fi.qualname]:
                            self.mut[fi.qualname].add(eff)
                            self.why.setdefault((fi.qualname, eff), f"via {callee.qualname} ← {self.why.get((callee.qualname, (pname, path)), '?')}")
                            changed = True
            # closures: a nested function's effects on its parent's variables are effects of the parent when it calls it
            # (handled through the '::' keys above)

    @staticmethod
    def _bind(callee: FuncInfo, node, pname: str, ctor: bool):
        params = callee.params
        if pname not in params:
            return None
        idx = params.index(pname)
        if isinstance(node, ast.Attribute):  # property read: only self
            return node.value if idx == 0 else None
        call = node
        is_method = callee.cls is not None and not callee.is_static
        if is_method:
            if idx == 0:
                if ctor:
                    return None  # the object under construction is fresh
                if isinstance(call.func, ast.Attribute):
                    v = call.func.value
                    if isinstance(v, ast.Call) and isinstance(v.func, ast.Name) and v.func.id == "super":
                        return ast.Name(id="self", ctx=ast.Load())
                    return v
                return None
            pos = idx - 1
        else:
            pos = idx
        if pos < len(call.args):
            return call.args[pos]
        for k in call.keywords:
            if k.arg == pname:
                return k.value
        return None
