"""A-OWN / A-EFFECT: which parameter-rooted objects does a function mutate (transitively)?

mut(f) is a set of (param name, access path) — the object reached from the parameter through the
path is mutated in place by f or by something f calls.  Values that come out of a constructor, a
literal, copy.deepcopy / copy.copy (first level), a NumPy constructor or any non-accessor call are
*fresh*: mutating them is not an effect on the caller's objects.
"""
from __future__ import annotations

import ast
from typing import Dict, List, Optional, Set, Tuple

from .dataflow import is_mark
from .loader import AnalysisError, ClassInfo, FuncInfo, own_nodes, src

MUT_METHODS = {"append", "extend", "insert", "pop", "remove", "clear", "sort", "reverse", "update", "add", "discard", "setdefault", "popitem", "fill", "resize", "put"}
FRESH_CALLS = {"deepcopy", "copy", "list", "dict", "set", "tuple", "sorted", "reversed", "array", "zeros", "ones", "arange", "str", "int", "float",
               "range", "enumerate", "zip", "len", "sum", "min", "max", "abs"}

CONTAINER_ATTRS = {"transitions", "bond_descriptors", "repeat_bonds", "end_bonds", "repeat_tokens", "end_tokens", "_elements", "elements",
                   "_molecules", "atoms", "repeat_bond_token_idx", "end_bond_token_idx"}

ALIAS_CALLS = {"asarray", "asanyarray", "ascontiguousarray", "ravel", "reshape", "view", "squeeze"}


def _call_name(c):
    f = c.func
    return f.attr if isinstance(f, ast.Attribute) else getattr(f, "id", None)


Effect = Tuple[str, Tuple[str, ...]]


class Effects:
    def __init__(self, eng):
        self.eng = eng
        self.mut: Dict[str, Set[Effect]] = {}
        self.why: Dict[Tuple[str, Effect], str] = {}
        self._alias_accessor: Dict[str, Optional[Tuple[str, ...]]] = {}
        self.sites: Dict[Tuple[str, Effect], list] = {}  # (function, effect) -> [(FuncInfo, statement)] where the store is written
        self._solve()

    # ------------------------------------------------------------------ roots
    def roots(self, fi: FuncInfo, e, at: int, path: Tuple[str, ...] = (), depth: int = 10) -> List[Effect]:
        """Parameter-rooted objects the expression `e` (as written, evaluated at CFG node `at`) may denote,
        each with the access path leading to it.  Empty = fresh."""
        if depth <= 0 or len(path) > 10:
            return []
        R = self.roots
        if isinstance(e, ast.Attribute):
            getters = self._getters(fi, e)
            if getters:
                # a property read: what it hands out is what its getter returns (a copy is fresh, `return self._x` an alias)
                out = []
                for g in getters:
                    for ap in self.alias_paths(g):
                        if ap and ap[0] == "<shallow>":
                            if path and path[0] != "[]" and not path[0].startswith("<"):
                                out += R(fi, e.value, at, ap[1:] + path, depth - 1)
                        else:
                            out += R(fi, e.value, at, ap + path, depth - 1)
                return out
            return R(fi, e.value, at, (e.attr,) + path, depth)
        if isinstance(e, ast.Subscript):
            if isinstance(e.slice, ast.Slice):
                # a slice is a fresh list of shared elements
                if path and path[0] == "[]":
                    return R(fi, e.value, at, path, depth)
                return []
            return R(fi, e.value, at, ("[]",) + path, depth)
        if isinstance(e, ast.Starred):
            return R(fi, e.value, at, path, depth)
        if isinstance(e, ast.IfExp):
            return R(fi, e.body, at, path, depth) + R(fi, e.orelse, at, path, depth)
        if isinstance(e, ast.BoolOp):
            out = []
            for v in e.values:
                out += R(fi, v, at, path, depth)
            return out
        if isinstance(e, ast.NamedExpr):
            return R(fi, e.value, at, path, depth)
        if isinstance(e, (ast.List, ast.Tuple, ast.Set)):
            if path and path[0] == "[]":
                out = []
                for x in e.elts:
                    out += R(fi, x, at, path[1:], depth - 1)
                return out
            return []
        if isinstance(e, ast.Dict):
            if path and path[0] == "[]":
                out = []
                for x in list(e.keys) + list(e.values):
                    if x is not None:
                        out += R(fi, x, at, path[1:], depth - 1)
                return out
            return []
        if isinstance(e, ast.BinOp):
            if path and path[0] == "[]":  # xs + ys: fresh list of shared elements
                return R(fi, e.left, at, path, depth) + R(fi, e.right, at, path, depth)
            return []
        if isinstance(e, ast.Name):
            return self._roots_name(fi, e.id, at, path, depth)
        if isinstance(e, ast.Call):
            f = e.func
            fname = f.attr if isinstance(f, ast.Attribute) else getattr(f, "id", None)
            if fname in ("asarray", "asanyarray", "ascontiguousarray", "ravel", "reshape", "view", "squeeze") and (e.args or isinstance(f, ast.Attribute)):
                # NumPy returns the very same array when it can: an alias, not a copy
                base = e.args[0] if (e.args and fname.startswith("as")) else (f.value if isinstance(f, ast.Attribute) else None)
                if fname.startswith("as") and e.args:
                    base = e.args[0]
                return R(fi, base, at, path, depth - 1) if base is not None else []
            if fname in ("items", "values", "keys") and isinstance(f, ast.Attribute) and not e.args:
                return R(fi, f.value, at, path, depth - 1)
            if fname == "copy" and e.args and path and path[0] != "[]" and not path[0].startswith("<"):
                # copy.copy(obj): a new object whose fields are the very objects the original's fields hold
                return R(fi, e.args[0], at, path, depth - 1)
            if fname in ("enumerate", "zip", "reversed", "sorted", "list", "tuple", "copy", "iter", "set") and e.args:
                # fresh container / iterator of shared elements
                if path and path[0] == "[]":
                    out = []
                    for a in e.args:
                        out += R(fi, a, at, path, depth - 1)
                    return out
                return []
            if fname in FRESH_CALLS:
                return []
            if isinstance(f, ast.Attribute):
                out = []
                hit = False
                for tg in self.eng.resolve_call(fi, e):
                    if isinstance(tg, FuncInfo):
                        for ap in self.alias_paths(tg):
                            hit = True
                            if ap and ap[0] == "<shallow>":
                                # the callee hands out a shallow copy: only what lies below a field of it is shared
                                if path and path[0] != "[]" and not path[0].startswith("<"):
                                    out += R(fi, f.value, at, ap[1:] + path, depth - 1)
                            else:
                                out += R(fi, f.value, at, ap + path, depth - 1)
                if hit:
                    return out
                if fname in ("get", "pop", "setdefault") and path is not None:
                    return R(fi, f.value, at, ("[]",) + path, depth - 1)
            return []
        return []

    def _getters(self, fi: FuncInfo, e: ast.Attribute) -> List[FuncInfo]:
        cache = self.__dict__.setdefault("_prop_reads", {})
        if fi.qualname not in cache:
            m = {}
            try:
                for node, getter in self.eng.property_reads(fi):
                    m.setdefault(id(node), []).append(getter)
            except AnalysisError:
                pass
            cache[fi.qualname] = m
        return cache[fi.qualname].get(id(e), [])

    def _roots_name(self, fi: FuncInfo, name: str, at: int, path, depth) -> List[Effect]:
        f = fi
        first = True
        while f is not None:
            flow = self.eng.flow(f)
            if flow.is_local(name):
                out = []
                if first:
                    defs = flow.reaching(name, at)
                else:
                    defs = [d for d in flow.defs if d.name == name]
                for d in defs:
                    for r, p in self._roots_def(f, d, path, depth - 1, at if first else None):
                        out.append((self._param_key2(f, fi, r), p))
                return out
            f = f.parent
            first = False
        g = self.global_root(fi, name)
        return [(g, path)] if g else []

    # ------------------------------------------------------------------ module-level state
    def module_state(self, mod) -> Dict[str, ast.AST]:
        """Module-level names that can hold state surviving a call: bound to a mutable value at module level, or
        re-bound from inside a function through a `global` declaration."""
        cache = self.__dict__.setdefault("_module_state", {})
        if mod.name in cache:
            return cache[mod.name]
        out: Dict[str, ast.AST] = {}
        declared_global = set()
        for n in ast.walk(mod.tree):
            if isinstance(n, ast.Global):
                declared_global.update(n.names)
        for st in mod.tree.body:
            tgs = []
            if isinstance(st, ast.Assign):
                tgs, v = st.targets, st.value
            elif isinstance(st, ast.AnnAssign) and st.value is not None:
                tgs, v = [st.target], st.value
            for t in tgs:
                if not isinstance(t, ast.Name):
                    continue
                mutable = isinstance(v, (ast.List, ast.Dict, ast.Set, ast.ListComp, ast.DictComp, ast.SetComp)) or (
                    isinstance(v, ast.Call) and _call_name(v) in ("list", "dict", "set", "defaultdict", "OrderedDict", "deque", "Counter", "WeakKeyDictionary", "WeakValueDictionary",
                                                                  "zeros", "ones", "empty", "array", "lru_cache"))
                if mutable or t.id in declared_global:
                    out[t.id] = st
        cache[mod.name] = out
        return out

    def global_root(self, fi: FuncInfo, name: str) -> Optional[str]:
        mod = fi.module
        if name in self.module_state(mod):
            return f"@{mod.name}.{name}"
        r = self.eng.prog.resolve_name(mod, name)
        if isinstance(r, tuple) and r and r[0] == "global" and r[1] in self.eng.prog.modules:
            tm = self.eng.prog.modules[r[1]]
            if r[2] in self.module_state(tm):
                return f"@{tm.name}.{r[2]}"
        if isinstance(r, ClassInfo):
            return f"@class.{r.name}"
        return None

    def _roots_def(self, fi: FuncInfo, d, path, depth, use_at=None) -> List[Effect]:
        flow = self.eng.flow(fi)
        if depth <= 0:
            return []
        if d.kind == "param":
            return [(d.name, path)]
        if d.kind == "assign":
            v = d.value
            out = self.roots(fi, v, d.nid, path, depth)
            if path and path[0] == "[]" and isinstance(v, (ast.List, ast.Dict, ast.Set, ast.ListComp, ast.DictComp, ast.SetComp, ast.Call)):
                out += self._inserted(fi, d.name, path[1:], depth, use_at)
            return out
        if d.kind == "aug":
            out = []
            for pd in flow.reaching(d.name, d.nid):
                if pd is not d:
                    out += self._roots_def(fi, pd, path, depth - 1, use_at)
            if path and path[0] == "[]":
                out += self.roots(fi, d.value, d.nid, path, depth - 1)
            return out
        if d.kind == "for":
            it = d.value
            it_node = flow.cfg._foriter.get(id(d.stmt), d.nid)
            sub = d.extra or ()
            if isinstance(it, ast.Call) and isinstance(it.func, ast.Name) and it.func.id == "enumerate" and it.args:
                if sub[:1] == (1,):
                    return self.roots(fi, it.args[0], it_node, ("[]",) * (len(sub)) + path, depth)
                return []
            if isinstance(it, ast.Call) and isinstance(it.func, ast.Name) and it.func.id == "zip" and sub and isinstance(sub[0], int) and sub[0] < len(it.args):
                return self.roots(fi, it.args[sub[0]], it_node, ("[]",) * len(sub) + path, depth)
            return self.roots(fi, it, it_node, ("[]",) * (1 + len(sub)) + path, depth)
        if d.kind == "unpack":
            return self.roots(fi, d.value, d.nid, ("[]",) * len(d.extra or (0,)) + path, depth)
        if d.kind == "with":
            return []
        return []

    def _inserted(self, fi: FuncInfo, name: str, path, depth, use_at=None) -> List[Effect]:
        """Objects put into the local container `name` by statements that can execute before the use."""
        out = []
        flow = self.eng.flow(fi)
        before = flow.cfg.reachable([use_at], backward=True) if use_at is not None else None
        for n in own_nodes(fi.node):
            try:
                if before is not None and isinstance(n, (ast.Call, ast.Assign)) and flow.cfg.node_of(n) not in before:
                    continue
                if isinstance(n, ast.Call) and isinstance(n.func, ast.Attribute) and isinstance(n.func.value, ast.Name) and n.func.value.id == name:
                    if n.func.attr in ("append", "add", "insert", "extend", "setdefault") and n.args:
                        at = flow.cfg.node_of(n)
                        for a in n.args[-1:] if n.func.attr != "setdefault" else n.args:
                            p = (("[]",) + path) if n.func.attr == "extend" else path
                            out += self.roots(fi, a, at, p, depth - 1)
                elif isinstance(n, ast.Assign):
                    for t in n.targets:
                        if isinstance(t, ast.Subscript) and isinstance(t.value, ast.Name) and t.value.id == name:
                            at = flow.cfg.node_of(n)
                            out += self.roots(fi, n.value, at, path, depth - 1)
                            out += self.roots(fi, t.slice, at, path, depth - 1)  # dict iteration yields the keys
            except AnalysisError:
                continue
        return out

    @staticmethod
    def _param_key(owner: FuncInfo, user: FuncInfo, name: str) -> str:
        return name if owner is user else f"{owner.qualname}::{name}"

    @staticmethod
    def _param_key2(owner: FuncInfo, user: FuncInfo, key: str) -> str:
        if "::" in key or owner is user:
            return key if "::" in key else (key if owner is user else f"{owner.qualname}::{key}")
        return f"{owner.qualname}::{key}"

    def alias_paths(self, fi: FuncInfo) -> List[Tuple[str, ...]]:
        """May-alias summary of a method / property: every access path below `self` that some `return` hands out
        without a copy (`return self` gives the empty path)."""
        q = fi.qualname
        cache = self.__dict__.setdefault("_alias_paths", {})
        if q in cache:
            return cache[q]
        cache[q] = []
        out = set()
        try:
            flow = self.eng.flow(fi)
        except AnalysisError:
            return []
        if "self" not in fi.params:
            return []

        def paths_of(t, acc):
            if is_mark(t, "phi"):
                for a in t.args:
                    paths_of(a, acc)
                return
            if isinstance(t, ast.Call) and _call_name(t) == "copy" and len(t.args) == 1 and not t.keywords:
                inner = set()
                paths_of(t.args[0], inner)
                for q0 in inner:
                    if not (q0 and q0[0] == "<shallow>"):
                        acc.add(("<shallow>",) + q0)
                return
            p = []
            x = t
            while isinstance(x, (ast.Attribute, ast.Subscript)):
                if isinstance(x, ast.Subscript):
                    if isinstance(x.slice, ast.Slice):
                        return
                    p.append("[]")
                else:
                    p.append(x.attr)
                x = x.value
            if isinstance(x, ast.Name) and x.id == "self":
                acc.add(tuple(reversed(p)))
            elif isinstance(x, ast.Call) and isinstance(x.func, ast.Attribute) and x is not t and False:
                pass
            elif isinstance(x, ast.Call) and isinstance(x.func, ast.Attribute) and x.func.attr in ("get", "setdefault", "pop") :
                # d.get(k) hands out the stored element
                y = x.func.value
                q_ = ["[]"]
                while isinstance(y, (ast.Attribute, ast.Subscript)):
                    q_.append("[]" if isinstance(y, ast.Subscript) else y.attr)
                    y = y.value
                if isinstance(y, ast.Name) and y.id == "self":
                    acc.add(tuple(reversed(q_)) + tuple(reversed(p)))

        for r in [n for n in own_nodes(fi.node) if isinstance(n, ast.Return) and n.value is not None]:
            try:
                t = flow.expand(r.value, flow.cfg.node_of(r), depth=6)
            except AnalysisError:
                continue
            paths_of(t, out)
        cache[q] = sorted(out)
        return cache[q]

    def alias_accessor(self, fi: FuncInfo) -> Optional[Tuple[str, ...]]:
        """Method/property whose every return value is `self.<attrs>` (no copy): returns the path."""
        q = fi.qualname
        if q in self._alias_accessor:
            return self._alias_accessor[q]
        self._alias_accessor[q] = None
        rets = [n for n in own_nodes(fi.node) if isinstance(n, ast.Return) and n.value is not None]
        paths = set()
        flow = self.eng.flow(fi)
        for r in rets:
            t = flow.expand(r.value, flow.cfg.node_of(r), depth=6)
            p = []
            x = t
            while isinstance(x, ast.Attribute):
                p.append(x.attr)
                x = x.value
            if isinstance(x, ast.Name) and x.id == "self" and p:
                paths.add(tuple(reversed(p)))
            else:
                paths.add(None)
        if len(paths) == 1 and None not in paths:
            self._alias_accessor[q] = next(iter(paths))
        return self._alias_accessor[q]

    # ------------------------------------------------------------------ direct effects
    def direct(self, fi: FuncInfo) -> List[Tuple[Effect, str]]:
        out = []
        flow = self.eng.flow(fi)
        cfg = flow.cfg

        def add(obj_expr, extra_path, node, what):
            try:
                at = cfg.node_of(node)
            except AnalysisError:
                return
            for root, path in self.roots(fi, obj_expr, at):
                eff = (root, path + tuple(extra_path))
                out.append((eff, f"{fi.module.relpath}:{node.lineno} {what}"))
                self.sites.setdefault((fi.qualname, eff), []).append((fi, node))

        declared_global = set()
        for n in own_nodes(fi.node):
            if isinstance(n, ast.Global):
                declared_global.update(n.names)
        for n in own_nodes(fi.node):
            if isinstance(n, (ast.Assign, ast.AugAssign, ast.AnnAssign)) and declared_global:
                tg_ = n.targets if isinstance(n, ast.Assign) else [n.target]
                for t in tg_:
                    for x in ([t] if isinstance(t, ast.Name) else (list(t.elts) if isinstance(t, (ast.Tuple, ast.List)) else [])):
                        if isinstance(x, ast.Name) and x.id in declared_global:
                            g = self.global_root(fi, x.id) or f"@{fi.module.name}.{x.id}"
                            eff = (g, ())
                            out.append((eff, f"{fi.module.relpath}:{n.lineno} module-level `{x.id}` re-bound"))
                            self.sites.setdefault((fi.qualname, eff), []).append((fi, n))
            if isinstance(n, (ast.Assign, ast.AugAssign, ast.AnnAssign, ast.Delete)):
                tgs = n.targets if isinstance(n, (ast.Assign, ast.Delete)) else [n.target]
                flat = []
                for t in tgs:
                    if isinstance(t, (ast.Tuple, ast.List)):
                        flat += list(t.elts)
                    else:
                        flat.append(t)
                for t in flat:
                    if isinstance(t, ast.Attribute):
                        add(t.value, (t.attr,), n, f"store to {src(t)}")
                    elif isinstance(t, ast.Subscript):
                        add(t.value, ("[]",), n, f"element store/delete on {src(t.value)}")
                    elif isinstance(t, ast.Name) and isinstance(n, ast.AugAssign):
                        # in-place update of a mutable reached without copy: only when the value is a container path
                        defs = flow.reaching(t.id, cfg.node_of(n))
                        for d in defs:
                            if d.kind == "assign" and isinstance(d.value, ast.Call) and _call_name(d.value) in ALIAS_CALLS:
                                add(d.value, ("<inplace>",), n, f"in-place {src(n)[:40]} on an array obtained with {_call_name(d.value)} (no copy)")
                            if d.kind == "assign" and isinstance(d.value, (ast.Attribute, ast.Name)):
                                ts = self.eng.infer(d.value, fi)
                                container = any(x[0] in ("list", "ndarray", "dict") for x in ts) or (
                                    isinstance(d.value, ast.Attribute) and d.value.attr in CONTAINER_ATTRS
                                )
                                if container:
                                    add(d.value, ("<inplace>",), n, f"in-place {src(n)[:40]}")
            elif isinstance(n, ast.Call) and isinstance(n.func, ast.Attribute) and n.func.attr in MUT_METHODS:
                recv = n.func.value
                # only built-in containers: skip when the receiver resolves to a repo method of that name
                tg = [t for t in self.eng.resolve_call(fi, n) if isinstance(t, FuncInfo)]
                if not tg:
                    add(recv, ("<" + n.func.attr + ">",), n, f"{src(n.func)}(...)")
        return out

    # ------------------------------------------------------------------ fixpoint
    def _solve(self):
        eng = self.eng
        funcs = list(eng.prog.all_functions())
        for fi in funcs:
            s = set()
            for eff, why in self.direct(fi):
                s.add(eff)
                self.why.setdefault((fi.qualname, eff), why)
            self.mut[fi.qualname] = s
        # call edges with bindings
        edges = []
        for fi in funcs:
            flow = eng.flow(fi)
            for n in own_nodes(fi.node):
                if isinstance(n, ast.Call):
                    for tg in eng.resolve_call(fi, n):
                        callee = None
                        if isinstance(tg, FuncInfo):
                            callee = tg
                            ctor = False
                        elif isinstance(tg, ClassInfo):
                            callee = eng.prog.lookup_method(tg, "__init__")
                            ctor = True
                        if callee is None:
                            continue
                        edges.append((fi, n, callee, ctor))
            for attr_node, getter in eng.property_reads(fi):
                edges.append((fi, attr_node, getter, False))
            # nested functions: effects on closure variables propagate up as effects of the parent
        changed = True
        rounds = 0
        while changed and rounds < 30:
            changed = False
            rounds += 1
            for fi, node, callee, ctor in edges:
                cm = self.mut.get(callee.qualname, set())
                if not cm:
                    continue
                flow = eng.flow(fi)
                try:
                    at = flow.cfg.node_of(node)
                except AnalysisError:
                    continue
                for (pname, path) in list(cm):
                    if pname.startswith("@"):
                        eff = (pname, path)
                        if eff not in self.mut[fi.qualname]:
                            self.mut[fi.qualname].add(eff)
                            self.why.setdefault((fi.qualname, eff), f"via {callee.qualname} ← {self.why.get((callee.qualname, eff), '?')}")
                            self.sites.setdefault((fi.qualname, eff), list(self.sites.get((callee.qualname, eff), [])))
                            changed = True
                        continue
                    if "::" in pname:
                        # effect on a closure variable of an enclosing function of the callee
                        owner_q, var = pname.split("::", 1)
                        new = None
                        f = fi
                        while f is not None:
                            if f.qualname == owner_q:
                                new = (var if f is fi else pname, path)
                                break
                            f = f.parent
                        if new is None:
                            continue
                        effs = [new]
                    else:
                        arg = self._bind(callee, node, pname, ctor)
                        if arg is None:
                            continue
                        effs = [(r, p + tuple(path[-1:])) for r, p in self.roots(fi, arg, at, tuple(path[:-1]))]  # path[:-1] leads to the mutated object, path[-1] is the slot written
                    for eff in effs:
                        if len(eff[1]) > 8:
                            eff = (eff[0], eff[1][:4] + ("…",) + eff[1][-3:])
                        if eff not in self.mut[fi.qualname]:
                            self.mut[fi.qualname].add(eff)
                            self.why.setdefault((fi.qualname, eff), f"via {callee.qualname} ← {self.why.get((callee.qualname, (pname, path)), '?')}")
                            self.sites.setdefault((fi.qualname, eff), list(self.sites.get((callee.qualname, (pname, path)), [])))
                            changed = True
            # closures: a nested function's effects on its parent's variables are effects of the parent when it calls it
            # (handled through the '::' keys above)

    @staticmethod
    def _bind(callee: FuncInfo, node, pname: str, ctor: bool):
        params = callee.params
        if pname not in params:
            return None
        idx = params.index(pname)
        if isinstance(node, ast.Attribute):  # property read: only self
            return node.value if idx == 0 else None
        call = node
        is_method = callee.cls is not None and not callee.is_static
        if is_method:
            if idx == 0:
                if ctor:
                    return None  # the object under construction is fresh
                if isinstance(call.func, ast.Attribute):
                    v = call.func.value
                    if isinstance(v, ast.Call) and isinstance(v.func, ast.Name) and v.func.id == "super":
                        return ast.Name(id="self", ctx=ast.Load())
                    return v
                return None
            pos = idx - 1
        else:
            pos = idx
        if pos < len(call.args):
            return call.args[pos]
        for k in call.keywords:
            if k.arg == pname:
                return k.value
        return None
