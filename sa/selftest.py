#!/usr/bin/env python3
"""Self-test of the analysis.

`--engine`: built-in positive / negative examples for the engine primitives (CFG queries, reaching
definitions / provenance, formula decision, call resolution on the real package).  Used as
MANIFEST.setup_cmd.

`run_for_property(prop)`: the thorough tier — AST-computed breaking variants of the *current*
tree (each must be reported by the property's check, naming the broken rule) and behaviour-
preserving variants (must stay silent).  A miss or a false alarm is a defect of the checker:
exit 2 (`ANALYSIS-ERROR self-test ...`), never 1.
"""
from __future__ import annotations

import ast
import os
import sys
import textwrap

HERE = os.path.dirname(os.path.abspath(__file__))
sys.path.insert(0, os.path.dirname(HERE))

LAST_COVERAGE: dict = {}


def _func(src_text):
    tree = ast.parse(textwrap.dedent(src_text))
    for node in ast.walk(tree):
        for child in ast.iter_child_nodes(node):
            child._parent = node
    return tree.body[0]


def engine_selftest() -> int:
    from sa.cfg import CFG
    from sa.formula import Canon, equivalent, parse_expr, satisfiable

    fails = []

    def expect(name, cond):
        if not cond:
            fails.append(name)

    # --- CFG: must-pass / guards / raising branch
    f = _func(
        """
        def f(a, b):
            if not ok(a):
                raise E()
            x = g(a)
            while True:
                x = step(x)
                if done(x):
                    break
            try:
                y = h(x)
            except ValueError as exc:
                warn()
                raise exc
            return y
        """
    )
    cfg = CFG(f)
    body = f.body
    n_if, n_x, n_while, n_try, n_ret = (cfg.node_of(s) for s in body)
    expect("cfg.must_pass(if,x)", cfg.must_pass(n_if, n_x))
    expect("cfg.branch_raises(T)", cfg.branch_raises(n_if, "T"))
    expect("cfg.not branch_raises(F)", not cfg.branch_raises(n_if, "F"))
    step = cfg.node_of(body[2].body[0])
    expect("cfg.do-while step dominates return", cfg.must_pass(step, n_ret))
    expect("cfg.guards(x) has (if,F)", (n_if, "F") in cfg.guards(n_x))
    expect("cfg.in_loop(step)", cfg.in_loop(step))
    expect("cfg.not in_loop(ret)", not cfg.in_loop(n_ret))
    f2 = _func(
        """
        def f(a):
            if a:
                x = 1
            return 2
        """
    )
    c2 = CFG(f2)
    expect("cfg.negative: branch assignment does not dominate return", not c2.must_pass(c2.node_of(f2.body[0].body[0]), c2.node_of(f2.body[1])))

    # --- formulas
    def eq(a, b):
        return equivalent(Canon().formula(parse_expr(a)), Canon().formula(parse_expr(b)))[0]

    expect("formula: de morgan", eq("not (a == 1 and s[0] == '[')", "a != 1 or not s.startswith('[')"))
    expect("formula: range respelling", eq("x < 0 or x > 100", "not (0 <= x <= 100)"))
    expect("formula: range vs and (neg)", not eq("x < 0 or x > 100", "x < 0 and x > 100"))
    expect("formula: threshold moved (neg)", not eq("x < 0 or x > 100", "x < 0 or x > 1000"))
    expect("formula: >= vs > (neg)", not eq("m - s > t", "m - s >= t"))
    expect("formula: linear normal form", eq("m - s > t", "t < m - s") and eq("m - s > t", "not (m - s <= t)"))
    expect("formula: find<0 is not-contains", eq("s.find('}') < 0", "'}' not in s"))
    expect("formula: dead find+1<0", not satisfiable(Canon().formula(parse_expr("s.find('|') + 1 < 0"))))
    expect("formula: in-tuple", eq("c not in ('$', '<', '>')", "c != '$' and c != '<' and c != '>'"))

    # --- must-state analysis (pending text flushed before use)
    f3 = _func(
        """
        def f(xs):
            p = ""
            out = []
            for x in xs:
                if x.isalpha():
                    if len(p) != 0:
                        out.append(p)
                        p = ""
                    out.append(x)
                else:
                    p += x
            return out
        """
    )
    c3 = CFG(f3)
    loop = f3.body[2]
    flush_if = loop.body[0].body[0]
    clear = c3.node_of(flush_if.body[1])
    append_x = c3.node_of(loop.body[0].body[1])
    kill = c3.node_of(loop.body[0].orelse[0])
    tnode = c3.node_of(flush_if)
    gedge = {(tnode, d, l) for d, l in c3.succ[tnode] if l == "F"}
    st = c3.must_state({clear, c3.node_of(f3.body[0])}, {kill}, gedge)
    expect("must_state: pending empty at the atom append", st[append_x] is True)
    st2 = c3.must_state({c3.node_of(f3.body[0])}, {kill}, set())
    expect("must_state (neg): without the flush the fact does not hold", st2[append_x] is False)

    # --- A-NORM: trivial helper inlined, condition temporary propagated; a helper that returns from inside a loop is left alone
    from sa.normalise import normalise

    t = ast.parse(textwrap.dedent(
        """
        def _h(a, b):
            return a.find(b) < 0

        def _two(a):
            for x in a:
                if x:
                    return x
            return None

        def g(s, k):
            c = _h(s, k)
            if c:
                raise ValueError(s)
            return _two(k)
        """
    ))
    stats = normalise(t)
    gsrc = ast.unparse(t.body[2])
    expect("normalise: helper inlined and temporary propagated", "if s.find(k) < 0:" in gsrc and "c =" not in gsrc and stats["helpers_inlined"] == 1)
    expect("normalise (neg): helper with a return inside a loop kept", "_two(k)" in gsrc)

    # --- A-FRESH on a scratch package: a per-item verdict read in the next iteration is reported, a latch is not
    import shutil
    import tempfile

    tmp = tempfile.mkdtemp(prefix="sa_selftest_")
    try:
        os.makedirs(os.path.join(tmp, "src", "gbigsmiles"))
        with open(os.path.join(tmp, "src", "gbigsmiles", "m.py"), "w") as fh:
            fh.write(textwrap.dedent(
                """
                def stale(pairs, t):
                    ok = True
                    out = []
                    for a, b in pairs:
                        if isinstance(b, t):
                            ok = a.is_compatible(b)
                        if ok:
                            out.append((a, b))
                    return out

                def latch(xs):
                    first = True
                    for x in xs:
                        if first:
                            x.start()
                        first = False

                def fresh(pairs):
                    out = []
                    for a, b in pairs:
                        ok = a.is_compatible(b)
                        if ok:
                            out.append(a)
                    return out
                """
            ))
        from sa.engine import Engine as _E
        from sa.fresh import stale_reads

        e2 = _E(tmp)
        expect("fresh: stale per-item verdict reported", len(stale_reads(e2, e2.prog.func("m.stale"))) == 1)
        expect("fresh (neg): latch not reported", stale_reads(e2, e2.prog.func("m.latch")) == [])
        expect("fresh (neg): verdict assigned in the same iteration", stale_reads(e2, e2.prog.func("m.fresh")) == [])
    finally:
        shutil.rmtree(tmp, ignore_errors=True)

    # --- provenance on the real package + call resolution
    root = os.environ.get("VERIF_ROOT", "/repo")
    try:
        from sa.engine import Engine
        from sa.loader import own_nodes, src

        eng = Engine(root)
        expect("census empty", eng.census() == [])
        for fi in eng.prog.all_functions():
            eng.flow(fi)
        g = eng.callgraph()
        expect("calls: token.generate -> attach_other", "mol_gen.MolGen.attach_other" in g["token.SmilesToken.generate"])
        expect("calls: super().generate", "core.BigSMILESbase.generate" in g["stochastic.Stochastic.generate"])
        expect("calls: closure", "stochastic.Stochastic.generate.finalize_mol" in g["stochastic.Stochastic.generate.generate_repeat_units_and_finalize"])
        n_files = len(eng.prog.modules)
        expect("package has >= 18 modules", n_files >= 18)
    except Exception as exc:  # noqa: BLE001
        fails.append(f"engine on {root}: {type(exc).__name__}: {exc}")

    if fails:
        for f_ in fails:
            print(f"ANALYSIS-ERROR self-test engine: {f_}")
        return 2
    print("engine self-test: all built-in examples behave as expected")
    return 0


def run_for_property(prop: str, seed: int = 0, root: str = "/repo") -> int:
    try:
        from sa import variants
    except ImportError:
        LAST_COVERAGE.clear()
        LAST_COVERAGE.update({"selftest": "no variants module"})
        return 0
    return variants.run(prop, seed, root, LAST_COVERAGE)


def main(argv=None) -> int:
    argv = sys.argv[1:] if argv is None else argv
    if "--engine" in argv:
        return engine_selftest()
    if argv and argv[0].startswith("C"):
        return run_for_property(argv[0])
    print("usage: selftest.py --engine | <property id>")
    return 2


if __name__ == "__main__":
    sys.exit(main())
