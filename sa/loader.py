"""A-LOAD: parse the package from the working tree; module / class / function tables.

Pure standard library.  Never imports the analysed package.
"""
from __future__ import annotations

import ast
import hashlib
import os
from dataclasses import dataclass, field
from typing import Dict, Iterator, List, Optional

PACKAGE = "gbigsmiles"


class AnalysisError(Exception):
    """The analysis cannot speak (anchor vanished, unsupported construct, ...)."""


@dataclass
class Module:
    name: str
    path: str
    relpath: str
    source: str
    tree: ast.Module
    digest: str
    imports: Dict[str, tuple] = field(default_factory=dict)  # local name -> (module, name|None)


@dataclass
class FuncInfo:
    name: str
    qualname: str  # module.Class.func / module.func / module.Class.func.inner
    node: ast.AST
    module: Module
    cls: Optional["ClassInfo"]
    parent: Optional["FuncInfo"]
    nested: Dict[str, "FuncInfo"] = field(default_factory=dict)

    @property
    def params(self) -> List[str]:
        a = self.node.args
        return [x.arg for x in a.posonlyargs + a.args] + ([a.vararg.arg] if a.vararg else []) + [
            x.arg for x in a.kwonlyargs
        ] + ([a.kwarg.arg] if a.kwarg else [])

    @property
    def is_property(self) -> bool:
        for d in self.node.decorator_list:
            if isinstance(d, ast.Name) and d.id == "property":
                return True
        return False

    @property
    def is_setter(self) -> bool:
        for d in self.node.decorator_list:
            if isinstance(d, ast.Attribute) and d.attr == "setter":
                return True
        return False

    @property
    def is_static(self) -> bool:
        for d in self.node.decorator_list:
            if isinstance(d, ast.Name) and d.id in ("staticmethod",):
                return True
        return False

    def loc(self) -> str:
        return f"{self.module.relpath}:{self.node.lineno}"

    def enclosing_class(self) -> Optional["ClassInfo"]:
        f = self
        while f is not None:
            if f.cls is not None:
                return f.cls
            f = f.parent
        return None

    def outermost(self) -> "FuncInfo":
        f = self
        while f.parent is not None:
            f = f.parent
        return f


@dataclass
class ClassInfo:
    name: str
    qualname: str
    node: ast.ClassDef
    module: Module
    base_names: List[str]
    methods: Dict[str, List[FuncInfo]] = field(default_factory=dict)  # name -> defs (property+setter)
    outer: Optional["ClassInfo"] = None

    def method(self, name: str, setter: bool = False) -> Optional[FuncInfo]:
        for f in self.methods.get(name, []):
            if f.is_setter == setter:
                return f
        return None


_ANCHORS = None


def _anchor_names():
    """Names the rules use to anchor a function (string constants in sa/rules/*.py that look like private method names):
    a helper a rule anchors by name is left in place by A-NORM's helper inlining."""
    global _ANCHORS
    if _ANCHORS is None:
        import re

        out = set()
        rules_dir = os.path.join(os.path.dirname(os.path.abspath(__file__)), "rules")
        for fn in os.listdir(rules_dir) if os.path.isdir(rules_dir) else []:
            if fn.endswith(".py"):
                try:
                    t = ast.parse(open(os.path.join(rules_dir, fn), encoding="utf-8").read())
                except SyntaxError:
                    continue
                for n in ast.walk(t):
                    if isinstance(n, ast.Constant) and isinstance(n.value, str):
                        for m in re.findall(r"(?<![A-Za-z0-9_])_[a-z][a-z0-9_]*", n.value):
                            out.add(m)
        _ANCHORS = frozenset(out)
    return _ANCHORS


class Program:
    def __init__(self, root: str):
        self.root = os.path.abspath(root)
        self.pkgdir = os.path.join(self.root, "src", PACKAGE)
        if not os.path.isdir(self.pkgdir):
            raise AnalysisError(f"package directory {self.pkgdir} not found")
        self.modules: Dict[str, Module] = {}
        self.classes: Dict[str, ClassInfo] = {}
        self.functions: Dict[str, FuncInfo] = {}
        self.normalised: Dict[str, Dict[str, int]] = {}  # A-NORM statistics per file
        self._load()

    # ------------------------------------------------------------------ loading
    def _load(self):
        from .normalise import normalise, package_facts

        parsed = []
        for fn in sorted(os.listdir(self.pkgdir)):
            if not fn.endswith(".py"):
                continue
            path = os.path.join(self.pkgdir, fn)
            with open(path, "r", encoding="utf-8") as fh:
                src = fh.read()
            try:
                tree = ast.parse(src, filename=path)
            except SyntaxError as exc:
                raise AnalysisError(f"cannot parse {path}: {exc}") from exc
            parsed.append((fn, path, src, tree))
        facts = package_facts([t for _, _, _, t in parsed])  # package-wide signatures / never re-bound attributes (A-NORM (8), (9))
        for fn, path, src, tree in parsed:
            self.normalised[fn] = normalise(tree, keep=_anchor_names(), facts=facts)
            name = fn[:-3]
            mod = Module(
                name=name,
                path=path,
                relpath=os.path.join("src", PACKAGE, fn),
                source=src,
                tree=tree,
                digest=hashlib.sha256(src.encode()).hexdigest()[:16],
            )
            self.modules[name] = mod
            self._index_module(mod)

    def _index_module(self, mod: Module):
        for node in ast.walk(mod.tree):
            for child in ast.iter_child_nodes(node):
                child._parent = node  # type: ignore[attr-defined]
        for node in ast.walk(mod.tree):
            if isinstance(node, ast.ImportFrom):
                src = node.module or ""
                if node.level >= 1:
                    src = "." + src
                for al in node.names:
                    mod.imports[al.asname or al.name] = (src, al.name)
            elif isinstance(node, ast.Import):
                for al in node.names:
                    mod.imports[al.asname or al.name.split(".")[0]] = (al.name, None)
        self._index_body(mod, mod.tree.body, cls=None, parent=None, prefix=mod.name)

    def _index_body(self, mod, body, cls, parent, prefix):
        for node in body:
            if isinstance(node, (ast.FunctionDef, ast.AsyncFunctionDef)):
                self._index_function(mod, node, cls, parent, prefix)
            elif isinstance(node, ast.ClassDef):
                self._index_class(mod, node, cls, prefix)
            elif isinstance(node, (ast.If, ast.Try, ast.With, ast.For, ast.While)):
                # defs nested in compound statements at this level
                for sub in _sub_bodies(node):
                    self._index_body(mod, sub, cls, parent, prefix)

    def _index_function(self, mod, node, cls, parent, prefix):
        qual = f"{prefix}.{node.name}"
        fi = FuncInfo(name=node.name, qualname=qual, node=node, module=mod, cls=cls, parent=parent)
        # property + setter share a name: disambiguate qualname of the setter
        if fi.is_setter:
            fi.qualname = qual + ".setter"
        self.functions[fi.qualname] = fi
        if cls is not None and parent is None:
            cls.methods.setdefault(node.name, []).append(fi)
        if parent is not None:
            parent.nested[node.name] = fi
        self._index_body(mod, node.body, cls=None, parent=fi, prefix=fi.qualname)

    def _index_class(self, mod, node, outer, prefix):
        qual = f"{prefix}.{node.name}"
        bases = []
        for b in node.bases:
            bases.append(_dotted(b))
        ci = ClassInfo(name=node.name, qualname=qual, node=node, module=mod, base_names=bases, outer=outer)
        self.classes[node.name] = ci
        self._index_body(mod, node.body, cls=ci, parent=None, prefix=qual)

    # ------------------------------------------------------------------ queries
    def func(self, qualname: str) -> FuncInfo:
        try:
            return self.functions[qualname]
        except KeyError:
            raise AnalysisError(f"anchor function {qualname} not found") from None

    def func_opt(self, qualname: str) -> Optional[FuncInfo]:
        return self.functions.get(qualname)

    def cls(self, name: str) -> ClassInfo:
        try:
            return self.classes[name]
        except KeyError:
            raise AnalysisError(f"anchor class {name} not found") from None

    def bases(self, ci: ClassInfo) -> List[ClassInfo]:
        out = []
        for b in ci.base_names:
            last = b.split(".")[-1]
            if last in self.classes:
                out.append(self.classes[last])
        return out

    def mro(self, ci: ClassInfo) -> List[ClassInfo]:
        out, seen = [], set()

        def rec(c):
            if c.name in seen:
                return
            seen.add(c.name)
            out.append(c)
            for b in self.bases(c):
                rec(b)

        rec(ci)
        return out

    def is_subclass(self, ci: ClassInfo, base: str) -> bool:
        return any(c.name == base for c in self.mro(ci))

    def subclasses(self, base: str, strict: bool = False) -> List[ClassInfo]:
        return [
            c
            for c in self.classes.values()
            if self.is_subclass(c, base) and not (strict and c.name == base)
        ]

    def lookup_method(self, ci: ClassInfo, name: str, setter=False, skip_self=False) -> Optional[FuncInfo]:
        for c in self.mro(ci)[1 if skip_self else 0 :]:
            m = c.method(name, setter=setter)
            if m is not None:
                return m
        return None

    def resolve_name(self, mod: Module, name: str):
        """Resolve a module-level name to FuncInfo / ClassInfo / ('external', dotted)."""
        q = f"{mod.name}.{name}"
        if q in self.functions:
            return self.functions[q]
        if name in self.classes and self.classes[name].module is mod and self.classes[name].outer is None:
            return self.classes[name]
        if name in mod.imports:
            src, orig = mod.imports[name]
            if src.startswith("."):
                target = src[1:]
                if orig is None:
                    return ("external", name)
                if target == "":
                    # from . import x
                    if orig in self.modules:
                        return ("module", orig)
                    return ("external", orig)
                if target in self.modules:
                    tm = self.modules[target]
                    q2 = f"{target}.{orig}"
                    if q2 in self.functions:
                        return self.functions[q2]
                    if orig in self.classes and self.classes[orig].module is tm:
                        return self.classes[orig]
                    if orig in tm.imports:
                        return self.resolve_name(tm, orig)
                    return ("global", target, orig)
            return ("external", f"{src}.{orig}" if orig else src)
        return None

    def all_functions(self) -> Iterator[FuncInfo]:
        return iter(self.functions.values())

    def digests(self) -> Dict[str, str]:
        return {m.relpath: m.digest for m in self.modules.values()}


def _sub_bodies(node):
    for f in ("body", "orelse", "finalbody"):
        b = getattr(node, f, None)
        if b:
            yield b
    for h in getattr(node, "handlers", []) or []:
        yield h.body


def _dotted(node) -> str:
    if isinstance(node, ast.Name):
        return node.id
    if isinstance(node, ast.Attribute):
        return _dotted(node.value) + "." + node.attr
    return ast.dump(node)


def dotted(node) -> Optional[str]:
    """a.b.c -> 'a.b.c' for pure Name/Attribute chains, else None."""
    if isinstance(node, ast.Name):
        return node.id
    if isinstance(node, ast.Attribute):
        d = dotted(node.value)
        return None if d is None else d + "." + node.attr
    return None


def parent(node):
    return getattr(node, "_parent", None)


def enclosing_stmt(node):
    n = node
    while n is not None and not isinstance(n, ast.stmt):
        n = parent(n)
    return n


def own_nodes(func_node) -> Iterator[ast.AST]:
    """All AST nodes of a function body excluding nested function/class bodies
    (the nested def statement itself is included)."""
    stack = list(reversed(func_node.body))
    while stack:
        n = stack.pop()
        yield n
        if isinstance(n, (ast.FunctionDef, ast.AsyncFunctionDef, ast.ClassDef, ast.Lambda)):
            continue
        stack.extend(reversed(list(ast.iter_child_nodes(n))))


def calls_in(func_node) -> List[ast.Call]:
    return [n for n in own_nodes(func_node) if isinstance(n, ast.Call)]


_CTX = __import__("re").compile(r",? ?(Load|Store|Del)\(\)")


def norm(node) -> str:
    """Position-free, context-free structural dump."""
    return _CTX.sub("", ast.dump(node, annotate_fields=False, include_attributes=False))


def src(node) -> str:
    try:
        return ast.unparse(node)
    except Exception:  # pragma: no cover
        return "<?>"
