"""Name-agnostic matching of expression texts.

A pattern is source text with metavariables `$X` (one identifier each).  `solve(patterns, texts, env)` finds a
consistent binding of the metavariables such that every pattern equals (full match) one of the texts — this
makes rules invariant under renaming of local variables: the rule names the *roles*, the code supplies the names.
"""
from __future__ import annotations

import re
from typing import Dict, Iterable, List, Optional

_MV = re.compile(r"\$(\w+)")


def _regex(pattern: str, env: Dict[str, str]) -> re.Pattern:
    out = []
    pos = 0
    seen = set()
    for m in _MV.finditer(pattern):
        out.append(re.escape(pattern[pos:m.start()]))
        name = m.group(1)
        if name in env:
            out.append(re.escape(env[name]))
        elif name in seen:
            out.append(f"(?P={name})")
        else:
            out.append(f"(?P<{name}>[A-Za-z_][A-Za-z_0-9]*)")
            seen.add(name)
        pos = m.end()
    out.append(re.escape(pattern[pos:]))
    rx = "".join(out).replace(r"\ ", r"\s*")
    return re.compile(rx)


def unify(pattern: str, text: str, env: Optional[Dict[str, str]] = None) -> Optional[Dict[str, str]]:
    env = dict(env or {})
    m = _regex(pattern, env).fullmatch(text)
    if m is None:
        return None
    env.update({k: v for k, v in m.groupdict().items() if v is not None})
    return env


def solve(patterns: List[str], texts: Iterable[str], env: Optional[Dict[str, str]] = None) -> Optional[Dict[str, str]]:
    texts = list(texts)
    env = dict(env or {})

    def rec(i, e):
        if i == len(patterns):
            return e
        for t in texts:
            e2 = unify(patterns[i], t, e)
            if e2 is not None:
                r = rec(i + 1, e2)
                if r is not None:
                    return r
        return None

    return rec(0, env)


def subst(pattern: str, env: Dict[str, str]) -> str:
    return _MV.sub(lambda m: env.get(m.group(1), m.group(0)), pattern)


def matches(pattern: str, text: str, env: Optional[Dict[str, str]] = None) -> bool:
    return unify(pattern, text, env) is not None
