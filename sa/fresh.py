"""A-FRESH: loop-carried reads.

A local that is assigned only inside a loop body and read inside that body must be assigned on every path from the
loop head to the read — otherwise the read sees the value of a *previous* iteration (or nothing at all in the first
one).  Such a read is never an accumulator (those are initialised before the loop), so it is reported.

Path feasibility: inside `except AttributeError:` of a `try` that reads `X.a`, X is an instance of a class that lacks
`a`.  When the element classes of the notation are {SmilesToken, Stochastic} this decides `isinstance(X, SmilesToken)`
in the handler, and the impossible branch is not followed.
"""
from __future__ import annotations

import ast
from typing import Dict, List, Optional, Set, Tuple

from .cfg import within
from .loader import AnalysisError, own_nodes, src


def element_classes(eng) -> Set[str]:
    """Classes of the objects a Molecule holds as elements (what its constructor appends)."""
    fi = eng.prog.func("molecule.Molecule.__init__")
    out = set()
    for n in own_nodes(fi.node):
        if isinstance(n, ast.Call) and isinstance(n.func, ast.Attribute) and n.func.attr == "append" and src(n.func.value) == "self._elements" and n.args:
            for t in eng.infer(n.args[0], fi):
                if t[0] == "inst":
                    out.add(t[1])
    if not out:
        raise AnalysisError("element classes of Molecule not found")
    return out


def class_has_attr(eng, cname: str, attr: str, _seen=None) -> bool:
    _seen = _seen or set()
    if cname in _seen or cname not in eng.prog.classes:
        return False
    _seen.add(cname)
    ci = eng.prog.classes[cname]
    if attr in ci.methods:
        return True
    for st in ci.node.body:
        if isinstance(st, ast.Assign) and any(isinstance(t, ast.Name) and t.id == attr for t in st.targets):
            return True
        if isinstance(st, ast.AnnAssign) and isinstance(st.target, ast.Name) and st.target.id == attr:
            return True
    for fs in ci.methods.values():
        for f in fs:
            for n in ast.walk(f.node):
                if isinstance(n, ast.Attribute) and isinstance(n.ctx, ast.Store) and n.attr == attr and isinstance(n.value, ast.Name) and n.value.id == "self":
                    return True
    return any(class_has_attr(eng, b.split(".")[-1], attr, _seen) for b in ci.base_names)


def infeasible_edges(eng, fi, classes: Set[str]) -> Set[Tuple[int, int, str]]:
    cfg = eng.flow(fi).cfg
    out = set()
    for tr in [n for n in own_nodes(fi.node) if isinstance(n, ast.Try)]:
        reads: Dict[str, Set[str]] = {}
        for st in tr.body:
            for n in ast.walk(st):
                if isinstance(n, ast.Attribute) and isinstance(n.ctx, ast.Load) and isinstance(n.value, ast.Name):
                    reads.setdefault(n.value.id, set()).add(n.attr)
        for h in tr.handlers:
            if h.type is None or src(h.type) != "AttributeError":
                continue
            for t in [n for st in h.body for n in ast.walk(st) if isinstance(n, ast.If)]:
                test, neg = t.test, False
                while isinstance(test, ast.UnaryOp) and isinstance(test.op, ast.Not):
                    test, neg = test.operand, not neg
                if not (isinstance(test, ast.Call) and isinstance(test.func, ast.Name) and test.func.id == "isinstance" and len(test.args) == 2 and isinstance(test.args[0], ast.Name)):
                    continue
                x = test.args[0].id
                c = src(test.args[1]).split(".")[-1]
                if x not in reads or c not in classes:
                    continue
                lacking = {k for k in classes if any(not class_has_attr(eng, k, a) for a in reads[x])}
                if not lacking:
                    continue
                if lacking == {c}:
                    truth = True
                elif c not in lacking:
                    truth = False
                else:
                    continue
                if neg:
                    truth = not truth
                nid = cfg.node_of(t)
                dead = "F" if truth else "T"
                for dst, label in cfg.succ[nid]:
                    if label == dead:
                        out.add((nid, dst, label))
    return out


def stale_reads(eng, fi, classes: Optional[Set[str]] = None) -> List[Tuple[ast.Name, ast.AST, str]]:
    """[(read, loop, why)] for reads inside a loop of a local all of whose assignments lie in that loop's body and that
    some path from the loop head reaches without passing one of them."""
    fl = eng.flow(fi)
    cfg = fl.cfg
    dead = infeasible_edges(eng, fi, classes) if classes else set()
    by_name: Dict[str, list] = {}
    for d in fl.defs:
        by_name.setdefault(d.name, []).append(d)
    loops = [n for n in own_nodes(fi.node) if isinstance(n, (ast.For, ast.While))]
    out = []
    seen = set()
    for name, defs in by_name.items():
        if any(d.kind in ("global", "free", "import", "def") for d in defs):
            continue
        inner = [d for d in defs if d.stmt is not None and d.kind != "param"]
        for holder in loops:
            inside = [d for d in inner if within(d.stmt, holder.body)]
            if not inside:
                continue
            all_inside = len(inside) == len(defs)
            verdict = any(d.kind == "assign" and d.value is not None and not isinstance(d.value, ast.Constant) for d in inside)
            # (a) assigned only in this loop: a read before the assignment sees the previous item (or nothing);
            # (b) a per-item verdict (computed inside the loop): an initialisation outside the loop does not make a
            #     later item's read fresh.  Latches (only constants assigned inside) are loop-carried on purpose.
            if not (all_inside or verdict):
                continue
            head = cfg.node_of(holder)
            if any(d.nid == head or d.stmt is holder for d in defs):
                continue  # the loop's own target: assigned by the head in every iteration
            starts = [d for d, lab in cfg.succ[head] if lab == "T"]
            def_nodes = {d.nid for d in inside}
            for r in own_nodes(fi.node):
                if not (isinstance(r, ast.Name) and r.id == name and isinstance(r.ctx, ast.Load) and within(r, holder.body) and cfg.has(r)):
                    continue
                rn = cfg.node_of(r)
                reach = cfg.reachable(starts, avoid_nodes=(def_nodes - {rn}) | {head}, avoid_edges=dead)
                if rn not in reach:
                    continue
                if rn in def_nodes and not _reads_before_write(cfg.nodes[rn].stmt, name):
                    continue
                key = (name, rn)
                if key not in seen:
                    seen.add(key)
                    kind = "is assigned only inside" if all_inside else "receives a per-item value inside"
                    out.append((r, holder, f"`{name}` {kind} the loop at line {holder.lineno}, yet a path from the loop head reaches this read without an assignment in the same iteration"))
    return out


def _reads_before_write(st, name) -> bool:
    if isinstance(st, ast.AugAssign):
        return isinstance(st.target, ast.Name) and st.target.id == name
    if isinstance(st, ast.Assign):
        return any(isinstance(n, ast.Name) and n.id == name and isinstance(n.ctx, ast.Load) for n in ast.walk(st.value))
    return True


def _is_flag_use(r) -> bool:
    """the read is (an operand of not/and/or of) the test of an if / while / conditional expression"""
    n = r
    p = getattr(n, "_parent", None)
    while isinstance(p, (ast.BoolOp, ast.UnaryOp)) and (not isinstance(p, ast.UnaryOp) or isinstance(p.op, ast.Not)):
        n, p = p, getattr(p, "_parent", None)
    return isinstance(p, (ast.If, ast.While, ast.IfExp)) and p.test is n


def fresh_flags(eng, res, modules, rule="R-FRESH-FLAG") -> int:
    """Obligation per function of the given modules: no condition flag is read from a previous loop iteration."""
    classes = element_classes(eng)
    n = 0
    for q, fi in sorted(eng.prog.functions.items()):
        if fi.module.name not in modules:
            continue
        if not any(isinstance(x, (ast.For, ast.While)) for x in own_nodes(fi.node)):
            continue
        bad = [(r, lp, why) for r, lp, why in stale_reads(eng, fi, classes) if _is_flag_use(r)]
        res.unit(fi)
        res.ob(rule, fi, "loop-flags-fresh", "every flag tested inside a loop is assigned in the same iteration on every path to the test (no verdict carried over from the previous item)",
               bad[0][0] if bad else fi.node, not bad, "; ".join(f"line {r.lineno}: {why}" for r, lp, why in bad[:2]))
        n += 1
    return n


def stale_results(eng, fi) -> List[Tuple[ast.Name, ast.AST, str]]:
    """Reads *after* a loop of a local that is assigned only inside that loop: every way out of the loop (break, or the
    test turning false after at least one iteration) must pass an assignment in the iteration that leaves — otherwise
    the value of an earlier iteration is handed on."""
    fl = eng.flow(fi)
    cfg = fl.cfg
    by_name: Dict[str, list] = {}
    for d in fl.defs:
        by_name.setdefault(d.name, []).append(d)
    out = []
    for lp in [n for n in own_nodes(fi.node) if isinstance(n, (ast.For, ast.While))]:
        head = cfg.node_of(lp)
        starts = [d for d, lab in cfg.succ[head] if lab == "T"]
        breaks = [cfg.node_of(b) for b in ast.walk(lp) if isinstance(b, ast.Break) and cfg.has(b) and cfg.enclosing_loops(b)[:1] == [lp]]
        for name, defs in by_name.items():
            if any(d.kind in ("param", "global", "free", "import", "def") or d.stmt is None for d in defs):
                continue
            if not all(within(d.stmt, lp.body) for d in defs) or any(d.nid == head for d in defs):
                continue
            reads = [r for r in own_nodes(fi.node) if isinstance(r, ast.Name) and r.id == name and isinstance(r.ctx, ast.Load) and not within(r, lp) and cfg.has(r)
                     and cfg.node_of(r) in cfg.reachable([head])]
            if not reads:
                continue
            def_nodes = {d.nid for d in defs}
            reach = cfg.reachable(starts, avoid_nodes=def_nodes | {head}, skip_exc=True)
            stale_exits = [b for b in breaks if b in reach]
            # leaving through the loop test after a full iteration without an assignment
            back = [p for p, lab in cfg.pred[head] if p in reach and lab != "exc"]
            has_f = any(lab == "F" for _, lab in cfg.succ[head])
            if stale_exits or (has_f and back):
                ln = cfg.nodes[stale_exits[0]].stmt.lineno if stale_exits else lp.lineno
                out.append((reads[0], lp, f"`{name}` is assigned only inside the loop at line {lp.lineno}; the exit at line {ln} can be reached in an iteration that does not assign it, so the value of an earlier iteration (or none) is used after the loop"))
    return out


def fresh_results(eng, res, modules, rule="R-FRESH-RESULT") -> int:
    n = 0
    for q, fi in sorted(eng.prog.functions.items()):
        if fi.module.name not in modules:
            continue
        if not any(isinstance(x, (ast.For, ast.While)) for x in own_nodes(fi.node)):
            continue
        bad = stale_results(eng, fi)
        res.unit(fi)
        res.ob(rule, fi, "loop-result-fresh", "a value computed in a loop and used after it is assigned in the iteration that leaves the loop (never a leftover of an earlier iteration)",
               bad[0][0] if bad else fi.node, not bad, "; ".join(w for _, _, w in bad[:2]))
        n += 1
    return n
