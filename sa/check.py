#!/usr/bin/env python3
"""Entry point: `python sa/check.py <property id> [--tier quick|thorough] [--root DIR] [--explain FILE]`.

Exit codes: 0 = all obligations discharged (or only listed known findings), 1 = violation
(prints `VIOLATION property=<id> replay=<path>`), 2 = the analysis cannot speak (ANALYSIS-ERROR).
"""
from __future__ import annotations

import argparse
import importlib
import json
import os
import sys
import time
import traceback

HERE = os.path.dirname(os.path.abspath(__file__))
sys.path.insert(0, os.path.dirname(HERE))

from sa.engine import Engine  # noqa: E402
from sa.loader import AnalysisError  # noqa: E402
from sa.report import Result, finish  # noqa: E402

PROPS = [f"C{i:02d}" for i in range(1, 21)]


def run_property(prop: str, root: str, tier: str, seed: int, write: bool = True) -> int:
    t0 = time.time()
    try:
        eng = Engine(root)
        census = eng.census()
        mod = importlib.import_module(f"sa.rules.{prop.lower()}")
        res = Result(prop)
        if census:
            for c in census:
                print(f"ANALYSIS-ERROR property={prop} dynamic feature invalidates call/type resolution: {c}")
            return 2
        try:
            mod.check(eng, res)
        except Exception as exc:  # noqa: BLE001
            # a rule that ran to completion and found a violation has decided it on its own; a later rule that cannot
            # cope with the changed code must not turn that verdict into "cannot speak"
            from sa.report import load_known

            known = {k["key"] for k in load_known().get("known", []) if k.get("property") == prop}
            if not any((not o.ok) and o.key not in known for o in res.obligations):
                raise
            res.info(f"a later rule could not be evaluated on this code ({type(exc).__name__}: {exc}); the violations above were decided before it")
        level = getattr(mod, "LEVEL", "other")
        extra = None
        if hasattr(mod, "extra_coverage"):
            extra = mod.extra_coverage(eng, res)
        rc = finish(res, tier, seed, level, t0, eng.prog, extra, write=write)
        if tier == "thorough" and rc == 0 and os.path.abspath(root) == "/repo":
            from sa import selftest

            rc2 = selftest.run_for_property(prop, seed, root=root)
            if rc2 != 0:
                return rc2
            # re-write evidence with the self-test coverage included
            extra = dict(extra or {})
            extra.update(selftest.LAST_COVERAGE)
            import contextlib
            import io

            with contextlib.redirect_stdout(io.StringIO()):
                rc = finish(res, tier, seed, level, t0, eng.prog, extra, write=write)
        return rc
    except AnalysisError as exc:
        print(f"ANALYSIS-ERROR property={prop} {exc}")
        return 2
    except Exception as exc:  # noqa: BLE001 - the checker must never masquerade a crash as a violation
        traceback.print_exc()
        print(f"ANALYSIS-ERROR property={prop} internal error: {type(exc).__name__}: {exc}")
        return 2


def main(argv=None) -> int:
    ap = argparse.ArgumentParser()
    ap.add_argument("prop", choices=PROPS + ["all"])
    ap.add_argument("--tier", default=os.environ.get("VERIF_TIER", "quick"), choices=["quick", "thorough"])
    ap.add_argument("--root", default=os.environ.get("VERIF_ROOT", "/repo"))
    ap.add_argument("--explain", default=None, help="print a violations file in readable form")
    ap.add_argument("--no-evidence", action="store_true")
    args = ap.parse_args(argv)
    seed = int(os.environ.get("VERIF_SEED", "0") or 0)
    if args.explain:
        with open(args.explain) as fh:
            for o in json.load(fh):
                print(f"{o['loc']} {o['function']} — {o['rule']} — {o['instance']} — {o['verdict']} ({o['reason']})")
        return 0
    if args.prop == "all":
        worst = 0
        for p in PROPS:
            rc = run_property(p, args.root, args.tier, seed, write=not args.no_evidence)
            worst = max(worst, rc)
        return worst
    return run_property(args.prop, args.root, args.tier, seed, write=not args.no_evidence)


if __name__ == "__main__":
    sys.exit(main())
