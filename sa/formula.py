"""A-FINITE / A-ALG: boolean formulas over canonical atoms, decided by exhaustive enumeration.

A guard expression (already provenance-expanded) is translated into a formula tree
    ('and', [f..]) | ('or', [f..]) | ('not', f) | ('atom', key) | ('const', bool)
Atoms are canonicalised so that equivalent spellings coincide:
    a != b            -> not eq(a,b)              (operands ordered, constants to the right)
    a not in b        -> not in(a,b)
    x in (c1,c2,..)   -> or eq(x,ci)
    s[0] == 'c'       -> startswith(s,'c')        s[-1] == 'c' -> endswith(s,'c')
    s.startswith('c') -> startswith(s,'c')
    'c' in s          -> contains(s,'c');  s.find('c') < 0 / == -1 -> not contains(s,'c'); >= 0 -> contains
    x < c, x <= c ..  -> numeric atom on subject x with threshold c (region semantics)
    len(x) == 0 / not x (for sized x) are kept distinct from truthiness unless told otherwise
Two formulas are equivalent iff they agree on every valuation: boolean atoms range over
{False, True}; all numeric atoms on one subject are driven together by enumerating the order
regions induced by their thresholds (-inf,c1),{c1},(c1,c2),... which is exact for comparisons
against constants.  The enumeration is complete, so the answer is a decision, not a sample.
"""
from __future__ import annotations

import ast
import itertools
from typing import Callable, Dict, List, Optional, Set, Tuple

from .loader import AnalysisError, norm, src

Formula = tuple


def F_and(*fs):
    return ("and", list(fs))


def F_or(*fs):
    return ("or", list(fs))


def F_not(f):
    if f[0] == "not":
        return f[1]
    if f[0] == "const":
        return ("const", not f[1])
    return ("not", f)


def _num(e) -> Optional[float]:
    if isinstance(e, ast.Constant) and isinstance(e.value, (int, float)) and not isinstance(e.value, bool):
        return e.value
    if isinstance(e, ast.UnaryOp) and isinstance(e.op, ast.USub):
        v = _num(e.operand)
        return None if v is None else -v
    return None


def _strconst(e) -> Optional[str]:
    if isinstance(e, ast.Constant) and isinstance(e.value, str):
        return e.value
    return None


_FLIP = {ast.Lt: ast.Gt, ast.Gt: ast.Lt, ast.LtE: ast.GtE, ast.GtE: ast.LtE, ast.Eq: ast.Eq, ast.NotEq: ast.NotEq}
_OPNAME = {ast.Lt: "<", ast.Gt: ">", ast.LtE: "<=", ast.GtE: ">=", ast.Eq: "==", ast.NotEq: "!="}


def _is_find(e) -> Optional[Tuple[str, str]]:
    """X.find('c') with exactly one argument -> (norm(X), 'c')."""
    if (
        isinstance(e, ast.Call)
        and isinstance(e.func, ast.Attribute)
        and e.func.attr in ("find", "rfind")
        and len(e.args) == 1
        and _strconst(e.args[0]) is not None
    ):
        return norm(e.func.value), _strconst(e.args[0])
    return None


def linear(e) -> Optional[Tuple[Dict[str, float], float, Dict[str, ast.AST]]]:
    """Linear form sum(coef * term) + const over opaque terms (keyed by norm)."""
    terms: Dict[str, float] = {}
    nodes: Dict[str, ast.AST] = {}

    def rec(x, k) -> Optional[float]:
        v = _num(x)
        if v is not None:
            return k * v
        if isinstance(x, ast.BinOp) and isinstance(x.op, (ast.Add, ast.Sub)):
            a = rec(x.left, k)
            if a is None:
                return None
            b = rec(x.right, k if isinstance(x.op, ast.Add) else -k)
            if b is None:
                return None
            return a + b
        if isinstance(x, ast.UnaryOp) and isinstance(x.op, ast.USub):
            return rec(x.operand, -k)
        if isinstance(x, ast.UnaryOp) and isinstance(x.op, ast.UAdd):
            return rec(x.operand, k)
        if isinstance(x, ast.BinOp) and isinstance(x.op, ast.Mult):
            c = _num(x.left)
            if c is not None:
                return rec(x.right, k * c)
            c = _num(x.right)
            if c is not None:
                return rec(x.left, k * c)
        key = norm(x)
        terms[key] = terms.get(key, 0.0) + k
        nodes[key] = x
        return 0.0

    c = rec(e, 1.0)
    if c is None:
        return None
    terms = {k: v for k, v in terms.items() if abs(v) > 1e-12}
    return terms, c, nodes


class Canon:
    """Translate expressions to formulas with canonical atoms."""

    def __init__(self):
        self.atoms: Dict[tuple, str] = {}  # key -> printable
        self.numeric: Dict[str, Set[float]] = {}  # subject -> thresholds

    # -- public
    def formula(self, e, polarity: bool = True) -> Formula:
        f = self._f(e)
        return f if polarity else F_not(f)

    # -- translation
    def _atom(self, key, text) -> Formula:
        self.atoms.setdefault(key, text)
        return ("atom", key)

    def _f(self, e) -> Formula:
        if isinstance(e, ast.BoolOp):
            fs = [self._f(v) for v in e.values]
            return ("and", fs) if isinstance(e.op, ast.And) else ("or", fs)
        if isinstance(e, ast.UnaryOp) and isinstance(e.op, ast.Not):
            return F_not(self._f(e.operand))
        if isinstance(e, ast.Constant) and isinstance(e.value, bool):
            return ("const", e.value)
        if isinstance(e, ast.Compare):
            if len(e.ops) == 1:
                return self._cmp(e.left, e.ops[0], e.comparators[0])
            # chained a < b < c -> and
            fs = []
            left = e.left
            for op, right in zip(e.ops, e.comparators):
                fs.append(self._cmp(left, op, right))
                left = right
            return ("and", fs)
        if isinstance(e, ast.Call) and isinstance(e.func, ast.Attribute):
            a = e.func.attr
            if a in ("startswith", "endswith") and len(e.args) == 1 and _strconst(e.args[0]) is not None:
                return self._atom((a, norm(e.func.value), _strconst(e.args[0])), src(e))
        if isinstance(e, ast.Call) and isinstance(e.func, ast.Name) and e.func.id == "isinstance" and len(e.args) == 2:
            if isinstance(e.args[1], ast.Tuple) and e.args[1].elts:
                # isinstance(x, (A, B)) == isinstance(x, A) or isinstance(x, B)
                return ("or", [self._atom(("isinstance", norm(e.args[0]), norm(c)), f"isinstance({src(e.args[0])}, {src(c)})") for c in e.args[1].elts])
            return self._atom(("isinstance", norm(e.args[0]), norm(e.args[1])), src(e))
        if isinstance(e, ast.Call) and isinstance(e.func, ast.Name) and e.func.id == "bool" and len(e.args) == 1:
            return self._f(e.args[0])
        return self._atom(("truthy", norm(e)), src(e))

    def _cmp(self, left, op, right) -> Formula:
        t = type(op)
        if t is ast.NotEq:
            return F_not(self._cmp(left, ast.Eq(), right))
        if t is ast.NotIn:
            return F_not(self._cmp(left, ast.In(), right))
        if t is ast.IsNot:
            return F_not(self._cmp(left, ast.Is(), right))
        if t is ast.Is:
            a, b = sorted([norm(left), norm(right)])
            return self._atom(("is", a, b), f"{src(left)} is {src(right)}")
        if t is ast.In:
            if isinstance(right, (ast.Tuple, ast.List, ast.Set)):
                return ("or", [self._cmp(left, ast.Eq(), x) for x in right.elts])
            c = _strconst(left)
            if c is not None:
                return self._atom(("contains", norm(right), c), f"{c!r} in {src(right)}")
            return self._atom(("in", norm(left), norm(right)), f"{src(left)} in {src(right)}")
        # numeric / equality comparisons
        lnum, rnum = _num(left), _num(right)
        if lnum is not None and rnum is None:
            left, right, t = right, left, _FLIP[t]
            lnum, rnum = None, lnum
        if t in (ast.Lt, ast.LtE, ast.Gt, ast.GtE) or (t is ast.Eq and rnum is not None) or (
            t is ast.Eq and _num(left) is None and self._looks_numeric(left, right)
        ):
            # move everything to the left: (left - right) op 0, then isolate constant
            diff = ast.BinOp(left=left, op=ast.Sub(), right=right)
            lin = linear(diff)
            if lin is not None:
                terms, const, nodes = lin
                if terms:
                    # normalise sign: first key (sorted) positive coefficient
                    k0 = sorted(terms)[0]
                    sgn = 1.0 if terms[k0] > 0 else -1.0
                    scale = abs(terms[k0])
                    terms = {k: sgn * v / scale for k, v in terms.items()}
                    thr = -sgn * const / scale
                    if sgn < 0:
                        t = _FLIP[t]
                    subj = "+".join(f"{terms[k]:g}*{k}" for k in sorted(terms))
                    subj_txt = " + ".join(f"{terms[k]:g}*{src(nodes[k])}" for k in sorted(terms))
                    # find(...) special case: contains
                    if len(terms) == 1 and terms[k0] == 1.0:
                        fnd = _is_find(nodes[k0])
                        if fnd is not None:
                            reg = _region_set(t, thr)
                            # find returns -1 or >= 0
                            neg = _eval_regions(reg, -1)
                            pos = all(_eval_regions(reg, v) == _eval_regions(reg, 0) for v in (0, 1, 2, 5, 1000))
                            if pos:
                                zero = _eval_regions(reg, 0)
                                if neg and not zero:
                                    return F_not(self._atom(("contains", fnd[0], fnd[1]), f"{fnd[1]!r} in …"))
                                if zero and not neg:
                                    return self._atom(("contains", fnd[0], fnd[1]), f"{fnd[1]!r} in …")
                                return ("const", bool(zero))
                    # len(X) against a threshold that only separates 0 from the rest: emptiness of X, i.e. `X` / `not X`
                    if len(terms) == 1 and terms[k0] == 1.0:
                        nd = nodes[k0]
                        if isinstance(nd, ast.Call) and isinstance(nd.func, ast.Name) and nd.func.id == "len" and len(nd.args) == 1 and not nd.keywords:
                            reg = _region_set(t, thr)
                            zero = _eval_regions(reg, 0)
                            rest = {_eval_regions(reg, v) for v in (1, 2, 3, 5, 1000)}
                            if len(rest) == 1:
                                pos = rest.pop()
                                if zero == pos:
                                    return ("const", bool(zero))
                                tr = self._atom(("truthy", norm(nd.args[0])), src(nd.args[0]))
                                return tr if pos else F_not(tr)
                    self.numeric.setdefault(subj, set()).add(thr)
                    return self._atom(("num", subj, _OPNAME[t], thr), f"{subj_txt} {_OPNAME[t]} {thr:g}")
                # constant comparison
                return ("const", _eval_regions(_region_set(t, 0.0), const))
        if t is ast.Eq and isinstance(left, ast.Tuple) and isinstance(right, ast.Tuple) and len(left.elts) == len(right.elts):
            return ("and", [self._cmp(a, ast.Eq(), b) for a, b in zip(left.elts, right.elts)])
        if t is ast.Eq:
            # s[0] == 'c' / s[-1] == 'c'
            c = _strconst(right)
            if c is None and _strconst(left) is not None:
                left, right = right, left
                c = _strconst(right)
            if c is not None and isinstance(left, ast.Subscript) and len(c) == 1:
                i = _num(left.slice)
                if i == 0:
                    return self._atom(("startswith", norm(left.value), c), f"{src(left.value)}.startswith({c!r})")
                if i == -1:
                    return self._atom(("endswith", norm(left.value), c), f"{src(left.value)}.endswith({c!r})")
            if c is not None:
                return self._atom(("eq", norm(left), repr(c)), f"{src(left)} == {c!r}")
            a, b = sorted([norm(left), norm(right)])
            return self._atom(("eq", a, b), f"{src(left)} == {src(right)}")
        raise AnalysisError(f"unsupported comparison {src(left)} {t.__name__} {src(right)}")

    @staticmethod
    def _looks_numeric(left, right) -> bool:
        for x in (left, right):
            if isinstance(x, ast.Call) and isinstance(x.func, ast.Name) and x.func.id in ("len", "abs", "int", "float"):
                return True
            if isinstance(x, ast.Call) and isinstance(x.func, ast.Attribute) and x.func.attr in ("count", "find", "rfind", "index"):
                return True
            if isinstance(x, ast.BinOp) and isinstance(x.op, (ast.Add, ast.Sub)):
                return True
        return False


def _region_set(optype, thr):
    return (optype, thr)


def _eval_regions(reg, v) -> bool:
    t, thr = reg
    if t is ast.Lt:
        return v < thr
    if t is ast.LtE:
        return v <= thr
    if t is ast.Gt:
        return v > thr
    if t is ast.GtE:
        return v >= thr
    if t is ast.Eq:
        return v == thr
    raise AnalysisError("bad region op")


_OPS = {"<": lambda v, c: v < c, "<=": lambda v, c: v <= c, ">": lambda v, c: v > c, ">=": lambda v, c: v >= c, "==": lambda v, c: v == c}


def atoms_of(f: Formula, out=None) -> Set[tuple]:
    out = set() if out is None else out
    if f[0] == "atom":
        out.add(f[1])
    elif f[0] in ("and", "or"):
        for g in f[1]:
            atoms_of(g, out)
    elif f[0] == "not":
        atoms_of(f[1], out)
    return out


def evaluate(f: Formula, val: Callable[[tuple], bool]) -> bool:
    k = f[0]
    if k == "const":
        return f[1]
    if k == "atom":
        return val(f[1])
    if k == "not":
        return not evaluate(f[1], val)
    if k == "and":
        return all(evaluate(g, val) for g in f[1])
    if k == "or":
        return any(evaluate(g, val) for g in f[1])
    raise AnalysisError(f"bad formula node {k}")


def valuations(atoms: Set[tuple], constraints: Optional[Callable[[Dict[tuple, bool]], bool]] = None):
    """Enumerate all consistent valuations of the atoms (numeric atoms by regions)."""
    bool_atoms = sorted(a for a in atoms if a[0] != "num")
    num_subjects: Dict[str, List[tuple]] = {}
    for a in atoms:
        if a[0] == "num":
            num_subjects.setdefault(a[1], []).append(a)
    region_choices = []
    for subj, ats in sorted(num_subjects.items()):
        thr = sorted({a[3] for a in ats})
        pts = []
        for i, c in enumerate(thr):
            lo = thr[i - 1] if i > 0 else c - 2.0
            pts.append((lo + c) / 2.0 if i > 0 else c - 1.0)
            pts.append(c)
        pts.append(thr[-1] + 1.0)
        region_choices.append([(subj, ats, p) for p in pts])
    for bits in itertools.product([False, True], repeat=len(bool_atoms)):
        base = dict(zip(bool_atoms, bits))
        for combo in itertools.product(*region_choices) if region_choices else [()]:
            v = dict(base)
            for subj, ats, p in combo:
                for a in ats:
                    v[a] = _OPS[a[2]](p, a[3])
            if constraints is None or constraints(v):
                yield v


def _region_points(thresholds):
    thr = sorted(set(thresholds))
    pts = []
    for i, c in enumerate(thr):
        pts.append(c - 1.0 if i == 0 else (thr[i - 1] + c) / 2.0)
        pts.append(c)
    pts.append(thr[-1] + 1.0)
    return pts


def _domain_points(subject: str, pts, thresholds):
    """What is known about the values of a numeric subject that is a single call: `x.find(..)` / `x.rfind(..)` are integers
    >= -1, `len(..)` / `x.count(..)` / `x.index(..)` integers >= 0.  Representative points outside the domain are dropped; a
    non-integral representative of an open region is replaced by an integer of that region when there is one."""
    import math
    import re as _re

    m = _re.match(r"^1(\.0)?\*Call\((Attribute\(.*?, '(find|rfind|count|index)'\)|Name\('len'\))", subject)
    if not m or subject.count("*Call(") + subject.count("*Name(") + subject.count("*Attribute(") + subject.count("*Subscript(") != 1:
        return pts
    low = -1 if m.group(3) in ("find", "rfind") else 0
    thr = sorted(set(thresholds))
    out = []
    for p_ in pts:
        if p_ < low:
            continue
        if float(p_).is_integer():
            out.append(p_)
            continue
        lo = max([t for t in thr if t < p_], default=None)
        hi = min([t for t in thr if t > p_], default=None)
        cands = [math.floor(p_), math.ceil(p_)]
        ok = [c for c in cands if (lo is None or c > lo) and (hi is None or c < hi) and c >= low]
        if ok:
            out.append(float(ok[0]))
    return out or pts


def eval3(f: Formula, bools: Dict[tuple, bool], nums: Dict[str, float]):
    """Three-valued evaluation under a partial assignment (None = undetermined)."""
    k = f[0]
    if k == "const":
        return f[1]
    if k == "atom":
        a = f[1]
        if a[0] == "num":
            p = nums.get(a[1])
            return None if p is None else _OPS[a[2]](p, a[3])
        return bools.get(a)
    if k == "not":
        v = eval3(f[1], bools, nums)
        return None if v is None else (not v)
    if k == "and":
        und = False
        for g in f[1]:
            v = eval3(g, bools, nums)
            if v is False:
                return False
            if v is None:
                und = True
        return None if und else True
    if k == "or":
        und = False
        for g in f[1]:
            v = eval3(g, bools, nums)
            if v is True:
                return True
            if v is None:
                und = True
        return None if und else False
    raise AnalysisError(f"bad formula node {k}")


def _first_undetermined(f: Formula, bools, nums):
    k = f[0]
    if k == "atom":
        a = f[1]
        if a[0] == "num":
            return ("num", a[1]) if a[1] not in nums else None
        return ("bool", a) if a not in bools else None
    if k == "not":
        return _first_undetermined(f[1], bools, nums)
    if k in ("and", "or"):
        for g in f[1]:
            if eval3(g, bools, nums) is None:
                r = _first_undetermined(g, bools, nums)
                if r is not None:
                    return r
    return None


def find_model(f: Formula, budget: int = 2_000_000):
    """A (partial) assignment making f true, or None: complete backtracking search over boolean atoms
    and, per numeric subject, the order regions induced by all its thresholds."""
    thresholds: Dict[str, Set[float]] = {}
    for a in atoms_of(f):
        if a[0] == "num":
            thresholds.setdefault(a[1], set()).add(a[3])
    points = {s: _domain_points(s, _region_points(t), t) for s, t in thresholds.items()}
    steps = [0]

    def rec(bools, nums):
        steps[0] += 1
        if steps[0] > budget:
            raise AnalysisError("formula search budget exceeded")
        v = eval3(f, bools, nums)
        if v is True:
            return dict(bools), dict(nums)
        if v is False:
            return None
        var = _first_undetermined(f, bools, nums)
        if var is None:
            return None
        if var[0] == "bool":
            for b in (True, False):
                bools[var[1]] = b
                r = rec(bools, nums)
                if r is not None:
                    return r
            del bools[var[1]]
            return None
        for p in points[var[1]]:
            nums[var[1]] = p
            r = rec(bools, nums)
            if r is not None:
                return r
        del nums[var[1]]
        return None

    return rec({}, {})


def satisfiable(f: Formula, constraints=None) -> bool:
    return find_model(f) is not None


def implies(f: Formula, g: Formula):
    """f => g ?  Returns (ok, countermodel)."""
    m = find_model(("and", [f, F_not(g)]))
    return m is None, m


def equivalent(f: Formula, g: Formula, constraints=None) -> Tuple[bool, Optional[dict], int]:
    m = find_model(("or", [("and", [f, F_not(g)]), ("and", [g, F_not(f)])]))
    return m is None, m, 0


def show(f: Formula, canon: Optional[Canon] = None) -> str:
    k = f[0]
    if k == "const":
        return str(f[1])
    if k == "atom":
        if canon is not None and f[1] in canon.atoms:
            return canon.atoms[f[1]]
        return str(f[1])
    if k == "not":
        return f"not ({show(f[1], canon)})"
    j = " and " if k == "and" else " or "
    return "(" + j.join(show(g, canon) for g in f[1]) + ")"


def parse_expr(text: str) -> ast.AST:
    return ast.parse(text, mode="eval").body


def rebuild(e, fn):
    """Structural copy of an expression tree (no deepcopy: terms may carry parent links);
    fn(node) may return a replacement for a node."""
    import copy as _copy

    r = fn(e)
    if r is not None:
        return r
    if not isinstance(e, ast.AST):
        return e
    new = e.__class__()
    for field, val in ast.iter_fields(e):
        if isinstance(val, ast.AST):
            setattr(new, field, rebuild(val, fn))
        elif isinstance(val, list):
            setattr(new, field, [rebuild(v, fn) if isinstance(v, ast.AST) else v for v in val])
        else:
            setattr(new, field, val)
    return new


def substitute(e: ast.AST, mapping: Dict[str, ast.AST]) -> ast.AST:
    """Replace Name placeholders by terms."""

    def fn(node):
        if isinstance(node, ast.Name) and node.id in mapping:
            return mapping[node.id]
        return None

    return rebuild(e, fn)
