"""Obligations, verdicts, evidence files, known findings."""
from __future__ import annotations

import json
import os
import time
from dataclasses import dataclass, field
from typing import Dict, List, Optional

VERIF = os.path.dirname(os.path.dirname(os.path.abspath(__file__)))
EVIDENCE_DIR = os.path.join(VERIF, "evidence")
KNOWN_FINDINGS = os.path.join(VERIF, "known_findings.json")


@dataclass
class Obligation:
    rule: str
    function: str  # qualified function (or 'package')
    role: str  # role key of the construct; stable under re-formatting
    instance: str  # human description
    loc: str  # file:line (diagnostic only, never a key)
    ok: bool
    reason: str = ""
    info: bool = False  # informational only (never a verdict)
    soft: bool = False  # the rule could not recognise the construct it looks for (not evidence against the property): exit 2, not 1

    @property
    def key(self) -> str:
        return f"{self.rule}|{self.function}|{self.role}"

    def line(self) -> str:
        v = "DISCHARGED" if self.ok else "VIOLATED"
        r = f" ({self.reason})" if self.reason and not self.ok else ""
        return f"{self.loc} {self.function} — {self.rule} — {self.instance} — {v}{r}"

    def as_json(self) -> dict:
        return {
            "rule": self.rule,
            "function": self.function,
            "role": self.role,
            "instance": self.instance,
            "loc": self.loc,
            "verdict": "discharged" if self.ok else "violated",
            "reason": self.reason,
        }


class Result:
    def __init__(self, prop: str):
        self.prop = prop
        self.obligations: List[Obligation] = []
        self.infos: List[str] = []
        self.floors: Dict[str, tuple] = {}  # rule -> (found, minimum)
        self.units: List[str] = []
        self.assumptions: List[str] = []
        self.not_decided: List[str] = []
        self.rules_doc: Dict[str, str] = {}

    def ob(self, rule, fi_or_name, role, instance, node_or_loc, ok, reason="", soft=None):
        if hasattr(fi_or_name, "qualname"):
            fn = fi_or_name.qualname
            if hasattr(node_or_loc, "lineno"):
                loc = f"{fi_or_name.module.relpath}:{node_or_loc.lineno}"
            elif isinstance(node_or_loc, str):
                loc = node_or_loc
            else:
                loc = fi_or_name.loc()
        else:
            fn = str(fi_or_name)
            loc = node_or_loc if isinstance(node_or_loc, str) else "-"
        o = Obligation(rule, fn, role, instance, loc, bool(ok), reason)
        if not o.ok:
            o.soft = bool(soft) if soft is not None else unrecognised(rule, role, reason)
        self.obligations.append(o)
        return o

    def info(self, text: str):
        self.infos.append(text)

    def floor(self, rule: str, found: int, minimum: int):
        self.floors[rule] = (found, minimum)

    def unit(self, fi):
        q = fi.qualname if hasattr(fi, "qualname") else str(fi)
        if q not in self.units:
            self.units.append(q)

    def doc(self, rule: str, text: str):
        self.rules_doc[rule] = text


# A failed obligation is *soft* when the rule did not find / could not classify the construct it reasons about: that is
# "the analysis cannot speak about code of this shape" (exit 2), not evidence that the property is broken (exit 1).
# Deleting a mechanism and re-writing it beyond recognition look the same to such a rule; where a rule can tell them
# apart it passes soft= explicitly.  The patterns below cover the rules' generic "not found" wordings.
import re as _re

_SOFT_REASON = _re.compile(
    r"^(0 site\(s\)|0 (append|restore|start|growth|accumulation|loop|static|residue|mass-comparing|MolFromSmiles)\b|no (loop|finalisation closure|growth|element dispatch|rng\.choice in|attach_other in|test `|guarded AddBond|traversal of this system|statement)|"
    r"statement pattern .* not found|look-ahead not found|loop shape not recognised|dispatches to None|\[\(None, None\)|got (self\._|[A-Za-z_]+$))"
    r"|'other:|\bother:|not found in a recognised form|cannot be (evaluated|normalised)|outside the (abstract domain|interval evaluator)|is obtained in a way the an"
)
_SOFT_ROLE = _re.compile(r"^present:")
_HARD_RULES = {"R-GUARD-INVENTORY", "R-GUARD-REACHED", "R-COMPAT-TABLE", "R-COMPAT-READSET"}


_SOFT_TABLE = None


def _norm_role(r: str) -> str:
    r = _re.sub(r"@\d+", "@N", r or "")
    r = _re.sub(r"__i\d+", "", r)
    return r[:60]


def _soft_table():
    global _SOFT_TABLE
    if _SOFT_TABLE is None:
        p_ = os.path.join(os.path.dirname(os.path.abspath(__file__)), "soft_roles.json")
        try:
            _SOFT_TABLE = {tuple(x) for x in json.load(open(p_))["roles"]}
        except Exception:  # noqa: BLE001
            _SOFT_TABLE = set()
    return _SOFT_TABLE


_HARD_TABLE = None


def _hard_table():
    global _HARD_TABLE
    if _HARD_TABLE is None:
        p_ = os.path.join(os.path.dirname(os.path.abspath(__file__)), "soft_roles.json")
        try:
            _HARD_TABLE = {tuple(x) for x in json.load(open(p_)).get("hard_roles", [])}
        except Exception:  # noqa: BLE001
            _HARD_TABLE = set()
    return _HARD_TABLE


def unrecognised(rule: str, role: str, reason: str) -> bool:
    if (rule, _norm_role(role)) in _hard_table():
        return False
    if (rule, _norm_role(role)) in _soft_table():
        return True
    if rule == "R-COMPAT-TABLE" and role == "evaluable":
        return True  # the decision function left the fragment the finite-domain evaluator reads (R-COMPAT-READSET still speaks)
    if rule in _HARD_RULES:
        return False
    if _SOFT_ROLE.search(role or "") and (reason or "").startswith("0 site"):
        return True
    return bool(_SOFT_REASON.search(reason or ""))


def load_known() -> dict:
    if not os.path.exists(KNOWN_FINDINGS):
        return {"known": [], "fixed": []}
    with open(KNOWN_FINDINGS) as fh:
        return json.load(fh)


def finish(res: Result, tier: str, seed: int, level: str, t0: float, program, extra_cov: Optional[dict] = None,
           write: bool = True) -> int:
    """Print the report, write evidence, return the exit code."""
    known = load_known()
    known_keys = {k["key"]: k for k in known.get("known", []) if k.get("property") == res.prop}
    violated = [o for o in res.obligations if not o.ok]
    listed = [o for o in violated if o.key in known_keys]
    unlisted_all = [o for o in violated if o.key not in known_keys]
    unlisted = [o for o in unlisted_all if not o.soft]
    soft = [o for o in unlisted_all if o.soft]
    floor_errors = [f"{r}: found {f} instance(s), minimum confirmed by hand {m}" for r, (f, m) in res.floors.items() if f < m]

    for o in res.obligations:
        print(o.line())
    for i in res.infos:
        print(f"INFO: {i}")
    for o in listed:
        print(f"KNOWN-FINDING: property={res.prop} {o.key} — {known_keys[o.key].get('what', o.instance)}")

    n_ob = len(res.obligations)
    n_ok = sum(1 for o in res.obligations if o.ok)
    by_rule: Dict[str, List[int]] = {}
    for o in res.obligations:
        b = by_rule.setdefault(o.rule, [0, 0])
        b[0] += 1
        b[1] += 1 if o.ok else 0

    cov = {
        "explanation": (
            "static necessary-condition analysis over all paths of the current source of /repo "
            "(syntax tree, resolved calls, per-function CFG, reaching definitions / provenance); "
            "decides the listed structural clauses for every input, not the behaviour itself"
        ),
        "obligations": n_ob,
        "discharged": n_ok,
        "violated_known": len(listed),
        "rules": {r: {"instances": a, "discharged": b, "what": res.rules_doc.get(r, "")} for r, (a, b) in sorted(by_rule.items())},
        "vacuity_floors": {r: {"found": f, "minimum": m} for r, (f, m) in res.floors.items()},
        "functions_analysed": res.units,
        "files": program.digests() if program is not None else {},
        "samples": [o.as_json() for o in res.obligations[:40]],
        "not_decided": res.not_decided,
        "known_findings_matched": [o.key for o in listed],
        "information": res.infos,
        "exhaustive": False,
    }
    if extra_cov:
        cov.update(extra_cov)
    ev = {
        "property_id": res.prop,
        "tier": tier,
        "seed": int(seed),
        "level": level,
        "coverage": cov,
        "assumptions": res.assumptions,
        "wall_s": round(time.time() - t0, 3),
        "violations": len(unlisted),
        "undecided": len(soft),
    }
    if write:
        os.makedirs(EVIDENCE_DIR, exist_ok=True)
        with open(os.path.join(EVIDENCE_DIR, f"{res.prop}.json"), "w") as fh:
            json.dump(ev, fh, indent=1, sort_keys=False)
            fh.write("\n")

    print(
        f"SUMMARY property={res.prop} tier={tier} obligations={n_ob} discharged={n_ok} "
        f"known={len(listed)} violated={len(unlisted)} functions={len(res.units)}"
    )
    for o in soft:
        print(f"UNRECOGNISED: {o.line()}")
    if soft and not unlisted:
        print(f"ANALYSIS-ERROR property={res.prop} the code no longer has the shape {len(soft)} obligation(s) of this check reason about "
              f"(rules {sorted({o.rule for o in soft})}): they could not be decided — this is not a statement about the property")
        return 2
    if floor_errors and not unlisted:
        for f in floor_errors:
            print(f"ANALYSIS-ERROR property={res.prop} vacuity floor not met — {f}")
        return 2
    for f in floor_errors:
        print(f"INFO: vacuity floor not met — {f}")
    if unlisted:
        replay = os.path.join(EVIDENCE_DIR, f"{res.prop}.violations.json")
        if write:
            with open(replay, "w") as fh:
                json.dump([o.as_json() for o in unlisted], fh, indent=1)
                fh.write("\n")
        for o in unlisted:
            print(f"VIOLATED: {o.line()}")
        print(f"VIOLATION property={res.prop} replay={replay}")
        return 1
    else:
        replay = os.path.join(EVIDENCE_DIR, f"{res.prop}.violations.json")
        if write and os.path.exists(replay):
            os.remove(replay)
    return 0
