"""Canonical literal sets of (conjunctive) guards.

A guard such as `0 == len(x) and not flag` becomes the set {('num', 1*len(x), '==', 0), (('truthy', flag), False)}:
comparisons are oriented and normalised by `formula.Canon` (constant to the right, linear forms, find/contains,
startswith), polarity is folded into numeric operators, conjunctions (and negated disjunctions) are flattened.
Rules compare these sets instead of source text, so `x > 0` / `0 < x`, `if c: A else: B` / `if not c: B else: A`
and `not a == b` / `a != b` are the same to them.
"""
from __future__ import annotations

import ast
from typing import FrozenSet, Iterable, Optional

from .cfg import within as _within
from .formula import Canon, show
from .loader import AnalysisError, norm, src

COMPL = {"<": ">=", "<=": ">", ">": "<=", ">=": "<", "==": "!=", "!=": "=="}


def _leaf(f, pol) -> tuple:
    k = f[0]
    if k == "not":
        return _leaf(f[1], not pol)
    if k == "const":
        return ("const", bool(f[1]) == pol)
    if k == "atom":
        key = f[1]
        if key[0] == "num":
            op = key[2] if pol else COMPL[key[2]]
            return ("num", key[1], op, key[3])
        return (key, pol)
    return ("complex", _cx(f, pol))


def _cx(f, pol) -> str:
    k = f[0]
    if k == "not":
        return _cx(f[1], not pol)
    if k in ("and", "or"):
        kk = k if pol else ("or" if k == "and" else "and")
        return kk + "(" + ",".join(sorted(_cx(g, pol) for g in f[1])) + ")"
    return repr(_leaf(f, pol))


def _flatten(f, pol, out):
    k = f[0]
    if k == "not":
        _flatten(f[1], not pol, out)
    elif (k == "and" and pol) or (k == "or" and not pol):
        for g in f[1]:
            _flatten(g, pol, out)
    else:
        out.add(_leaf(f, pol))


def lits(expr, pol: bool = True) -> FrozenSet[tuple]:
    can = Canon()
    try:
        f = can.formula(expr)
    except AnalysisError:
        return frozenset({("opaque", norm(expr), pol)})
    out = set()
    _flatten(f, pol, out)
    out.discard(("const", True))
    return frozenset(out)


def lits_text(text: str, pol: bool = True) -> FrozenSet[tuple]:
    return lits(ast.parse(text, mode="eval").body, pol)


def guard_lits(flow, node, mode: str = "raw", inside=None, drop_raise_context: bool = False) -> FrozenSet[tuple]:
    """Literals of all If-guards on every path to `node` (tests expanded according to `mode`)."""
    cfg = flow.cfg
    nid = cfg.node_of(node)
    out = set()
    for gn, label in sorted(cfg.guards(nid)):
        st = cfg.nodes[gn].stmt
        if not isinstance(st, ast.If):
            continue
        if inside is not None and not _within(st, inside):
            continue
        if drop_raise_context and cfg.branch_raises(gn, "F" if label == "T" else "T"):
            continue
        t = st.test
        if mode == "names":
            t = flow.expand_names(t, gn)
        elif mode == "shallow":
            t = flow.expand_shallow(t, gn)
        elif mode == "ssa":
            t = flow.expand_ssa(t, gn)
        out |= lits(t, label == "T")
    return frozenset(out)


def has(lset: Iterable[tuple], text: str, pol: bool = True) -> bool:
    """All literals of `text` are in the set."""
    return lits_text(text, pol) <= frozenset(lset)


def show_lits(lset) -> str:
    def one(l):
        if l[0] == "num":
            return f"{l[1]} {l[2]} {l[3]:g}"
        if l[0] in ("complex", "opaque", "const"):
            return str(l[1:])
        key, pol = l
        return ("" if pol else "not ") + ":".join(str(x)[:50] for x in key)

    return "{" + "; ".join(sorted(one(l) for l in lset)) + "}"
