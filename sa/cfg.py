"""A-CFG: hand-built statement-level control-flow graph for one function.

Node kinds: entry, exit (normal return / fall off), raise (exceptional exit), stmt (simple
statement), test (If / While test), foriter (iterable evaluated once), for (loop head: next item),
with, try, except, join.
Edge labels: None, 'T', 'F', 'exc'.
"""
from __future__ import annotations

import ast
from typing import Dict, Iterable, List, Optional, Set, Tuple

from .loader import AnalysisError

Edge = Tuple[int, int, Optional[str]]


class Node:
    __slots__ = ("id", "kind", "stmt")

    def __init__(self, id, kind, stmt):
        self.id = id
        self.kind = kind
        self.stmt = stmt

    def __repr__(self):
        ln = getattr(self.stmt, "lineno", "-")
        return f"<{self.id}:{self.kind}@{ln}>"


def _is_const_true(test) -> bool:
    return isinstance(test, ast.Constant) and bool(test.value) is True


class CFG:
    def __init__(self, func_node):
        self.func = func_node
        self.nodes: List[Node] = []
        self.succ: Dict[int, List[Tuple[int, Optional[str]]]] = {}
        self.pred: Dict[int, List[Tuple[int, Optional[str]]]] = {}
        self._by_stmt: Dict[int, int] = {}
        self._foriter: Dict[int, int] = {}
        self.entry = self._new("entry", None)
        self.exit = self._new("exit", None)
        self.raise_exit = self._new("raise", None)
        self._loops: List[dict] = []
        self._tries: List[List[int]] = []  # stack of handler-entry lists
        out = self._block(func_node.body, [(self.entry, None)])
        self._connect(out, self.exit)
        self._dom = None
        self._stmt_loop: Dict[int, List[ast.AST]] = {}
        self.flow = None  # set by dataflow.Flow: lets guard_exprs see through hoisted conditions

    # ------------------------------------------------------------------ construction
    def _new(self, kind, stmt) -> int:
        n = Node(len(self.nodes), kind, stmt)
        self.nodes.append(n)
        self.succ[n.id] = []
        self.pred[n.id] = []
        return n.id

    def _edge(self, a, b, label=None):
        if (b, label) not in self.succ[a]:
            self.succ[a].append((b, label))
            self.pred[b].append((a, label))

    def _connect(self, dangling, target):
        for a, label in dangling:
            self._edge(a, target, label)

    def _exc_targets(self) -> List[int]:
        if self._tries:
            return self._tries[-1]
        return [self.raise_exit]

    def _block(self, stmts, incoming):
        cur = incoming
        for s in stmts:
            cur = self._stmt(s, cur)
        return cur

    def _stmt(self, s, incoming):
        if isinstance(s, ast.If):
            n = self._new("test", s)
            self._by_stmt[id(s)] = n
            self._connect(incoming, n)
            self._implicit_exc(n)
            t_out = self._block(s.body, [(n, "T")])
            f_out = self._block(s.orelse, [(n, "F")]) if s.orelse else [(n, "F")]
            return t_out + f_out
        if isinstance(s, ast.While):
            n = self._new("test", s)
            self._by_stmt[id(s)] = n
            self._connect(incoming, n)
            self._implicit_exc(n)
            loop = {"head": n, "breaks": []}
            self._loops.append(loop)
            body_out = self._block(s.body, [(n, "T")])
            self._loops.pop()
            self._connect(body_out, n)
            out = []
            if not _is_const_true(s.test):
                if s.orelse:
                    out += self._block(s.orelse, [(n, "F")])
                else:
                    out += [(n, "F")]
            out += loop["breaks"]
            return out
        if isinstance(s, (ast.For, ast.AsyncFor)):
            it = self._new("foriter", s)
            self._foriter[id(s)] = it
            self._connect(incoming, it)
            self._implicit_exc(it)
            n = self._new("for", s)
            self._by_stmt[id(s)] = n
            self._edge(it, n)
            loop = {"head": n, "breaks": []}
            self._loops.append(loop)
            body_out = self._block(s.body, [(n, "T")])
            self._loops.pop()
            self._connect(body_out, n)
            out = self._block(s.orelse, [(n, "F")]) if s.orelse else [(n, "F")]
            return out + loop["breaks"]
        if isinstance(s, (ast.With, ast.AsyncWith)):
            n = self._new("with", s)
            self._by_stmt[id(s)] = n
            self._connect(incoming, n)
            self._implicit_exc(n)
            return self._block(s.body, [(n, None)])
        if isinstance(s, ast.Try) or s.__class__.__name__ == "TryStar":
            n = self._new("try", s)
            self._by_stmt[id(s)] = n
            self._connect(incoming, n)
            handlers = []
            for h in s.handlers:
                hn = self._new("except", h)
                self._by_stmt[id(h)] = hn
                handlers.append(hn)
            if handlers:
                self._tries.append(handlers)
            body_out = self._block(s.body, [(n, None)])
            if handlers:
                self._tries.pop()
            if s.orelse:
                body_out = self._block(s.orelse, body_out)
            outs = list(body_out)
            for h, hn in zip(s.handlers, handlers):
                outs += self._block(h.body, [(hn, None)])
            if s.finalbody:
                outs = self._block(s.finalbody, outs)
            return outs
        if isinstance(s, ast.Return):
            n = self._simple(s, incoming)
            self._edge(n, self.exit)
            return []
        if isinstance(s, ast.Raise):
            n = self._simple(s, incoming, implicit=False)
            for t in self._exc_targets():
                self._edge(n, t, "exc")
            return []
        if isinstance(s, ast.Break):
            n = self._simple(s, incoming, implicit=False)
            if not self._loops:
                raise AnalysisError("break outside loop")
            self._loops[-1]["breaks"].append((n, None))
            return []
        if isinstance(s, ast.Continue):
            n = self._simple(s, incoming, implicit=False)
            self._edge(n, self._loops[-1]["head"])
            return []
        if s.__class__.__name__ == "Match":
            raise AnalysisError("match statement unsupported by A-CFG")
        # simple statements (incl. nested def / class as binding statements)
        n = self._simple(s, incoming)
        return [(n, None)]

    def _simple(self, s, incoming, implicit=True) -> int:
        n = self._new("stmt", s)
        self._by_stmt[id(s)] = n
        self._connect(incoming, n)
        if implicit:
            self._implicit_exc(n)
        return n

    def _implicit_exc(self, n):
        # Only inside a try with handlers: any statement may transfer to a handler.
        if self._tries:
            for t in self._tries[-1]:
                self._edge(n, t, "exc")

    # ------------------------------------------------------------------ lookup
    def node_of(self, ast_node) -> int:
        """CFG node executing the given AST node (statement or sub-expression)."""
        n = ast_node
        while n is not None:
            if id(n) in self._by_stmt:
                # expression inside the iterable of a for -> foriter node
                if isinstance(n, (ast.For, ast.AsyncFor)) and ast_node is not n and _within(ast_node, n.iter):
                    return self._foriter[id(n)]
                return self._by_stmt[id(n)]
            if n is self.func:
                break
            n = getattr(n, "_parent", None)
        raise AnalysisError(f"AST node at line {getattr(ast_node, 'lineno', '?')} not in this CFG")

    def has(self, ast_node) -> bool:
        try:
            self.node_of(ast_node)
            return True
        except AnalysisError:
            return False

    # ------------------------------------------------------------------ graph queries
    def reachable(
        self,
        src: Iterable[int],
        avoid_nodes: Set[int] = frozenset(),
        avoid_edges: Set[Edge] = frozenset(),
        backward: bool = False,
        skip_exc: bool = False,
    ) -> Set[int]:
        adj = self.pred if backward else self.succ
        seen = set()
        stack = [s for s in src if s not in avoid_nodes]
        while stack:
            a = stack.pop()
            if a in seen:
                continue
            seen.add(a)
            for b, label in adj[a]:
                e = (b, a, label) if backward else (a, b, label)
                if e in avoid_edges or b in avoid_nodes or b in seen:
                    continue
                if skip_exc and label == "exc":
                    continue
                stack.append(b)
        return seen

    def must_pass(self, a: int, b: int) -> bool:
        """Every path entry -> b passes through node a (a dominates b)."""
        if a == b:
            return True
        return b not in self.reachable([self.entry], avoid_nodes={a})

    def must_pass_any(self, nodes: Set[int], b: int) -> bool:
        if b in nodes:
            return True
        return b not in self.reachable([self.entry], avoid_nodes=set(nodes))

    def must_follow(self, a: int, b: int, exits: Optional[Set[int]] = None, avoid_edges: Set[Edge] = frozenset()) -> bool:
        """Every path from a to a normal exit passes through b (b post-dominates a)."""
        exits = exits or {self.exit}
        r = self.reachable([a], avoid_nodes={b}, avoid_edges=avoid_edges)
        return not (r & exits) or a == b

    def must_follow_any(self, a: int, bs: Set[int], exits: Optional[Set[int]] = None) -> bool:
        exits = exits or {self.exit}
        if a in bs:
            return True
        r = self.reachable([a], avoid_nodes=set(bs))
        return not (r & exits)

    def is_reachable(self, b: int) -> bool:
        return b in self.reachable([self.entry])

    def guards(self, b: int) -> Set[Tuple[int, str]]:
        """(test node, label) edges that every path entry -> b traverses."""
        out = set()
        base = self.reachable([self.entry])
        if b not in base:
            return out
        for n in self.nodes:
            if n.kind not in ("test", "for"):
                continue
            for (dst, label) in self.succ[n.id]:
                if label not in ("T", "F"):
                    continue
                r = self.reachable([self.entry], avoid_edges={(n.id, dst, label)})
                if b not in r:
                    out.add((n.id, label))
        return out

    def guard_exprs(self, b: int) -> List[Tuple[ast.AST, bool]]:
        """Guards as (test expression, polarity) for If/While tests only."""
        res = []
        for nid, label in sorted(self.guards(b)):
            st = self.nodes[nid].stmt
            if isinstance(st, (ast.If, ast.While)):
                res.append((self.test_of(st, nid), label == "T"))
        return res

    def test_of(self, st, nid=None):
        """The test of an If / While; a bare temporary (`c = <cond>` ... `if c:`) is replaced by its single definition."""
        t = st.test
        if self.flow is None:
            return t
        nid = self.node_of(st) if nid is None else nid
        r = self.flow.resolve_hoisted(t, nid)
        if r is not t:
            try:
                r._parent = st
            except AttributeError:
                pass
        return r

    def in_loop(self, b: int) -> bool:
        """b lies on a cycle."""
        for s, _ in self.succ[b]:
            if b in self.reachable([s]):
                return True
        return False

    def enclosing_loops(self, ast_node) -> List[ast.AST]:
        out = []
        n = getattr(ast_node, "_parent", None)
        child = ast_node
        while n is not None and n is not self.func:
            if isinstance(n, (ast.For, ast.While, ast.AsyncFor)):
                # the iterable of a for is evaluated outside the loop
                if not (isinstance(n, (ast.For, ast.AsyncFor)) and _within(ast_node, n.iter)):
                    if not _within(ast_node, getattr(n, "orelse", []) or []):
                        out.append(n)
            child = n
            n = getattr(n, "_parent", None)
        return out

    def must_state(self, gen_nodes: Set[int], kill_nodes: Set[int], gen_edges: Set[Edge] = frozenset(), entry_state: bool = False) -> Dict[int, bool]:
        """Forward must-analysis of one boolean fact: IN[n] holds iff on every path entry -> n the last event was a
        generating node / edge (greatest fixed point; exceptional edges are ignored)."""
        nodes = self.reachable([self.entry], skip_exc=True)
        IN = {n: True for n in nodes}
        IN[self.entry] = entry_state

        def out(p, n, label):
            if p in kill_nodes:
                return (p, n, label) in gen_edges
            if p in gen_nodes or (p, n, label) in gen_edges:
                return True
            return IN[p]

        changed = True
        while changed:
            changed = False
            for n in nodes:
                if n == self.entry:
                    continue
                v = all(out(p, n, label) for p, label in self.pred[n] if p in nodes and label != "exc")
                if v != IN[n]:
                    IN[n] = v
                    changed = True
        return IN

    def exits_normal(self) -> List[int]:
        """Nodes with an edge into the normal exit."""
        return [a for a, _ in self.pred[self.exit]]

    def raises(self, nid: int) -> bool:
        """Every path from nid ends in raise_exit (never reaches normal exit)."""
        r = self.reachable([nid])
        return self.exit not in r

    def branch_raises(self, test_nid: int, label: str) -> bool:
        """Taking branch `label` of the test always ends in an exception
        (never reaches the normal exit, never loops back to leave normally)."""
        outs = [d for d, l in self.succ[test_nid] if l == label]
        if not outs:
            return False
        r = self.reachable(outs)
        return self.exit not in r and self.raise_exit in r


def _within(node, container) -> bool:
    if isinstance(container, list):
        return any(_within(node, c) for c in container)
    if container is None:
        return False
    n = node
    while n is not None:
        if n is container:
            return True
        n = getattr(n, "_parent", None)
    return False


within = _within
