#!/usr/bin/env python3
"""Examples for the canonical forms of A-NORM (sa/normalise.py): for every form a pair of spellings that must normalise to
the same tree, and a near miss (a side condition broken) that must NOT be identified with it.  Run by the thorough tier
(sa/variants.py) before any variant is judged: a canonical form that identifies two programs with different behaviour
would let a violation pass unnoticed, one that no longer fires re-opens a false alarm.

usage: python sa/norm_examples.py   (exit 0 = all examples behave)"""
from __future__ import annotations

import ast
import os
import sys

HERE = os.path.dirname(os.path.abspath(__file__))
sys.path.insert(0, os.path.dirname(HERE))

from sa.normalise import normalise, package_facts  # noqa: E402

BASE = '''
class Base:
    def __str__(self):
        return self.generate_string(True)


class Thing(Base):
    def generate_string(self, extension):
        return "x"
'''

# (name, spelling A, spelling B, must_agree)
CASES = [
    ("13 if-not-all", "def f(xs):\n    if not all(x.ok for x in xs):\n        return False\n    return True\n",
     "def f(xs):\n    for x in xs:\n        if not x.ok:\n            return False\n    return True\n", True),
    ("13 if-any raise", "def f(xs):\n    if any(x < 0 for x in xs):\n        raise ValueError('n')\n    return 1\n",
     "def f(xs):\n    for x in xs:\n        if x < 0:\n            raise ValueError('n')\n    return 1\n", True),
    ("13 near miss: body does not leave", "def f(xs, out):\n    if any(x < 0 for x in xs):\n        out.append(1)\n    return 1\n",
     "def f(xs, out):\n    for x in xs:\n        if x < 0:\n            out.append(1)\n    return 1\n", False),
    ("14 neighbour pairs", "def f(w):\n    for a, b in zip(w, w[1:]):\n        if abs(a - b) > 1:\n            raise ValueError('x')\n",
     "def f(w):\n    for i__z1 in range(len(w) - 1):\n        if abs(w[i__z1] - w[i__z1 + 1]) > 1:\n            raise ValueError('x')\n", True),
    ("14 near miss: list changed in the body", "def f(w):\n    for a, b in zip(w, w[1:]):\n        w.append(a)\n",
     "def f(w):\n    for i__z1 in range(len(w) - 1):\n        w.append(w[i__z1])\n", False),
    ("15 field += [e]", "class C:\n    def f(self, e):\n        self.items += [e]\n", "class C:\n    def f(self, e):\n        self.items.append(e)\n", True),
    ("15 near miss: bare local (may be an array)", "def f(w, e):\n    w += [e]\n    return w\n", "def f(w, e):\n    w.append(e)\n    return w\n", False),
    ("16 field alias", "class C:\n    def __init__(self):\n        xs = []\n        self._xs = xs\n        xs.append(1)\n",
     "class C:\n    def __init__(self):\n        self._xs = []\n        self._xs.append(1)\n", True),
    ("16 near miss: the local is re-bound", "class C:\n    def __init__(self):\n        xs = []\n        self._xs = xs\n        xs = [2]\n        xs.append(1)\n",
     "class C:\n    def __init__(self):\n        self._xs = []\n        self._xs = [2]\n        self._xs.append(1)\n", False),
    ("17 annotations", "class C:\n    def f(self, a: int) -> int:\n        self.x: int = a\n        return a\n", "class C:\n    def f(self, a):\n        self.x = a\n        return a\n", True),
    ("18 literal table", "def f(t):\n    for k, c in (('a', A), ('b', B)):\n        if k in t:\n            return c(t)\n    raise ValueError(t)\n",
     "def f(t):\n    if 'a' in t:\n        return A(t)\n    if 'b' in t:\n        return B(t)\n    raise ValueError(t)\n", True),
    ("18 near miss: break in the body", "def f(t):\n    r = 0\n    for k in ('a', 'b'):\n        if k in t:\n            break\n        r += 1\n    return r\n",
     "def f(t):\n    r = 0\n    if 'a' in t:\n        pass\n    r += 1\n    if 'b' in t:\n        pass\n    r += 1\n    return r\n", False),
    ("19 lazy loop constant", "def f(fr, rng, n):\n    p = None\n    out = []\n    while len(out) < n:\n        if p is None:\n            p = fr / sum(fr)\n        out.append(rng.choice(range(len(fr)), p=p))\n    return out\n",
     "def f(fr, rng, n):\n    out = []\n    while len(out) < n:\n        out.append(rng.choice(range(len(fr)), p=fr / sum(fr)))\n    return out\n", True),
    ("19 near miss: the source changes in the loop", "def f(fr, rng, n):\n    p = None\n    out = []\n    while len(out) < n:\n        if p is None:\n            p = fr / sum(fr)\n        fr = fr + 1\n        out.append(rng.choice(3, p=p))\n    return out\n",
     "def f(fr, rng, n):\n    out = []\n    while len(out) < n:\n        fr = fr + 1\n        out.append(rng.choice(3, p=fr / sum(fr)))\n    return out\n", False),
    ("20 private constant", "_SYMS = ('$', '<', '>')\n\n\ndef f(c):\n    if c not in _SYMS:\n        raise ValueError(c)\n",
     "_SYMS = ('$', '<', '>')\n\n\ndef f(c):\n    if c not in ('$', '<', '>'):\n        raise ValueError(c)\n", True),
    ("20 near miss: re-bound through global", "_SYMS = ('$', '<')\n\n\ndef g():\n    global _SYMS\n    _SYMS = ('$',)\n\n\ndef f(c):\n    return c in _SYMS\n",
     "_SYMS = ('$', '<')\n\n\ndef g():\n    global _SYMS\n    _SYMS = ('$',)\n\n\ndef f(c):\n    return c in ('$', '<')\n", False),
    ("21 str()", BASE + "\n\ndef f(t):\n    return t.generate_string(True) != '[]'\n", BASE + "\n\ndef f(t):\n    return str(t) != '[]'\n", True),
    ("21 near miss: extension False", BASE + "\n\ndef f(t):\n    return t.generate_string(False) != '[]'\n", BASE + "\n\ndef f(t):\n    return str(t) != '[]'\n", False),
    ("22 prefix test", "def f(s):\n    if s[:len('gauss')] != 'gauss':\n        raise ValueError(s)\n", "def f(s):\n    if not s.startswith('gauss'):\n        raise ValueError(s)\n", True),
    ("22 near miss: wrong length", "def f(s):\n    if s[:4] != 'gauss':\n        raise ValueError(s)\n", "def f(s):\n    if not s.startswith('gauss'):\n        raise ValueError(s)\n", False),
    ("23 loop-carried position", "def f(t):\n    n = 0\n    p = t.find('{')\n    while p >= 0:\n        t = t[p + 1:]\n        n += 1\n        p = t.find('{')\n    return n\n",
     "def f(t):\n    n = 0\n    while t.find('{') >= 0:\n        p = t.find('{')\n        t = t[p + 1:]\n        n += 1\n    return n\n", True),
    ("25 removeprefix after the prefix test", "def f(s):\n    if not s.startswith('gauss'):\n        raise ValueError(s)\n    return s.removeprefix('gauss')\n",
     "def f(s):\n    if not s.startswith('gauss'):\n        raise ValueError(s)\n    return s[len('gauss'):]\n", True),
    ("25 near miss: no prefix test", "def f(s):\n    return s.removeprefix('gauss')\n", "def f(s):\n    return s[len('gauss'):]\n", False),
    ("4 numbered format fields", "def f(a, b):\n    return '|x({0}, {1})|'.format(a, b)\n", "def f(a, b):\n    return f'|x({a}, {b})|'\n", True),
    ("4 near miss: a format spec", "def f(a, b):\n    return '|x({0:.2f}, {1})|'.format(a, b)\n", "def f(a, b):\n    return f'|x({a}, {b})|'\n", False),
    ("24 parallel assignment", "def f(s):\n    a, b = s.x, s.y\n    return a + b\n", "def f(s):\n    a = s.x\n    b = s.y\n    return a + b\n", True),
    ("24 near miss: a swap", "def f(a, b):\n    a, b = b, a\n    return a - b\n", "def f(a, b):\n    a = b\n    b = a\n    return a - b\n", False),
    ("23 near miss: continue skips the update", "def f(t):\n    n = 0\n    p = t.find('{')\n    while p >= 0:\n        t = t[p + 1:]\n        if n > 3:\n            continue\n        n += 1\n        p = t.find('{')\n    return n\n",
     "def f(t):\n    n = 0\n    while t.find('{') >= 0:\n        p = t.find('{')\n        t = t[p + 1:]\n        if n > 3:\n            continue\n        n += 1\n    return n\n", False),
]


def _norm(text: str) -> str:
    tree = ast.parse(text)
    facts = package_facts([tree])
    normalise(tree, keep=frozenset(), facts=facts)
    # passes left behind are not part of the meaning
    for holder in ast.walk(tree):
        for fld in ("body", "orelse", "finalbody"):
            blk = getattr(holder, fld, None)
            if isinstance(blk, list) and len(blk) > 1:
                blk[:] = [s for s in blk if not isinstance(s, ast.Pass)] or [ast.Pass()]
    return ast.unparse(tree)


def run(verbose: bool = False):
    bad = []
    for name, a, b, agree in CASES:
        try:
            na, nb = _norm(a), _norm(b)
        except Exception as exc:  # noqa: BLE001
            bad.append(f"{name}: normaliser raised {type(exc).__name__}: {exc}")
            continue
        if (na == nb) != agree:
            bad.append(f"{name}: the two spellings {'differ' if agree else 'were identified'} after normalisation")
            if verbose:
                print("---- A\n" + na + "\n---- B\n" + nb)
        elif verbose:
            print(f"ok  {name}")
    return bad


if __name__ == "__main__":
    problems = run(verbose=True)
    for p in problems:
        print("NORM-EXAMPLE FAILED:", p)
    print(f"{len(CASES)} examples, {len(problems)} failed")
    sys.exit(1 if problems else 0)
