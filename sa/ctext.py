"""Canonical *texts* of guard conjuncts (for rules that match shapes with metavariable patterns).

cconj(expr, polarity) flattens conjunctions, folds the polarity into comparisons and orients them:
    x > 0      ->  0 < x            not a == b   ->  a != b          a >= b  ->  b <= a
    0 == len(x)->  len(x) == 0      (constants to the right for == / !=, otherwise operands in text order)
so that every spelling of a conjunct gives the same text.  ct() / cpat() do the same for expected strings and for
patterns with $metavariables.
"""
from __future__ import annotations

import ast
import re
from typing import List

from .loader import src

_NEG = {ast.Eq: ast.NotEq, ast.NotEq: ast.Eq, ast.Lt: ast.GtE, ast.GtE: ast.Lt, ast.Gt: ast.LtE, ast.LtE: ast.Gt,
        ast.In: ast.NotIn, ast.NotIn: ast.In, ast.Is: ast.IsNot, ast.IsNot: ast.Is}
_SWAP = {ast.Gt: ast.Lt, ast.GtE: ast.LtE}


def _cmp_text(left, op, right) -> str:
    t = type(op)
    if t in _SWAP:
        left, right, t = right, left, _SWAP[t]
    if t in (ast.Eq, ast.NotEq):
        lc, rc = isinstance(left, ast.Constant), isinstance(right, ast.Constant)
        if lc and not rc:
            left, right = right, left
        elif lc == rc and src(left) > src(right):
            left, right = right, left
    sym = {ast.Eq: "==", ast.NotEq: "!=", ast.Lt: "<", ast.LtE: "<=", ast.In: "in", ast.NotIn: "not in", ast.Is: "is", ast.IsNot: "is not"}[t]
    return f"{src(left)} {sym} {src(right)}"


def cconj(e, pol: bool = True) -> List[str]:
    if isinstance(e, ast.BoolOp):
        conj = (isinstance(e.op, ast.And) and pol) or (isinstance(e.op, ast.Or) and not pol)
        if conj:
            out = []
            for v in e.values:
                out += cconj(v, pol)
            return out
        parts = sorted(" and ".join(cconj(v, pol)) for v in e.values)
        return ["(" + " or ".join(parts) + ")"]
    if isinstance(e, ast.UnaryOp) and isinstance(e.op, ast.Not):
        return cconj(e.operand, not pol)
    if isinstance(e, ast.Compare) and len(e.ops) == 1:
        op = e.ops[0]
        if not pol:
            op = _NEG[type(op)]()
        return [_cmp_text(e.left, op, e.comparators[0])]
    if isinstance(e, ast.Constant) and isinstance(e.value, bool):
        return [] if bool(e.value) == pol else ["False"]
    return [src(e) if pol else "not " + src(e)]


def ct(text: str, pol: bool = True) -> str:
    c = cconj(ast.parse(text, mode="eval").body, pol)
    return " and ".join(c)


def cset(text: str, pol: bool = True) -> set:
    return set(cconj(ast.parse(text, mode="eval").body, pol))


_MV = re.compile(r"\$(\w+)")


def cpat(pattern: str, pol: bool = True) -> str:
    """Canonicalise a pattern with $metavariables."""
    tmp = _MV.sub(lambda m: f"MV_{m.group(1)}_VM", pattern)
    out = ct(tmp, pol)
    return re.sub(r"MV_(\w+?)_VM", lambda m: "$" + m.group(1), out)
