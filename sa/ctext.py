"""Canonical *texts* of guard conjuncts (for rules that match shapes with metavariable patterns).

cconj(expr, polarity) flattens conjunctions, folds the polarity into comparisons and orients them:
    x > 0      ->  0 < x            not a == b   ->  a != b          a >= b  ->  b <= a
    0 == len(x)->  len(x) == 0      (constants to the right for == / !=, otherwise operands in text order)
so that every spelling of a conjunct gives the same text.  ct() / cpat() do the same for expected strings and for
patterns with $metavariables.
"""
from __future__ import annotations

import ast
import re
from typing import List

from .loader import src

_NEG = {ast.Eq: ast.NotEq, ast.NotEq: ast.Eq, ast.Lt: ast.GtE, ast.GtE: ast.Lt, ast.Gt: ast.LtE, ast.LtE: ast.Gt,
        ast.In: ast.NotIn, ast.NotIn: ast.In, ast.Is: ast.IsNot, ast.IsNot: ast.Is}
_SWAP = {ast.Gt: ast.Lt, ast.GtE: ast.LtE}


def _cmp_text(left, op, right) -> str:
    t = type(op)
    if t in _SWAP:
        left, right, t = right, left, _SWAP[t]
    if t in (ast.Eq, ast.NotEq):
        lc, rc = isinstance(left, ast.Constant), isinstance(right, ast.Constant)
        if lc and not rc:
            left, right = right, left
        elif lc == rc and src(left) > src(right):
            left, right = right, left
    sym = {ast.Eq: "==", ast.NotEq: "!=", ast.Lt: "<", ast.LtE: "<=", ast.In: "in", ast.NotIn: "not in", ast.Is: "is", ast.IsNot: "is not"}[t]
    return f"{src(left)} {sym} {src(right)}"


def _emptiness(left, op, right):
    """`len(X) > 0`, `len(X) != 0`, `0 < len(X)`, `len(X) >= 1` -> "X";  `len(X) == 0`, `len(X) < 1`, `len(X) <= 0` -> "not X"."""
    def is_len(x):
        return isinstance(x, ast.Call) and isinstance(x.func, ast.Name) and x.func.id == "len" and len(x.args) == 1 and not x.keywords

    def num(x):
        return x.value if isinstance(x, ast.Constant) and isinstance(x.value, (int, float)) and not isinstance(x.value, bool) else None

    t = type(op)
    if is_len(right) and num(left) is not None:
        left, right = right, left
        t = {ast.Lt: ast.Gt, ast.Gt: ast.Lt, ast.LtE: ast.GtE, ast.GtE: ast.LtE}.get(t, t)
    if not (is_len(left) and num(right) is not None):
        return None
    c = num(right)
    fn = {ast.Lt: lambda n: n < c, ast.LtE: lambda n: n <= c, ast.Gt: lambda n: n > c, ast.GtE: lambda n: n >= c, ast.Eq: lambda n: n == c, ast.NotEq: lambda n: n != c}.get(t)
    if fn is None:
        return None
    zero, rest = fn(0), {fn(n) for n in (1, 2, 3, 5, 1000)}
    if len(rest) != 1 or zero in rest:
        return None
    x = src(left.args[0])
    return x if not zero else "not " + x


def cconj(e, pol: bool = True) -> List[str]:
    if isinstance(e, ast.BoolOp):
        conj = (isinstance(e.op, ast.And) and pol) or (isinstance(e.op, ast.Or) and not pol)
        if conj:
            out = []
            for v in e.values:
                out += cconj(v, pol)
            return out
        parts = sorted(" and ".join(cconj(v, pol)) for v in e.values)
        return ["(" + " or ".join(parts) + ")"]
    if isinstance(e, ast.UnaryOp) and isinstance(e.op, ast.Not):
        return cconj(e.operand, not pol)
    if isinstance(e, ast.Compare) and len(e.ops) == 1:
        op = e.ops[0]
        if not pol:
            op = _NEG[type(op)]()
        emp = _emptiness(e.left, op, e.comparators[0])
        if emp is not None:
            return [emp]
        return [_cmp_text(e.left, op, e.comparators[0])]
    if isinstance(e, ast.Constant) and isinstance(e.value, bool):
        return [] if bool(e.value) == pol else ["False"]
    return [src(e) if pol else "not " + src(e)]


def ct(text: str, pol: bool = True) -> str:
    c = cconj(ast.parse(text, mode="eval").body, pol)
    return " and ".join(c)


def cset(text: str, pol: bool = True) -> set:
    return set(cconj(ast.parse(text, mode="eval").body, pol))


_MV = re.compile(r"\$(\w+)")


def cpat(pattern: str, pol: bool = True) -> str:
    """Canonicalise a pattern with $metavariables."""
    tmp = _MV.sub(lambda m: f"MV_{m.group(1)}_VM", pattern)
    out = ct(tmp, pol)
    return re.sub(r"MV_(\w+?)_VM", lambda m: "$" + m.group(1), out)
