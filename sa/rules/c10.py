"""C10 — generation is a pure, reproducible function of string and supplied generator (structural part)."""
from __future__ import annotations

import ast
import os
import shutil
import tempfile

from ..effects import Effects
from ..loader import AnalysisError, ClassInfo, FuncInfo, norm, own_nodes, parent, src
from ..util import callee_name, calls, kwarg, with_nested

LEVEL = "other"

NOTATION_BASE = "BigSMILESbase"
ENTRY_NAMES = {
    "generate", "generate_string", "generable", "residues", "elements", "gen_mirror", "gen_reaction_graph", "gen_stochastic_atom_graph",
    "generator", "generate_smiles_fragment", "system_mass", "__str__", "is_compatible", "draw_mw", "prob_mw", "pure_big_smiles",
    "absolute_mass", "relative_mass", "get_forcefield_types", "forcefield_types", "mol", "smiles", "weight", "fully_generated", "to_mol",
}
ENTRY_FUNCS = {"mol_prob.get_ensemble_prob", "mol_prob.get_prob", "mol_prob.get_starting_tokens", "core.reaction_graph_to_dot_string",
               "core.stochastic_atom_graph_to_dot_string", "core.molecule_atom_graph_to_dot_string", "core.choose_compatible_weight",
               "core.get_compatible_bond_descriptor_ids"}
HOLDER_ATTRS = {"_big_smi_mol", "_big"}  # attributes of helper classes that hold a parsed object
NOTATION_PARAMS = {"big_mol", "big_smi_mol", "bigsmiles", "big", "token", "bond_descriptors", "bond", "stochastic", "element"}


def ctor_attrs(eng, ci: ClassInfo):
    out = set()
    for c in eng.prog.mro(ci):
        init = c.method("__init__")
        if init is None:
            continue
        for f in with_nested(init):
            for n in own_nodes(f.node):
                if isinstance(n, ast.Attribute) and isinstance(n.ctx, ast.Store) and isinstance(n.value, ast.Name) and n.value.id == "self":
                    out.add(n.attr)
        for st in c.node.body:
            if isinstance(st, ast.Assign):
                for t in st.targets:
                    if isinstance(t, ast.Name):
                        out.add(t.id)
    return out


def is_notation(eng, ci) -> bool:
    return ci is not None and eng.prog.is_subclass(ci, NOTATION_BASE)


def entry_points(eng):
    out = []
    for fi in eng.prog.all_functions():
        if fi.parent is not None or fi.is_setter:
            continue
        if fi.cls is not None and fi.name in ENTRY_NAMES and fi.name != "__init__":
            out.append(fi)
        elif fi.qualname in ENTRY_FUNCS:
            out.append(fi)
    return out


def parser_store_violations(eng, E: Effects):
    """[(entry FuncInfo, effect, why)] — stores reachable from an entry point that land in parser-owned state."""
    out = []
    eps = entry_points(eng)
    all_attrs = set()
    for c in eng.prog.subclasses(NOTATION_BASE):
        all_attrs |= ctor_attrs(eng, c)

    def field(path):
        for a in reversed(path):
            if a != "[]" and not a.startswith("<") and a != "…":
                return a
        return None

    for fi in eps:
        ci = fi.cls
        notation = is_notation(eng, ci)
        attrs = ctor_attrs(eng, ci) if notation else set()
        for (root, path) in sorted(E.mut.get(fi.qualname, set()), key=str):
            why = E.why.get((fi.qualname, (root, path)), "")
            if field(path) not in all_attrs:
                continue  # a private memo no notation constructor establishes
            if root == "self" and notation:
                if path and path[0] in attrs:
                    out.append((fi, (root, path), why))
            elif root == "self" and not notation:
                # helper object holding a parsed object: mutation *through* the holder attribute
                for i, a in enumerate(path[:-1]):
                    if a in HOLDER_ATTRS:
                        out.append((fi, (root, path), why))
                        break
            elif root in NOTATION_PARAMS and "::" not in root:
                # parameters that designate parsed objects (not the MolGen prefix)
                out.append((fi, (root, path), why))
    return out, eps


POSITIVE_EXAMPLE = {
    "core.py": "class BigSMILESbase:\n    pass\n",
    "tok.py": (
        "import copy\nfrom .core import BigSMILESbase\n\n\n"
        "def bump(bd):\n    bd.weight = 2.0\n\n\n"
        "class BD(BigSMILESbase):\n    def __init__(self):\n        self.weight = 1.0\n\n\n"
        "class Tok(BigSMILESbase):\n"
        "    def __init__(self, text):\n        self.bond_descriptors = []\n        self._raw_text = text\n\n"
        "    def generate(self, prefix=None, rng=None):\n        first = self.bond_descriptors[0]\n        bump(first)\n        return prefix\n\n"
        "    def generate_string(self, extension):\n        local = copy.deepcopy(self.bond_descriptors)\n        local[0].weight = 1.0\n        self._memo = 1\n        return ''\n\n"
        "    @property\n    def residues(self):\n        if getattr(self, '_pending', None) is None:\n            self._pending = [1, 2, 3]\n        return [self._pending.pop()]\n\n"
        "    @property\n    def generable(self):\n        self._generable_memo = len(self._raw_text) > 0\n        return self._generable_memo\n"
    ),
}


def positive_example_fires() -> bool:
    from ..engine import Engine

    tmp = tempfile.mkdtemp(prefix="sa_posex_")
    try:
        d = os.path.join(tmp, "src", "gbigsmiles")
        os.makedirs(d)
        for fn, text in POSITIVE_EXAMPLE.items():
            with open(os.path.join(d, fn), "w") as fh:
                fh.write(text)
        eng = Engine(tmp)
        E = Effects(eng)
        v, _ = parser_store_violations(eng, E)
        names = {(fi.qualname, eff[1]) for fi, eff, _ in v}
        fired = ("tok.Tok.generate", ("bond_descriptors", "[]", "weight")) in names
        silent = not any(q == "tok.Tok.generate_string" for q, _ in names)
        return fired and silent
    finally:
        shutil.rmtree(tmp, ignore_errors=True)


def no_parser_store(eng, res, rule="R-NO-PARSER-STORE"):
    E = Effects(eng)
    v, eps = parser_store_violations(eng, E)
    bad = {}
    for fi, eff, why in v:
        bad.setdefault(fi.qualname, []).append((eff, why))
    for fi in eps:
        res.unit(fi)
        b = bad.get(fi.qualname, [])
        res.ob(rule, fi, "no-store-into-parsed-state", "no store reachable from this entry point lands in state established by a notation constructor",
               fi.node, not b, "; ".join(f"{'.'.join(e[1])} of {e[0]} [{w[:110]}]" for e, w in b[:3]))
    ok = positive_example_fires()
    res.ob(rule, "selfcheck", "positive-example", "built-in positive example (descriptor of the parsed token edited through a helper) is flagged, its deep-copy twin is not",
           "-", ok, "the effect analysis no longer detects the built-in example")
    return len(eps), E


STRUCTURAL = {"<append>", "<extend>", "<insert>", "<pop>", "<remove>", "<clear>", "<sort>", "<reverse>", "<update>", "<add>", "<discard>", "<setdefault>", "<popitem>"}
DRAW_CALLS = {"choice", "rvs", "draw_mw", "random", "normal", "uniform", "integers", "shuffle", "permutation", "generate", "choose_compatible_weight"}


def _rng_tainted(eng, fi, value, at):
    """the stored value depends on the random stream (a draw, a generated molecule, anything computed from `rng`)"""
    fl = eng.flow(fi)
    try:
        t = fl.expand(value, at, depth=8)
    except AnalysisError:
        t = value
    for n in ast.walk(t):
        if isinstance(n, ast.Name) and n.id.split("#")[0] == "rng":
            return True
        if isinstance(n, ast.Attribute) and n.attr == "rng":
            return True
        if isinstance(n, ast.Call) and callee_name(n) in DRAW_CALLS and callee_name(n) not in ("generate",):
            return True
    return False


def _slot_reads(eng, root, slot):
    """is the persistent slot read anywhere in the package (other than by the statements that fill it)?"""
    name = slot if slot else root.split(".")[-1]
    n = 0
    for m in eng.prog.modules.values():
        for x in ast.walk(m.tree):
            if isinstance(x, ast.Attribute) and x.attr == name and isinstance(x.ctx, ast.Load):
                n += 1
            elif isinstance(x, ast.Name) and x.id == name and isinstance(x.ctx, ast.Load) and root.startswith("@"):
                n += 1
            elif isinstance(x, ast.Constant) and x.value == name:  # getattr(self, "<name>", ...)
                n += 1
    return n


def history_state(eng, res, E, rule="R-NO-HISTORY-STATE", collect=None, selfcheck=True):
    """State that survives a call — a memo attribute no constructor establishes, module-level state, a class-level
    table — may be *filled* by generation (a memo of something that depends only on the parsed object), but
    (a) what has been put there is never changed structurally afterwards (an element deleted / appended, a field of a
        remembered object re-assigned): the next call would start from the changed object;
    (b) it is never filled with a value that depends on the random stream and read again: the next call's output
        would depend on earlier draws."""
    res.doc(rule, "state surviving a call (memo attributes, module-level / class-level tables) is not changed structurally below the slot that was filled, and is not filled from the random stream")
    eps = entry_points(eng)
    all_attrs = set()
    for c in eng.prog.subclasses(NOTATION_BASE):
        all_attrs |= ctor_attrs(eng, c)
    ff_cache = {"_global_assignment_class", "_global_nonbonded_itp_file", "_global_smarts_rule_file"}
    n = 0
    for fi in eps:
        notation = is_notation(eng, fi.cls)
        bad = []
        for (root, path) in sorted(E.mut.get(fi.qualname, set()), key=str):
            persistent = None
            if root.startswith("@"):
                if root.split(".")[-1] in ff_cache:
                    continue  # the force-field cache is decided by C20's R-FF-ROLE
                persistent = ("module-level state " + root[1:], 0)
            elif root == "self" and notation:
                memo = [i for i, a in enumerate(path) if a != "[]" and a != "…" and not a.startswith("<") and a not in all_attrs]
                if not memo:
                    continue
                persistent = (f"memo attribute .{path[memo[0]]} (no constructor establishes it)", memo[0] + 1)
            if persistent is None:
                continue
            what, k = persistent
            below = path[k:]
            # the slot itself: re-binding (no further path), or one element store / fill of the table
            tail = [a for a in below]
            depth = len([a for a in tail if not a.startswith("<")])
            last = tail[-1] if tail else ""
            sites = E.sites.get((fi.qualname, (root, path)), [])
            why = E.why.get((fi.qualname, (root, path)), "")
            # emptying a table / dropping an entry is eviction (harmless); taking something out *and using it* consumes remembered content
            consuming = False
            if depth == 0 and last in ("<pop>", "<popitem>", "<remove>", "<discard>"):
                for sfi, st in sites:
                    pst = parent(st) if isinstance(st, ast.Call) else None
                    if isinstance(st, ast.Call) and not isinstance(pst, ast.Expr):
                        consuming = True
            fill = (depth == 0 and not consuming and last not in ("<sort>", "<reverse>")) or (depth == 1 and tail[0] == "[]")
            if last == "<inplace>":
                res.info(f"{fi.qualname}: numeric in-place update below {what} [{why[:100]}] — harmless only if idempotent (not decided)")
                continue
            if not fill:
                bad.append(f"{what}: remembered content is changed afterwards ({'.'.join(path)}) [{why[:110]}]")
                continue
            # a fill: the stored value must not depend on the random stream if the slot is ever read
            for sfi, st in sites:
                val = None
                if isinstance(st, (ast.Assign, ast.AnnAssign)):
                    val = st.value
                elif isinstance(st, ast.AugAssign):
                    val = st.value
                elif isinstance(st, ast.Call) and st.args:
                    val = st.args[-1]
                if val is None:
                    continue
                try:
                    at = eng.flow(sfi).cfg.node_of(st)
                except AnalysisError:
                    continue
                if _rng_tainted(eng, sfi, val, at) and _slot_reads(eng, root, path[k - 1] if k else ""):
                    bad.append(f"{what} is filled with a value that depends on the random stream at {sfi.module.relpath}:{st.lineno} and read again")
        n += 1
        if collect is not None:
            collect[fi.qualname] = bool(bad)
        res.ob(rule, fi, "no-history-state", "nothing that survives this call is changed below its slot or filled from the random stream", fi.node, not bad, "; ".join(sorted(set(bad))[:3]))
    if selfcheck:
        ok = history_example_fires()
        res.ob(rule, "selfcheck", "positive-example", "built-in positive example (a remembered list that is popped on every call) is flagged, its write-once twin is not", "-", ok,
               "the history-state analysis no longer detects the built-in example")
    return n


def history_example_fires() -> bool:
    from ..engine import Engine
    from ..report import Result

    tmp = tempfile.mkdtemp(prefix="sa_posex_")
    try:
        d = os.path.join(tmp, "src", "gbigsmiles")
        os.makedirs(d)
        for fn, text in POSITIVE_EXAMPLE.items():
            with open(os.path.join(d, fn), "w") as fh:
                fh.write(text)
        eng = Engine(tmp)
        E = Effects(eng)
        got = {}
        history_state(eng, Result("C10"), E, collect=got, selfcheck=False)
        return got.get("tok.Tok.residues") is True and got.get("tok.Tok.generable") is False and got.get("tok.Tok.generate_string") is False
    finally:
        shutil.rmtree(tmp, ignore_errors=True)


def copy_owned(eng, res, rule="R-COPY-OWNED"):
    ci = eng.prog.cls("MolGen")
    n = 0
    for name, fs in ci.methods.items():
        for fi in fs:
            for sub in with_nested(fi):
                flow = eng.flow(sub)
                for node in own_nodes(sub.node):
                    tgt = None
                    val = None
                    if isinstance(node, ast.Assign):
                        for t in node.targets:
                            if isinstance(t, ast.Attribute) and t.attr == "bond_descriptors" and isinstance(t.value, ast.Name) and t.value.id == "self":
                                tgt, val = t, node.value
                    elif isinstance(node, ast.AugAssign):
                        t = node.target
                        if isinstance(t, ast.Attribute) and t.attr == "bond_descriptors" and isinstance(t.value, ast.Name) and t.value.id == "self":
                            tgt, val = t, node.value
                    elif isinstance(node, ast.Call) and callee_name(node) in ("append", "extend", "insert") and src(node.func.value) == "self.bond_descriptors":
                        tgt, val = node.func.value, node.args[-1] if node.args else None
                    if tgt is None or val is None:
                        continue
                    n += 1
                    res.unit(sub)
                    t = flow.expand_ssa(val, flow.cfg.node_of(node))
                    ok = isinstance(t, ast.Call) and src(t.func) in ("copy.deepcopy", "deepcopy")
                    res.ob(rule, sub, f"store:{sub.name}", "every value stored into a MolGen's descriptor list is a deep copy (generation edits never reach the tokens' descriptors)",
                           node, ok, f"stored value: {src(t)[:90]}")
    # outside MolGen, nobody stores foreign descriptors into a MolGen list except re-inserting its own element
    return n


def accessor_copy(eng, res, rule="R-ACCESSOR-COPY"):
    m = eng.prog.cls("Molecule")
    el = m.method("elements")
    if el is None:
        raise AnalysisError("Molecule.elements not found")
    res.unit(el)
    fl = eng.flow(el)
    rets = [r for r in own_nodes(el.node) if isinstance(r, ast.Return) and r.value is not None]
    t = [src(fl.expand_ssa(r.value, fl.cfg.node_of(r))) for r in rets]
    res.ob(rule, el, "elements-deepcopy", "Molecule.elements hands out a deep copy", el.node, bool(t) and all(x == "copy.deepcopy(self._elements)" for x in t), f"returns {t}")
    gm = m.method("gen_mirror")
    if gm is not None:
        res.unit(gm)
        fl = eng.flow(gm)
        # every attribute store in gen_mirror has a root that is the deep copy
        bad = []
        for n in own_nodes(gm.node):
            if isinstance(n, ast.Attribute) and isinstance(n.ctx, ast.Store):
                root = n.value
                while isinstance(root, (ast.Attribute, ast.Subscript)):
                    root = root.value
                if isinstance(root, ast.Name):
                    tt = src(fl.expand(root, fl.cfg.node_of(n), depth=6))
                    if "copy.deepcopy(self)" not in tt:
                        bad.append(f"line {n.lineno}: {src(n)} rooted at {tt[:40]}")
        res.ob(rule, gm, "mirror-edits-copy", "gen_mirror edits only a deep copy of the molecule", gm.node, not bad, "; ".join(bad))


def shared_mutable(eng, res, rule="R-NO-SHARED-MUTABLE"):
    """A mutable literal bound in a class body is shared by all instances: it must not be mutated in place
    through `self` unless every constructor on the way rebinds it to a fresh value first."""
    from ..effects import MUT_METHODS

    n = 0
    for ci in eng.prog.classes.values():
        for st in ci.node.body:
            if not isinstance(st, ast.Assign) or len(st.targets) != 1 or not isinstance(st.targets[0], ast.Name):
                continue
            v = st.value
            mutable = isinstance(v, (ast.List, ast.Dict, ast.Set, ast.ListComp, ast.DictComp)) or (
                isinstance(v, ast.Call) and callee_name(v) in ("list", "dict", "set", "defaultdict", "OrderedDict", "deque", "zeros", "array"))
            if not mutable:
                continue
            attr = st.targets[0].id
            for sc in eng.prog.subclasses(ci.name):
                n += 1
                # in-place mutations of self.attr in methods defined by sc (or inherited ones not rebinding)
                muts = []
                for c in eng.prog.mro(sc):
                    for fs in c.methods.values():
                        for f in fs:
                            for sub in with_nested(f):
                                for node in own_nodes(sub.node):
                                    if isinstance(node, ast.Call) and isinstance(node.func, ast.Attribute) and node.func.attr in MUT_METHODS and src(node.func.value) == f"self.{attr}":
                                        muts.append((sub, node))
                                    if isinstance(node, ast.Subscript) and isinstance(node.ctx, (ast.Store, ast.Del)) and src(node.value) == f"self.{attr}":
                                        muts.append((sub, node))
                                    if isinstance(node, ast.AugAssign) and src(node.target) == f"self.{attr}":
                                        muts.append((sub, node))
                if not muts:
                    continue
                init = eng.prog.lookup_method(sc, "__init__")
                rebound = False
                if init is not None:
                    fl = eng.flow(init)
                    for node in own_nodes(init.node):
                        if isinstance(node, ast.Assign) and any(src(t) == f"self.{attr}" for t in node.targets):
                            nid = fl.cfg.node_of(node)
                            if not [g for g in fl.cfg.guards(nid)] and all(fl.cfg.must_pass(nid, p) for p, _ in fl.cfg.pred[fl.cfg.exit]):
                                # and before any in-place mutation inside the constructor itself
                                rebound = True
                            elif all(fl.cfg.must_pass(nid, fl.cfg.node_of(m)) for f_, m in muts if f_ is init) and not fl.cfg.guards(nid):
                                rebound = True
                            else:
                                # first statement-level rebinding that dominates every later use in the constructor
                                first_mut = [fl.cfg.node_of(m) for f_, m in muts if f_ is init]
                                rebound = rebound or (all(fl.cfg.must_pass(nid, x) for x in first_mut) and not any(
                                    lbl == "T" and False for _, lbl in fl.cfg.guards(nid)))
                f0, n0 = muts[0]
                res.unit(f0)
                res.ob(rule, sc.qualname, f"{ci.name}.{attr}", f"class-level mutable `{attr}` is rebound per instance before `{sc.name}` mutates it in place (no state shared between objects)",
                       f"{f0.module.relpath}:{n0.lineno}", rebound,
                       f"`{attr}` is bound once in the class body of {ci.name} and mutated through self in {f0.qualname}: every instance (and every generation) shares it")
    return n


IMMUTABLE_CTORS = {"tuple", "frozenset", "str", "int", "float", "bool", "bytes", "compile", "namedtuple", "object", "property", "staticmethod", "classmethod"}


def shared_class_object(eng, res, rule="R-NO-SHARED-MUTABLE", only_classes=None):
    """An object bound at class level (in the class body, or lazily through `Class.name = ...`) is one object for all
    instances.  Handing it to instances (`self.x = Class.name` / `self.name`) is fine as long as it is only read;
    re-configuring it through an instance (attribute store, element store, mutating method) changes every other instance."""
    from ..effects import MUT_METHODS

    n = 0
    for ci in eng.prog.classes.values():
        if only_classes is not None and not any(eng.prog.is_subclass(ci, b) for b in only_classes):
            continue
        shared = {}
        for st in ci.node.body:
            if isinstance(st, ast.Assign) and len(st.targets) == 1 and isinstance(st.targets[0], ast.Name):
                v = st.value
                if isinstance(v, ast.Call) and callee_name(v) not in IMMUTABLE_CTORS:
                    shared[st.targets[0].id] = st
                elif isinstance(v, ast.Constant) and v.value is None:
                    shared.setdefault(st.targets[0].id, None)  # candidate: lazily bound below
        family = [c for c in eng.prog.classes.values() if eng.prog.is_subclass(c, ci.name) or eng.prog.is_subclass(ci, c.name)]
        methods = [sub for c in family for fs in c.methods.values() for f in fs for sub in with_nested(f)]
        # lazily bound class attributes: `Class.name = <call>` anywhere in the family
        for f in methods:
            for node in own_nodes(f.node):
                if isinstance(node, ast.Assign):
                    for t in node.targets:
                        if isinstance(t, ast.Attribute) and isinstance(t.value, ast.Name) and t.value.id == ci.name and isinstance(node.value, ast.Call) and callee_name(node.value) not in IMMUTABLE_CTORS:
                            shared[t.attr] = node
        shared = {k: v for k, v in shared.items() if v is not None}
        if not shared:
            continue

        def denotes_shared(e):
            """expression is `self.Y` / `Class.Y` / `type(self).Y` / `cls.Y` for a shared Y"""
            if isinstance(e, ast.Attribute) and e.attr in shared:
                b = e.value
                if isinstance(b, ast.Name) and b.id in ("self", "cls", ci.name):
                    return e.attr
                if isinstance(b, ast.Call) and callee_name(b) == "type":
                    return e.attr
                if isinstance(b, ast.Attribute) and b.attr == "__class__":
                    return e.attr
            return None

        alias = {y: y for y in shared}  # instance attribute -> shared name
        for f in methods:
            fl = eng.flow(f)
            for node in own_nodes(f.node):
                if isinstance(node, ast.Assign) and fl.cfg.has(node):
                    for t in node.targets:
                        if isinstance(t, ast.Attribute) and isinstance(t.value, ast.Name) and t.value.id == "self":
                            try:
                                v = fl.expand(node.value, fl.cfg.node_of(node), depth=4)
                            except AnalysisError:
                                v = node.value
                            for x in ast.walk(v):
                                y = denotes_shared(x)
                                if y and (x is v or (is_phi(v) and x in getattr(v, "args", []))):
                                    alias[t.attr] = y
        muts = []
        for f in methods:
            for node in own_nodes(f.node):
                tgt = None
                if isinstance(node, (ast.Assign, ast.AugAssign)):
                    for t in (node.targets if isinstance(node, ast.Assign) else [node.target]):
                        base = t.value if isinstance(t, (ast.Attribute, ast.Subscript)) else None
                        if base is not None and isinstance(base, ast.Attribute) and base.attr in alias and isinstance(base.value, (ast.Name, ast.Call, ast.Attribute)):
                            if isinstance(base.value, ast.Name) and base.value.id not in ("self", "cls", ci.name):
                                continue
                            tgt = (base.attr, f"{src(t)} = …")
                elif isinstance(node, ast.Call) and isinstance(node.func, ast.Attribute) and node.func.attr in MUT_METHODS:
                    base = node.func.value
                    if isinstance(base, ast.Attribute) and base.attr in alias and isinstance(base.value, ast.Name) and base.value.id in ("self", "cls", ci.name):
                        tgt = (base.attr, f"{src(node.func)}(…)")
                if tgt:
                    muts.append((f, node, tgt))
        for y, st in sorted(shared.items()):
            n += 1
            mine = [(f, node, t) for f, node, t in muts if alias.get(t[0]) == y]
            res.ob(rule, ci.qualname, f"{ci.name}.{y}:shared-object", f"the object bound once for all `{ci.name}` instances as `{y}` is never re-configured through an instance",
                   f"{ci.module.relpath}:{st.lineno}", not mine,
                   "; ".join(f"{f.qualname} line {node.lineno}: {t[1]} (reaches the one object every instance holds)" for f, node, t in mine[:3]))
    return n


def is_phi(t):
    from ..dataflow import is_mark

    return is_mark(t, "phi")


def rng_in_scope(eng, fi: FuncInfo):
    f = fi
    while f is not None:
        if "rng" in f.params:
            return "rng"
        f = f.parent
    ci = eng.self_class(fi)
    if ci is not None:
        init = eng.prog.lookup_method(ci, "__init__")
        if init is not None and any(isinstance(n, ast.Attribute) and n.attr == "rng" and isinstance(n.ctx, ast.Store) for n in own_nodes(init.node)):
            return "self.rng"
    return None


def rng_thread(eng, res, rule="R-RNG-THREAD"):
    n = 0
    for fi in eng.prog.all_functions():
        scope = rng_in_scope(eng, fi)
        flow = None
        for c in calls(fi):
            nm = callee_name(c)
            targets = [t for t in eng.repo_callees(fi, c) if "rng" in t.params]
            is_rvs = nm == "rvs"
            if not targets and not is_rvs:
                continue
            if scope is None and not is_rvs:
                # a caller without any generator in scope: it can only rely on the callee's default
                if fi.name in ("forcefield_types",):
                    continue
                continue
            flow = flow or eng.flow(fi)
            at = flow.cfg.node_of(c)
            n += 1
            res.unit(fi)
            arg = None
            if is_rvs:
                arg = kwarg(c, "random_state")
                pname = "random_state"
            else:
                t = targets[0]
                pname = "rng"
                idx = t.params.index("rng")
                if t.cls is not None and not t.is_static:
                    idx -= 1
                if t.name == "__init__":
                    pass
                if idx < len(c.args):
                    arg = c.args[idx]
                if kwarg(c, "rng") is not None:
                    arg = kwarg(c, "rng")
            role = f"call:{fi.qualname.split('.', 1)[-1]}->{nm}"
            if arg is None:
                res.ob(rule, fi, role, f"the generator in scope is forwarded as {pname}", c, False,
                       f"{pname} not supplied: the callee falls back to the library's global generator")
                continue
            tt = src(flow.expand_ssa(arg, at))
            want = {scope} if scope else set()
            ok = tt in ("rng", "self.rng") or tt.split("#")[0] == "rng"
            if not ok and tt.startswith("rng#"):
                ok = True
            # the None-fallback idiom inside draw_mw: rng is re-bound to the global only under `if rng is None`
            res.ob(rule, fi, role, f"the generator in scope is forwarded as {pname}", c, ok, f"argument is {tt}")
    return n


def global_rng_use(eng, res, rule="R-GLOBAL-RNG-USE"):
    n = 0
    for m in eng.prog.modules.values():
        for node in ast.walk(m.tree):
            if isinstance(node, ast.Name) and node.id == "_GLOBAL_RNG" and isinstance(node.ctx, ast.Load):
                n += 1
                p = parent(node)
                ok = False
                why = "use of the library's global generator outside a default / None-fallback"
                # (a) parameter default
                if isinstance(p, ast.arguments):
                    ok = True
                # (b) rng = _GLOBAL_RNG under `if rng is None`
                elif isinstance(p, ast.Assign) and len(p.targets) == 1 and isinstance(p.targets[0], ast.Name):
                    pp = parent(p)
                    if isinstance(pp, ast.If) and src(pp.test) == f"{p.targets[0].id} is None" and p in pp.body:
                        ok = True
                # (c) export list
                elif isinstance(p, (ast.List, ast.Tuple)) and isinstance(parent(p), ast.Assign):
                    ok = True
                res.ob(rule, m.name, f"use:{m.name}:{_ctx_key(node)}", "_GLOBAL_RNG appears only as a parameter default or a `None` fallback", f"{m.relpath}:{node.lineno}", ok, why)
            if isinstance(node, ast.Call):
                d = _dotted(node.func)
                if d and (d.startswith("np.random.") or d.startswith("numpy.random.")):
                    fn = d.split(".")[-1]
                    n += 1
                    if fn == "default_rng":
                        p = parent(node)
                        ok = False
                        if isinstance(p, ast.Assign) and isinstance(parent(p), ast.Module):
                            ok = True  # the module-level global generator itself
                        elif isinstance(p, ast.Assign) and isinstance(parent(p), ast.If) and "is None" in src(parent(p).test):
                            ok = True
                        elif node.args:
                            ok = True  # explicitly seeded
                        res.ob(rule, m.name, f"default_rng:{m.name}:{_ctx_key(node)}", "an unseeded default_rng() only defines the global generator or serves as None-fallback",
                               f"{m.relpath}:{node.lineno}", ok, "unseeded generator created on a generation path")
                    else:
                        res.ob(rule, m.name, f"legacy:{m.name}:{fn}", "no legacy numpy global-state random function", f"{m.relpath}:{node.lineno}", False, f"np.random.{fn}() draws from hidden global state")
                if d and d.split(".")[0] == "random" and "random" in m.imports and m.imports["random"][0] == "random":
                    n += 1
                    res.ob(rule, m.name, f"stdlib-random:{m.name}", "no use of the stdlib random module", f"{m.relpath}:{node.lineno}", False, f"{d}() draws from hidden global state")
            # SciPy keeps a generator of its own on every distribution object (`_random_state`, by default NumPy's hidden
            # global one): a sampling hook that draws from it ignores the generator the caller supplied
            if isinstance(node, ast.Attribute) and node.attr in ("_random_state", "random_state") and isinstance(node.ctx, ast.Load):
                n += 1
                res.ob(rule, m.name, f"scipy-own-generator:{m.name}:{_ctx_key(node)}", "no draw from the generator SciPy keeps on the distribution object", f"{m.relpath}:{node.lineno}", False,
                       f"{src(node)} is the distribution object's own generator (NumPy's hidden global state unless set), not the generator handed to the call")
            if isinstance(node, (ast.FunctionDef,)) and node.name == "_rvs":
                ps = [a.arg for a in node.args.args + node.args.kwonlyargs]
                for c in ast.walk(node):
                    if isinstance(c, ast.Call) and isinstance(c.func, ast.Attribute) and c.func.attr in _DRAWS:
                        recv = c.func.value
                        if isinstance(recv, ast.Name) and recv.id in ("np", "numpy", "special", "math", "scipy", "stats"):
                            continue
                        n += 1
                        ok = isinstance(recv, ast.Name) and recv.id == "random_state" and "random_state" in ps
                        res.ob(rule, m.name, f"rvs-hook-draw:{m.name}:{c.func.attr}", "a sampling hook draws from the random_state it is given", f"{m.relpath}:{c.lineno}", ok,
                               f"{src(c.func)}: the receiver is not the hook's random_state parameter")
        for al, (srcm, orig) in m.imports.items():
            if srcm == "random" or (srcm == "random" and orig):
                n += 1
                res.ob(rule, m.name, f"import-random:{m.name}", "the stdlib random module is not imported", m.relpath, False, "import random")
    return n


_DRAWS = {"random", "choice", "uniform", "normal", "standard_normal", "gamma", "standard_gamma", "beta", "binomial", "poisson", "exponential", "integers", "randint",
          "lognormal", "geometric", "negative_binomial", "shuffle", "permutation", "multinomial", "weibull", "chisquare", "rand", "randn", "random_sample", "triangular"}


def _dotted(node):
    if isinstance(node, ast.Name):
        return node.id
    if isinstance(node, ast.Attribute):
        d = _dotted(node.value)
        return None if d is None else d + "." + node.attr
    return None


def _ctx_key(node) -> str:
    n = node
    while n is not None and not isinstance(n, (ast.FunctionDef, ast.AsyncFunctionDef, ast.ClassDef, ast.Module)):
        n = parent(n)
    return getattr(n, "name", "module")


COPY_HOOKS = ("__deepcopy__", "__copy__", "__getstate__", "__setstate__", "__reduce__", "__reduce_ex__", "__getnewargs__", "__getnewargs_ex__")


def copy_plain(eng, res, rule="R-COPY-PLAIN"):
    """The library hands out and works on deep copies of parsed objects everywhere (MolGen's descriptors, Molecule.elements,
    the mirror, search states).  A copy denotes what the original denotes only if copying copies every field: no class
    of the notation (or MolGen) customises copying."""
    res.doc(rule, "copies of notation objects are plain (field-by-field) copies: no class customises copy / pickle hooks")
    classes = [c for c in eng.prog.classes.values() if c.name in ("MolGen", "RememberAdd", "OpenAtom", "PossibleMatch") or eng.prog.is_subclass(c, "BigSMILESbase")]
    hooks = [(c, h) for c in classes for h in COPY_HOOKS if c.method(h) is not None]
    for c, h in hooks:
        res.unit(c.method(h))
    res.ob(rule, "package", "no-copy-hooks", "no notation class defines __deepcopy__ / __copy__ / pickle hooks (a copy carries every field of the original)", "-", not hooks,
           "; ".join(f"{c.name}.{h} ({c.module.relpath}:{c.method(h).node.lineno})" for c, h in hooks))
    return len(classes)


def shared_arrays(eng, res, rule="R-SHARED-FIELD"):
    """Some fields of half-built molecules hold the very object a parsed descriptor holds (the hand-over stores the left
    terminal's list by reference).  That is harmless as long as such a value is only read: no code reachable from a
    generation entry point changes, in place, a value obtained from a field that is shared this way."""
    res.doc(rule, "a field value that generation shares by reference with the parsed object is never changed in place")
    from ..util import generate_roots

    notation = {c.name for c in eng.prog.classes.values() if eng.prog.is_subclass(c, "BigSMILESbase")}
    shared = {}
    for q, fi in sorted(eng.prog.functions.items()):
        own = fi.enclosing_class() or (fi.outermost().enclosing_class())
        if own is None or own.name not in notation:
            continue
        for st in own_nodes(fi.node):
            if isinstance(st, ast.Assign) and len(st.targets) == 1 and isinstance(st.targets[0], ast.Attribute) and isinstance(st.value, ast.Attribute):
                v = st.value
                root = v
                while isinstance(root, ast.Attribute):
                    root = root.value
                if isinstance(root, ast.Name) and root.id == "self" and v.attr == st.targets[0].attr and not (isinstance(st.targets[0].value, ast.Name) and st.targets[0].value.id == "self"):
                    shared.setdefault(v.attr, []).append((fi, st))
    # only fields that can hold a mutable value (an array / list is stored into them somewhere in the notation classes)
    def holds_container(attr):
        for c in eng.prog.classes.values():
            if c.name not in notation:
                continue
            for fs in c.methods.values():
                for f in fs:
                    for n_ in ast.walk(f.node):
                        if isinstance(n_, ast.Assign) and any(isinstance(t, ast.Attribute) and t.attr == attr for t in n_.targets):
                            v = n_.value
                            if isinstance(v, (ast.List, ast.ListComp, ast.Dict, ast.Set)) or (isinstance(v, ast.Call) and callee_name(v) in ("array", "asarray", "list", "zeros", "ones", "copy", "deepcopy")):
                                return True
        return False

    fields = {f for f in shared if holds_container(f)}
    shared = {f: L for f, L in shared.items() if f in fields}
    reach = eng.reachable_funcs(generate_roots(eng))
    MUT = {"sort", "reverse", "append", "extend", "insert", "pop", "remove", "clear", "fill", "put", "itemset", "resize"}
    n = 0
    bad = []

    def _mutated_bases(fi, fl):
        """(statement, base expression) of every in-place change in the function's own statements"""
        for st in own_nodes(fi.node):
            if isinstance(st, ast.AugAssign) and fl.cfg.has(st):
                t = st.target
                yield st, (t.value if isinstance(t, ast.Subscript) else t)
            elif isinstance(st, ast.Assign) and fl.cfg.has(st):
                for t in st.targets:
                    if isinstance(t, ast.Subscript):
                        yield st, t.value
            elif isinstance(st, ast.Call) and isinstance(st.func, ast.Attribute) and st.func.attr in MUT and fl.cfg.has(st):
                yield st, st.func.value

    _mp_cache = {}

    def mutated_params(fi, depth=2):
        """names of parameters whose argument the function changes in place (through plain aliases and NumPy's
        asarray / ravel / reshape / view, which hand back the same array when they can) — directly or by handing it on"""
        from ..effects import ALIAS_CALLS

        if fi.qualname in _mp_cache:
            return _mp_cache[fi.qualname]
        _mp_cache[fi.qualname] = {}
        fl = eng.flow(fi)
        out = {}

        def param_of(e, at, d=4):
            if isinstance(e, ast.Call) and callee_name(e) in ALIAS_CALLS and d > 0:
                base = e.args[0] if (e.args and callee_name(e).startswith("as")) else (e.func.value if isinstance(e.func, ast.Attribute) else None)
                return param_of(base, at, d - 1) if base is not None else None
            if isinstance(e, ast.Name) and d > 0:
                for df in fl.reaching(e.id, at):
                    if df.kind == "param" and e.id not in ("self", "cls"):
                        return e.id
                    if df.kind == "assign" and df.value is not None:
                        h = param_of(df.value, df.nid, d - 1)
                        if h:
                            return h
            return None

        for st, base in _mutated_bases(fi, fl):
            h = param_of(base, fl.cfg.node_of(st))
            if h:
                out.setdefault(h, st.lineno)
        if depth > 0:
            for st in own_nodes(fi.node):
                if isinstance(st, ast.Call) and fl.cfg.has(st):
                    for tgt in eng.resolve_call(fi, st):
                        if not hasattr(tgt, "params") or not hasattr(tgt, "qualname") or tgt.qualname == fi.qualname:
                            continue
                        inner = mutated_params(tgt, depth - 1)
                        if not inner:
                            continue
                        ps = [x for x in tgt.params if x not in ("self", "cls")]
                        for i, a in enumerate(st.args):
                            if i < len(ps) and ps[i] in inner:
                                h = param_of(a, fl.cfg.node_of(st))
                                if h:
                                    out.setdefault(h, st.lineno)
                        for kw in st.keywords:
                            if kw.arg in inner:
                                h = param_of(kw.value, fl.cfg.node_of(st))
                                if h:
                                    out.setdefault(h, st.lineno)
        _mp_cache[fi.qualname] = out
        return out

    for q in sorted(reach):
        fi = eng.prog.functions.get(q)
        if fi is None:
            continue
        fl = eng.flow(fi)

        def aliases_field(e, at, depth=3):
            """the expression is (a plain alias of) an attribute read of a shared field — NumPy's asarray / ravel / reshape /
            view hand back the very same array when they can, so they are aliases too"""
            from ..effects import ALIAS_CALLS

            if isinstance(e, ast.Attribute) and e.attr in fields:
                return e.attr
            if isinstance(e, ast.Call) and callee_name(e) in ALIAS_CALLS and depth > 0:
                base = e.args[0] if (e.args and callee_name(e).startswith("as")) else (e.func.value if isinstance(e.func, ast.Attribute) else None)
                return aliases_field(base, at, depth - 1) if base is not None else None
            if isinstance(e, ast.Name) and fl.is_local(e.id) and depth > 0:
                for d in fl.reaching(e.id, at):
                    if d.kind == "assign" and d.value is not None:
                        h = aliases_field(d.value, d.nid, depth - 1)
                        if h:
                            return h
            return None

        for st in own_nodes(fi.node):
            hit = None
            if isinstance(st, ast.AugAssign) and fl.cfg.has(st):
                t = st.target
                base = t.value if isinstance(t, ast.Subscript) else t
                hit = aliases_field(base, fl.cfg.node_of(st))
            elif isinstance(st, ast.Assign) and fl.cfg.has(st):
                for t in st.targets:
                    if isinstance(t, ast.Subscript):
                        hit = hit or aliases_field(t.value, fl.cfg.node_of(st))
            elif isinstance(st, ast.Call) and isinstance(st.func, ast.Attribute) and st.func.attr in MUT and fl.cfg.has(st):
                hit = aliases_field(st.func.value, fl.cfg.node_of(st))
            if hit:
                bad.append(f"{fi.qualname} line {st.lineno}: in-place change of a value read from .{hit}")
            # the value is handed to a function that changes its argument in place
            if isinstance(st, ast.Call) and fl.cfg.has(st) and (st.args or st.keywords):
                for tgt in eng.resolve_call(fi, st):
                    if not hasattr(tgt, "params") or not hasattr(tgt, "qualname"):
                        continue
                    inner = mutated_params(tgt)
                    if not inner:
                        continue
                    ps = [x for x in tgt.params if x not in ("self", "cls")]
                    pairs = [(ps[i], a) for i, a in enumerate(st.args) if i < len(ps)] + [(kw.arg, kw.value) for kw in st.keywords if kw.arg]
                    for pn, a in pairs:
                        if pn in inner:
                            h = aliases_field(a, fl.cfg.node_of(st))
                            if h:
                                bad.append(f"{fi.qualname} line {st.lineno}: a value read from .{h} is passed as `{pn}` to {tgt.qualname}, which changes that argument in place (line {inner[pn]})")
        n += 1
    where = "; ".join(f".{f} shared at {fi.module.relpath}:{st.lineno}" for f, L in sorted(shared.items()) for fi, st in L[:1])
    res.ob(rule, "package", "no-in-place-change", f"no in-place change of a value read from a field that generation shares with the parsed object ({where})", "-", not bad, "; ".join(bad[:3]))
    return n


def check(eng, res):
    res.doc("R-RNG-THREAD", "every call to a callee with an rng parameter (and every SciPy rvs) passes the generator in scope")
    res.doc("R-GLOBAL-RNG-USE", "_GLOBAL_RNG only as default / None-fallback; no legacy global random functions; unseeded default_rng only as fallback")
    res.doc("R-NO-PARSER-STORE", "A-EFFECT: no store reachable from an entry point (generate, printers, graph builders, probability, typing) lands in constructor-established state of a parsed object")
    res.doc("R-NO-SHARED-MUTABLE", "a mutable bound in a class body is never mutated through self without a per-instance rebinding in the constructor")
    res.doc("R-COPY-OWNED", "every value stored into MolGen.bond_descriptors is a deep copy")
    res.doc("R-ACCESSOR-COPY", "Molecule.elements returns, and gen_mirror edits, deep copies")
    copy_plain(eng, res)
    shared_arrays(eng, res)
    n1 = rng_thread(eng, res)
    res.floor("R-RNG-THREAD", n1, 15)
    n2 = global_rng_use(eng, res)
    res.floor("R-GLOBAL-RNG-USE", n2, 8)
    n3, E = no_parser_store(eng, res)
    res.floor("R-NO-PARSER-STORE", n3, 60)
    n5 = history_state(eng, res, E)
    res.floor("R-NO-HISTORY-STATE", n5, 60)
    n4 = copy_owned(eng, res)
    res.floor("R-COPY-OWNED", n4, 2)
    shared_mutable(eng, res)
    shared_class_object(eng, res)
    from ..memo import memo_rules, positive_example_fires as _memo_pos

    memo_rules(eng, res)
    res.ob("R-MEMO", "selfcheck", "positive-example", "built-in positive example (a memoised value over re-assigned state, a memoised factory of changing objects) is flagged, its harmless twin is not", "-", _memo_pos(), "the memo analysis no longer detects the built-in example")
    accessor_copy(eng, res)
    # information: module-level mutable state written from functions
    for fi in eng.prog.all_functions():
        gl = [n for n in own_nodes(fi.node) if isinstance(n, ast.Global)]
        for g in gl:
            res.info(f"{fi.module.relpath}:{g.lineno} {fi.qualname} writes module-level state {g.names} (the force-field cache: decided under C20, not armed here)")
    gen = eng.prog.func_opt("system.System.generator")
    if gen is not None and gen.is_property and "rng" in gen.params:
        res.info("system.System.generator is a property with an `rng` default parameter: no generator can be supplied, the ensemble always uses the library's global generator (API limitation, reported as information)")
    res.assumptions += [
        "values returned by constructors, literals, copy.deepcopy, NumPy constructors and non-accessor calls are fresh (A-OWN)",
        "RDKit / NetworkX calls do not reach back into parsed objects",
        "a private memo attribute that no constructor establishes is outside R-NO-PARSER-STORE",
    ]
    res.not_decided += ["determinism of RDKit / NumPy", "equality of outputs over all histories"]
