"""C16 — the reaction graph states the generator's probabilities, normalised at every node (structural part)."""
from __future__ import annotations

import ast
import re

from ..cfg import within
from ..loader import AnalysisError, norm, own_nodes, src
from ..util import callee_name, calls, kwarg
from . import c08

LEVEL = "other"
PROB_KEYS = ("prob", "term_prob", "trans_prob")


def conjuncts(e, pol=True):
    """Canonical conjunct texts of a guard (polarity folded in, comparisons oriented): [(text, True)]."""
    from ..ctext import cconj

    return [(t, True) for t in cconj(e, pol)]


def site_guards(cfg, node, upto=None):
    """Conjuncts of all If tests guarding `node` (optionally only those nested inside `upto`)."""
    out = []
    for t, pol in cfg.guard_exprs(cfg.node_of(node)):
        st = getattr(t, "_parent", None)
        if isinstance(st, ast.If) and (upto is None or within(st, upto)):
            out += conjuncts(t, pol)
    return out


def rename(text: str, var: str, to: str = "§v") -> str:
    return re.sub(rf"\b{re.escape(var)}\b", to, text)


class EdgeSite:
    def __init__(self, fi, flow, call):
        self.call = call
        cfg = flow.cfg
        self.loops = [l for l in cfg.enclosing_loops(call) if isinstance(l, ast.For)]
        self.key = None
        self.value = None
        for k in call.keywords:
            if k.arg in PROB_KEYS:
                self.key, self.value = k.arg, k.value
        self.a0 = src(call.args[0]) if call.args else None
        self.a1 = src(call.args[1]) if len(call.args) > 1 else None
        self.guards = site_guards(cfg, call)


def _loop_var(lp):
    t = lp.target
    if isinstance(t, ast.Name):
        return t.id
    if isinstance(t, ast.Tuple) and t.elts and isinstance(t.elts[-1], ast.Name):
        return t.elts[-1].id
    return None


def node_cover(eng, res, fi, rule="R-NODE-COVER"):
    flow = eng.flow(fi)
    cfg = flow.cfg
    # element dispatch: both kinds handled, anything else raises (decided on the guards of the registering statements)
    loops = [l for l in own_nodes(fi.node) if isinstance(l, ast.For) and src(l.iter) == "self._elements" and not cfg.enclosing_loops(l)]
    disp = None
    ok = False
    why = "no element dispatch loop"
    for l in loops:
        v = _loop_var(l)
        regs = [st for st in ast.walk(l) if isinstance(st, ast.Assign) and isinstance(st.targets[0], ast.Subscript) and isinstance(st.targets[0].value, ast.Name)]
        if not regs:
            continue
        disp = (l, regs[0])
        tok_regs, sto_regs = [], []
        for st in regs:
            g = {t for t, _ in site_guards(cfg, st, l)}
            if f"isinstance({v}, SmilesToken)" in g and src(st.value) == v and src(st.targets[0].slice) == v:
                tok_regs.append(st)
            if f"isinstance({v}, Stochastic)" in g and src(st.value) == v:
                lp2 = [x for x in cfg.enclosing_loops(st) if isinstance(x, ast.For) and x is not l]
                if lp2 and "repeat_tokens" in src(lp2[0].iter) and "end_tokens" in src(lp2[0].iter) and src(st.targets[0].slice) == _loop_var(lp2[0]):
                    sto_regs.append(st)
        raises = [r for r in ast.walk(l) if isinstance(r, ast.Raise)]
        rg = [{t for t, _ in site_guards(cfg, r, l)} for r in raises]
        raise_ok = any(f"not isinstance({v}, SmilesToken)" in g and f"not isinstance({v}, Stochastic)" in g for g in rg)
        ok = len(tok_regs) == 1 and len(sto_regs) == 1 and raise_ok
        why = f"token registrations {len(tok_regs)}, stochastic registrations {len(sto_regs)}, other kinds raise: {raise_ok}"
    res.ob(rule, fi, "element-dispatch", "every element is registered: plain tokens, and for stochastic objects every repeat AND end token; any other kind raises", fi.node, ok, why)
    # one add_node per residue, one per descriptor
    adds = calls(fi, "add_node")
    rname = disp[1].targets[0].value.id if disp is not None else None
    res_nodes = [c for c in adds if c.args and any(isinstance(l, ast.For) and src(l.iter) == rname for l in cfg.enclosing_loops(c)) and src(c.args[0]) == _loop_var([l for l in cfg.enclosing_loops(c) if isinstance(l, ast.For)][-1])]
    bd_nodes = [c for c in adds if c.args and any(isinstance(l, ast.For) and src(l.iter).endswith(".bond_descriptors") for l in cfg.enclosing_loops(c))]
    ok = len(res_nodes) >= 1 and len(bd_nodes) == 1
    if ok:
        c = bd_nodes[0]
        lp = [l for l in cfg.enclosing_loops(c) if isinstance(l, ast.For)][0]
        ok = src(c.args[0]) == _loop_var(lp) and not site_guards(cfg, c, lp) and kwarg(c, "weight") is not None and src(kwarg(c, "weight")) == f"{_loop_var(lp)}.weight"
    res.ob(rule, fi, "node-per-token-and-descriptor", "one node per residue and one node per bond descriptor of every residue (unconditionally), carrying its weight", fi.node, ok,
           f"{len(res_nodes)} residue add_node site(s), {len(bd_nodes)} descriptor add_node site(s)")
    # identity: neither class defines __eq__ / __hash__
    bad = [c for c in ("SmilesToken", "BondDescriptor") if any(eng.prog.lookup_method(eng.prog.cls(c), m) for m in ("__eq__", "__hash__"))]
    res.ob(rule, "package", "node-identity", "tokens and descriptors are hashed by identity (one node per object)", "-", not bad, f"{bad} define __eq__/__hash__")
    # residue -> descriptor edges for generable descriptors
    atom_edges = [c for c in calls(fi, "add_edge") if kwarg(c, "atom") is not None]
    ok = len(atom_edges) == 1 and src(kwarg(atom_edges[0], "atom")).endswith(".atom_bonding_to")
    res.ob(rule, fi, "residue-descriptor-edge", "each residue is linked to its descriptors with the binding atom", atom_edges[0] if atom_edges else fi.node, ok)


def norm_agree(eng, res, fi, rule="R-NORM-AGREE"):
    flow = eng.flow(fi)
    cfg = flow.cfg
    sites = [EdgeSite(fi, flow, c) for c in calls(fi, "add_edge")]
    n = 0
    for s in sites:
        if s.key is None:
            continue
        v = s.value
        role = f"{s.key}:{_site_key(s)}"
        if isinstance(v, ast.Constant):
            continue  # constant 1.0 edges: handled by R-EDGE-COMPAT only
        if isinstance(v, ast.Name):
            # list-transition family: p from enumerate(prob), prob = transitions / weight
            n += 1
            lp = s.loops[0] if s.loops else None
            ok = False
            why = f"value {src(v)}"
            if lp is not None and isinstance(lp.iter, ast.Call) and callee_name(lp.iter) == "enumerate":
                pv = lp.iter.args[0]
                okn, whyn = c08.normalised(flow, pv, cfg._foriter[id(lp)])
                idx = lp.target.elts[0].id if isinstance(lp.target, ast.Tuple) else None
                other = flow.expand_ssa(s.call.args[1], cfg.node_of(s.call))
                aligned = idx is not None and src(other).endswith(f".bond_descriptors[§idx({src(flow.expand_ssa(pv, cfg._foriter[id(lp)]))})]")
                pt = flow.expand_ssa(pv, cfg._foriter[id(lp)])
                raw = pv
                if isinstance(pv, ast.Name):
                    ds = flow.reaching(pv.id, cfg._foriter[id(lp)])
                    raw = ds[0].value if len(ds) == 1 and ds[0].kind == "assign" else pv
                same_desc = isinstance(raw, ast.BinOp) and src(raw.left) == f"{s.a0}.transitions" and src(raw.right) == f"{s.a0}.weight"
                # the whole list is one probability vector: every entry is emitted, by one site, as the reaction kind
                fam = [x for x in sites if x.loops and x.loops[0] is lp]
                one_kind = len(fam) == 1 and s.key == "prob"
                from ..lits import lits as _lits

                gl = set()
                for t_, pol_ in site_guards(cfg, s.call, lp):
                    gl.add(t_)
                only_nonneg = all(("<= " + src(v)) in t_ or (src(v) + " >= ") in t_ or t_.startswith("0 <= ") for t_ in gl)
                ok = okn and aligned and same_desc and one_kind and only_nonneg
                why = (f"{whyn}; target aligned with list position: {aligned}; list of the source descriptor: {same_desc}; emitted by one site as `prob`: {one_kind}"
                       f" ({len(fam)} site(s), kind {s.key}); extra conditions on an entry: {sorted(gl)}")
            res.ob(rule, fi, role, "listed transition weights: probabilities are the source descriptor's list divided by its sum, entry i going to descriptor i", s.call, ok, why)
            continue
        if not (isinstance(v, ast.BinOp) and isinstance(v.op, ast.Div) and isinstance(v.right, ast.Name)):
            n += 1
            res.ob(rule, fi, role, "an emitted probability is a term divided by the accumulated normaliser", s.call, False, f"value {src(v)} is not term / normaliser")
            continue
        n += 1
        den = v.right.id
        num = v.left
        lp_e = s.loops[0] if s.loops else None
        ve = _loop_var(lp_e) if lp_e is not None else None
        # accumulation sites of the denominator
        augs = [d for d in flow.defs if d.name == den and d.kind == "aug" and isinstance(d.extra, ast.Add)]
        # choose those in the same enclosing block as the emitting loop (same family)
        fam = [d for d in augs if _same_family(cfg, d.stmt, lp_e)]
        ok = len(fam) == 1 and lp_e is not None
        why = f"{len(fam)} accumulation site(s) of {den} next to this edge loop"
        if ok:
            d = fam[0]
            lp_a = [l for l in cfg.enclosing_loops(d.stmt) if isinstance(l, ast.For)][0]
            va = _loop_var(lp_a)
            coll_ok = src(lp_a.iter) == src(lp_e.iter)
            term_ok = rename(src(d.value), va) == rename(src(num), ve)
            ga = {(rename(t, va), p) for t, p in site_guards(cfg, d.stmt, lp_a)}
            ge = {(rename(t, ve), p) for t, p in site_guards(cfg, s.call, lp_e)}
            extra = ge - ga
            missing = ga - ge
            extra_ok = all(t == "0 < §v.weight" and p for t, p in extra)
            order_ok = cfg.node_of(lp_e) in cfg.reachable([cfg.node_of(lp_a)]) and cfg.node_of(lp_a) not in cfg.reachable([cfg.node_of(lp_e)]) or _nested_same_outer(cfg, lp_a, lp_e)
            # other definitions of the normaliser: zero init, and the near-zero reset to 1
            others = [x for x in flow.defs if x.name == den and x.kind == "assign" and _same_family(cfg, x.stmt, lp_e, init=True)]
            init_ok = any(isinstance(x.value, ast.Constant) and x.value.value == 0 for x in others)
            reset_ok = all((isinstance(x.value, ast.Constant) and x.value.value in (0, 1)) for x in others)
            # the reset to 1 applies only to a total that is zero: a larger threshold would rescale small real weights
            zero_ok, zero_why = True, ""
            resets = [x for x in flow.defs if x.name == den and x.kind == "assign" and isinstance(getattr(x.stmt, "_parent", None), ast.If)
                      and getattr(x.stmt._parent, "_parent", None) is getattr(lp_e, "_parent", None)]
            reset_ok = reset_ok and all(isinstance(x.value, ast.Constant) and x.value.value == 1 for x in resets)
            for x in resets:
                if isinstance(x.value, ast.Constant) and x.value.value == 1:
                    b = _upper_bound_of(fi, cfg, x.stmt, den)
                    if b is None or b > 1e-12:
                        zero_ok, zero_why = False, f"; the normaliser is replaced by 1 below {b!r} (only a zero total may be replaced)"
            ok = coll_ok and term_ok and not missing and extra_ok and init_ok and reset_ok and zero_ok
            why = (f"same collection: {coll_ok}; numerator is the accumulated term: {term_ok}; filter of the normaliser not in the edge filter: {sorted(missing)}; "
                   f"extra edge filter: {sorted(extra)}; normaliser starts at 0: {init_ok}{zero_why}")
        res.ob(rule, fi, role, "normaliser loop and edge loop range over the same collection with the same filter (edges may only drop zero weights); the numerator is the accumulated term",
               s.call, ok, why)
    return n


def _upper_bound_of(fi, cfg, stmt, name):
    """smallest constant c with a guard `name < c` / `name <= c` / `name == 0` on every path to stmt (module constants resolved)."""
    best = None
    for t, pol in cfg.guard_exprs(cfg.node_of(stmt)):
        conj = t.values if (isinstance(t, ast.BoolOp) and isinstance(t.op, ast.And) and pol) else [t]
        for c in conj:
            if not (isinstance(c, ast.Compare) and len(c.ops) == 1 and pol):
                continue
            l, op, r = c.left, c.ops[0], c.comparators[0]
            if isinstance(r, ast.Name) and r.id == name and isinstance(op, (ast.Gt, ast.GtE)):
                l, r, op = r, l, ast.Lt()
            if not (isinstance(l, ast.Name) and l.id == name):
                continue
            v = _const_value(fi, r)
            if v is None:
                continue
            if isinstance(op, (ast.Lt, ast.LtE)) or (isinstance(op, ast.Eq) and v == 0):
                best = v if best is None else min(best, v)
    return best


def _const_value(fi, e):
    if isinstance(e, ast.Constant) and isinstance(e.value, (int, float)) and not isinstance(e.value, bool):
        return float(e.value)
    if isinstance(e, ast.Name):
        for st in fi.module.tree.body:
            if isinstance(st, ast.Assign) and any(isinstance(x, ast.Name) and x.id == e.id for x in st.targets):
                return _const_value(fi, st.value)
    return None


def _same_family(cfg, stmt, lp_e, init=False) -> bool:
    """stmt (or its loop) and the emitting loop share the same enclosing block."""
    if lp_e is None:
        return False
    n = stmt
    if not init:
        ls = [l for l in cfg.enclosing_loops(stmt) if isinstance(l, ast.For)]
        if not ls:
            return False
        n = ls[0]
    return getattr(n, "_parent", None) is getattr(lp_e, "_parent", None)


def _nested_same_outer(cfg, a, b) -> bool:
    return getattr(a, "_parent", None) is getattr(b, "_parent", None)


def _site_key(s: EdgeSite) -> str:
    g = sorted(t for t, p in s.guards if "isinstance" in t)
    kinds = "+".join(re.findall(r"isinstance\((\w+), (\w+)\)", " ".join(g))[i][1] for i in range(len(re.findall(r"isinstance\((\w+), (\w+)\)", " ".join(g)))))
    return kinds or "object"


def edge_compat(eng, res, fi, rule="R-EDGE-COMPAT"):
    flow = eng.flow(fi)
    sites = [EdgeSite(fi, flow, c) for c in calls(fi, "add_edge")]
    n = 0
    for s in sites:
        if s.key is None:
            continue
        if isinstance(s.value, ast.Name):
            continue  # listed transition weights: the list itself names the partners
        n += 1
        pos = {t for t, p in s.guards if p}
        ok = f"{s.a0}.is_compatible({s.a1})" in pos or f"{s.a1}.is_compatible({s.a0})" in pos
        res.ob(rule, fi, f"{s.key}:{_site_key(s)}:{'const' if isinstance(s.value, ast.Constant) else 'weight'}", "a probability edge joins two descriptors only under is_compatible of exactly these two",
               s.call, ok, f"edge {s.a0} -> {s.a1} under {sorted(pos)[:4]}")
    return n


def _kinds(pos):
    """{var: kind} from isinstance($X, SmilesToken|Stochastic) conjuncts."""
    out = {}
    for t in pos:
        m = re.fullmatch(r"isinstance\((\w+), (SmilesToken|Stochastic)\)", t)
        if m:
            out[m.group(1)] = m.group(2)
    return out


def pool_agree(eng, res, fi, rule="R-POOL-AGREE"):
    from ..ctext import cpat
    from ..pat import solve, unify

    flow = eng.flow(fi)
    cfg = flow.cfg
    sites = [EdgeSite(fi, flow, c) for c in calls(fi, "add_edge")]
    n = 0
    combos = set()
    pairs = []
    for s in sites:
        if s.key is None or isinstance(s.value, ast.Name):
            continue
        n += 1
        pos = {t for t, p in s.guards if p}
        kinds = _kinds(pos)
        role = f"{s.key}:{_site_key(s)}:{'const' if isinstance(s.value, ast.Constant) else 'weight'}"
        # the element whose descriptors the innermost loop ranges over
        inner = s.loops[0] if s.loops else None
        envN = unify("$N.bond_descriptors", src(inner.iter)) if inner is not None else None
        N = envN["N"] if envN else None
        if s.key in ("prob", "term_prob"):
            pool = "repeat_tokens" if s.key == "prob" else "end_tokens"
            ok = N is not None and solve([cpat(f"$D[{s.a1}] in {N}.{pool}")], pos) is not None and kinds.get(N) == "Stochastic"
            what = ("reaction edges range over repeat-unit descriptors (the growth pool)" if s.key == "prob"
                    else "termination edges range over end-group descriptors (the capping pool)")
        else:
            others = [v for v in kinds if v != N]
            E = others[0] if len(others) == 1 else None
            need = []
            if N is not None and kinds.get(N) == "Stochastic":
                need += [f"{s.a1}.is_compatible({N}.left_terminal)", f"$D[{s.a1}] in {N}.repeat_tokens"]
            if E is not None and kinds.get(E) == "Stochastic":
                need += [f"{s.a0}.is_compatible({E}.right_terminal)", f"$D[{s.a0}] in {E}.repeat_tokens"]
                if isinstance(s.value, ast.Constant):
                    # a constant probability must not be claimed for a target the generator never picks (weight 0)
                    need += [f"{s.a1}.weight > 0"]
            ok = N is not None and E is not None and kinds.get(N) in ("Stochastic", "SmilesToken") and solve([cpat(x) for x in need], pos) is not None
            combos.add((kinds.get(E, "?"), kinds.get(N, "?")))
            pairs.append((E, N))
            what = ("inter-element edges enter only the next element's repeat-unit descriptors admitted by its left terminal and leave only "
                    "repeat-unit descriptors admitted by the right terminal")
            if not ok:
                what += f" (required: {need})"
        res.ob(rule, fi, role, what, s.call, ok, f"guards {sorted(pos)[:6]}")
    want = {("SmilesToken", "SmilesToken"), ("SmilesToken", "Stochastic"), ("Stochastic", "SmilesToken"), ("Stochastic", "Stochastic")}
    res.ob(rule, fi, "transition-combinations", "transition edges exist for all four combinations of consecutive element kinds", fi.node, combos == want, f"found {sorted(combos)}")
    # next element is the directly following one
    ok = bool(pairs)
    for E, N in set(pairs):
        dE = [d for d in flow.defs if d.name == E and d.kind == "assign"]
        dN = [d for d in flow.defs if d.name == N and d.kind == "assign"]
        eE = [unify("self._elements[$I]", src(d.value)) for d in dE]
        eN = [unify("self._elements[$I + 1]", src(d.value)) for d in dN]
        ok = ok and len(dN) == 1 and eN[0] is not None and any(e is not None and e["I"] == eN[0]["I"] for e in eE)
    res.ob(rule, fi, "consecutive-elements", "transitions connect an element with the directly following element only", fi.node, ok)
    return n


def check(eng, res):
    from ..fresh import fresh_flags

    res.doc("R-FRESH-FLAG", "A-FRESH: no condition flag tested inside a loop keeps its value from a previous iteration")
    fresh_flags(eng, res, {'molecule'})
    res.doc("R-NODE-COVER", "both element kinds dispatched (others raise); one node per residue and per descriptor; identity hashing")
    res.doc("R-NORM-AGREE", "for each probability family the normaliser loop and the edge loop agree on collection, filter and term")
    res.doc("R-EDGE-COMPAT", "every scalar-weight probability edge is control-dependent on is_compatible of its two endpoints")
    res.doc("R-POOL-AGREE", "edge pools equal the generator's pools (repeat / end / next element's admitted repeat descriptors)")
    fi = eng.prog.func("molecule.Molecule.gen_reaction_graph")
    res.unit(fi)
    node_cover(eng, res, fi)
    n = norm_agree(eng, res, fi)
    res.floor("R-NORM-AGREE", n, 5)
    n = edge_compat(eng, res, fi)
    res.floor("R-EDGE-COMPAT", n, 6)
    n = pool_agree(eng, res, fi)
    res.floor("R-POOL-AGREE", n, 6)
    # information: the library's own validate_graph only validates the last node
    for f in fi.nested.values():
        if f.name == "validate_graph":
            res.info(f"{f.module.relpath}:{f.node.lineno} validate_graph resets its accumulators per node but tests them after the loop: only the last node is validated "
                     "(a dead mechanism, not a violation: the rules above check the construction directly)")
    res.assumptions += ["R-WEIGHT-INVARIANT (C08): weight == Σ transitions", "networkx add_edge / add_node semantics"]
    res.not_decided += ["numeric equality with the generator's law in degenerate cases (all weights zero)", "constant trans_prob = 1.0 edges when a following token offers several compatible descriptors"]
