"""C06 — well-posed molecules generate to completion in written order (ordering / pairing part)."""
from __future__ import annotations

import ast

from ..formula import Canon, equivalent, parse_expr
from ..guards import returns_true_formula
from ..loader import AnalysisError, norm, own_nodes, src
from ..util import callee_name, calls, with_nested
from . import c07

LEVEL = "other"
ATTACH = "mol_gen.MolGen.attach_other"


def elem_order(eng, res, rule="R-ELEM-ORDER"):
    fi = eng.prog.func("molecule.Molecule.generate")
    res.unit(fi)
    flow = eng.flow(fi)
    cfg = flow.cfg
    loops = [n for n in own_nodes(fi.node) if isinstance(n, ast.For)]
    gens = [c for c in calls(fi, "generate")]
    if len(loops) != 1 or len(gens) != 1:
        res.ob(rule, fi, "single-loop", "one loop over the elements with one generate call", fi.node, False, f"{len(loops)} loop(s), {len(gens)} generate call(s)")
        return
    lp, g = loops[0], gens[0]
    it = flow.expand_ssa(lp.iter, cfg._foriter[id(lp)])
    res.ob(rule, fi, "iterates-elements-in-order", "the loop iterates the element list itself (no reversed / sorted / slice / copy in another order)", lp,
           src(it) == "self._elements", f"iterates {src(it)}")
    recv_ok = isinstance(g.func.value, ast.Name) and isinstance(lp.target, ast.Name) and g.func.value.id == lp.target.id
    res.ob(rule, fi, "generate-on-loop-element", "each element's own generate is called", g, recv_ok and lp in cfg.enclosing_loops(g))
    # every element exactly once: no early exit from the loop, the call lies on every path through the body
    early = [n for n in own_nodes(lp) if isinstance(n, (ast.Break, ast.Return)) or (isinstance(n, ast.Continue))]
    hn = cfg.node_of(lp)
    gn = cfg.node_of(g)
    starts = [d for d, l in cfg.succ[hn] if l == "T"]
    skip = hn in cfg.reachable(starts, avoid_nodes={gn})
    res.ob(rule, fi, "every-element-once", "every element is generated exactly once: no break / continue / return inside the loop, the call lies on every path through its body",
           early[0] if early else lp, not early and not skip and not cfg.enclosing_loops(lp),
           f"{'early exit at line ' + str(early[0].lineno) if early else 'an iteration can skip the element'}: later elements (suffix, following blocks) would be dropped")
    # prefix threading: first arg variable v; assigned back to v; v initialised from the caller's prefix
    a0 = g.args[0] if g.args else None
    st = g
    while not isinstance(st, ast.stmt):
        st = getattr(st, "_parent")
    ok = isinstance(a0, ast.Name) and isinstance(st, ast.Assign) and len(st.targets) == 1 and isinstance(st.targets[0], ast.Name) and st.targets[0].id == a0.id
    why = f"call statement: {src(st)[:70]}"
    if ok:
        v = a0.id
        defs = flow.reaching(v, cfg.node_of(g))
        kinds = set()
        for d in defs:
            if d.stmt is st:
                kinds.add("previous-result")
            elif d.kind == "assign" and isinstance(d.value, ast.Name) and d.value.id == fi.params[1]:
                kinds.add("caller-prefix")
            elif d.kind == "param" and d.name == fi.params[1]:
                kinds.add("caller-prefix")
            else:
                kinds.add(f"other:{src(d.stmt)[:40] if d.stmt is not None else d.kind}")
        ok = kinds == {"previous-result", "caller-prefix"}
        why = f"prefix passed to each element has reaching definitions {sorted(kinds)}"
    res.ob(rule, fi, "prefix-threading", "each element receives the caller's prefix (first) or the previous element's result", g, ok, why)
    # rng forwarded
    r = g.args[1] if len(g.args) > 1 else None
    for k in g.keywords:
        if k.arg == "rng":
            r = k.value
    res.ob(rule, fi, "rng-forwarded", "the caller's generator is forwarded to every element", g, r is not None and src(flow.expand_ssa(r, cfg.node_of(g))) == "rng")
    rets = [n for n in own_nodes(fi.node) if isinstance(n, ast.Return)]
    ok = len(rets) == 1 and isinstance(rets[0].value, ast.Name) and isinstance(a0, ast.Name) and rets[0].value.id == a0.id and not cfg.enclosing_loops(rets[0])
    res.ob(rule, fi, "returns-last-result", "the last element's result is returned, after the loop", rets[0] if rets else fi.node, ok)


def handover_guard(eng, res, rule="R-HANDOVER-GUARD"):
    n = 0
    for q in ("token.SmilesToken.generate", "stochastic.Stochastic.generate"):
        fi = eng.prog.func(q)
        res.unit(fi)
        flow = eng.flow(fi)
        cfg = flow.cfg
        sup = [c for c in calls(fi, "generate") if isinstance(c.func.value, ast.Call) and getattr(c.func.value.func, "id", "") == "super"]
        ok = len(sup) == 1
        why = f"{len(sup)} super().generate call(s)"
        if ok:
            s = sup[0]
            a0 = s.args[0] if s.args else None
            if not (isinstance(a0, ast.Name) and a0.id == fi.params[1]):
                ok, why = False, f"base guard called with {src(a0) if a0 is not None else None}, not with the prefix"
            else:
                sn = cfg.node_of(s)
                # every call that (transitively) attaches or builds a fragment must be dominated
                late = []
                for c in calls(fi):
                    if c is s:
                        continue
                    reach = set()
                    for t in eng.repo_callees(fi, c):
                        reach |= eng.reachable_funcs([t.qualname])
                    if ATTACH in reach or "mol_gen.MolGen.__init__" in reach:
                        if not cfg.must_pass(sn, cfg.node_of(c)):
                            late.append(f"line {c.lineno}: {src(c)[:40]}")
                ok = not late
                why = "calls that build / attach before the base guard: " + "; ".join(late)
        n += 1
        res.ob(rule, fi, "base-guard-first", "the base-class guard (generable; prefix has exactly one open descriptor) dominates every attachment", fi.node, ok, why)
    # the base guard itself: roles checked in C15 (gen-not-generable, gen-prefix-single); here: nothing else returns early
    base = eng.prog.func("core.BigSMILESbase.generate")
    res.unit(base)
    rets = [r for r in own_nodes(base.node) if isinstance(r, ast.Return)]
    res.ob(rule, base, "no-early-return", "the base guard has no early return that would skip its checks", base.node, not rets, f"{len(rets)} return statement(s)")
    # Stochastic: start closure result is what growth starts from; start guards dominate growth
    gen = eng.prog.func("stochastic.Stochastic.generate")
    flow = eng.flow(gen)
    cfg = flow.cfg
    start_calls = [c for c in calls(gen) if any(t.name == "get_start" for t in eng.repo_callees(gen, c))]
    grow_calls = [c for c in calls(gen) if any(ATTACH in eng.reachable_funcs([t.qualname]) and t.name != "get_start" and t.parent is not None for t in eng.repo_callees(gen, c))]
    ok = len(start_calls) == 1 and len(grow_calls) == 1 and cfg.must_pass(cfg.node_of(start_calls[0]), cfg.node_of(grow_calls[0]))
    why = f"{len(start_calls)} start call(s), {len(grow_calls)} growth call(s)"
    if ok:
        a = grow_calls[0].args[0] if grow_calls[0].args else None
        t = flow.expand_ssa(a, cfg.node_of(grow_calls[0])) if a is not None else None
        ok = t is not None and isinstance(t, ast.Call) and callee_name(t) == "get_start"
        why = f"growth starts from {src(t) if t is not None else None}"
    res.ob(rule, gen, "start-before-growth", "growth starts from the molecule returned by the start closure (whose guards therefore dominate growth)", gen.node, ok, why)
    rets = [r for r in own_nodes(gen.node) if isinstance(r, ast.Return) and r.value is not None]
    ok = bool(rets) and all(isinstance(flow.expand_ssa(r.value, cfg.node_of(r)), ast.Call) and callee_name(flow.expand_ssa(r.value, cfg.node_of(r))) == grow_calls[0].func.id for r in rets) if grow_calls else False
    res.ob(rule, gen, "returns-grown", "the stochastic object returns the grown and finalised molecule", gen.node, ok)
    return n


def reserve_pair(eng, res, rule="R-RESERVE-PAIR"):
    gen = eng.prog.func("stochastic.Stochastic.generate")
    fin = None
    from ..util import with_helpers

    for f in with_helpers(eng, gen):
        dels = [n for n in own_nodes(f.node) if isinstance(n, ast.Delete)]
        if dels and calls(f, "attach_other"):
            fin = f
    if fin is None:
        res.ob(rule, gen, "reserve-site", "the finalisation reserves one descriptor for the right terminal", gen.node, False, "no finalisation closure that removes a descriptor")
        return
    res.unit(fin)
    flow = eng.flow(fin)
    cfg = flow.cfg
    dels = [n for n in own_nodes(fin.node) if isinstance(n, ast.Delete)]
    if len(dels) != 1:
        res.ob(rule, fin, "single-reserve", "exactly one descriptor is reserved", fin.node, False, f"{len(dels)} delete statement(s)")
        return
    D = dels[0]
    dn = cfg.node_of(D)
    dt = D.targets[0]
    # guard: right terminal is not []
    conds = cfg.guard_exprs(dn)
    can = Canon()
    f = ("and", [can.formula(t, pol) for t, pol in conds])
    want = can.formula(parse_expr("str(self.right_terminal) != '[]'"))
    alt = can.formula(parse_expr("self.right_terminal.generate_string(False) != '[]'"))
    ok = equivalent(f, want)[0] or equivalent(f, alt)[0]
    res.ob(rule, fin, "reserve-when-terminal", "a descriptor is reserved exactly when the right terminal is not []", D, ok, f"guard {[src(t) for t, _ in conds]}")
    # what is deleted: <mol>.bond_descriptors[idx], idx chosen among those compatible with the inverted right terminal
    ok = isinstance(dt, ast.Subscript) and isinstance(dt.value, ast.Attribute) and dt.value.attr == "bond_descriptors"
    idx_t = flow.expand_ssa(dt.slice, dn) if ok else None
    sel_ok = (
        ok and isinstance(idx_t, ast.Call) and callee_name(idx_t) == "choose_compatible_weight" and len(idx_t.args) >= 2
        and src(idx_t.args[0]) == src(flow.expand_ssa(dt.value, dn))
    )
    inv_ok = False
    if sel_ok:
        flt = idx_t.args[1]
        inv_ok = isinstance(flt, ast.Call) and callee_name(flt) == "BondDescriptor" and flt.args and isinstance(flt.args[0], ast.Call) \
            and callee_name(flt.args[0]) == "_create_compatible_bond_text" and src(flt.args[0].args[0]) == "self.right_terminal"
    # the list it is selected in is decided here; a filter descriptor the rule cannot trace back to the right terminal (built once
    # in the enclosing scope, cached, …) is "not recognised", not "wrong"
    unknown_filter = bool(sel_ok and not inv_ok and not (isinstance(idx_t.args[1], ast.Call) and callee_name(idx_t.args[1]) == "BondDescriptor") and not (isinstance(idx_t.args[1], ast.Constant)))
    res.ob(rule, fin, "reserve-selection", "the reserved descriptor is selected in the molecule's own open list among those compatible with the descriptor derived from the right terminal",
           D, sel_ok and inv_ok, f"deleted index {src(idx_t)[:100] if idx_t is not None else None}", soft=unknown_filter)
    # flag variable: assigned the same element before the delete, in the same block
    flag = None
    blk = getattr(D, "_parent")
    for s in getattr(blk, "body", []):
        if isinstance(s, ast.Assign) and len(s.targets) == 1 and isinstance(s.targets[0], ast.Name) and norm(s.value) == norm(dt):
            if cfg.must_pass(cfg.node_of(s), dn):
                flag = s.targets[0].id
    res.ob(rule, fin, "reserve-remembered", "the removed descriptor is remembered in a local before it is removed", D, flag is not None)
    if flag is None:
        return
    # all definitions of the flag: None initialisation + that assignment
    fdefs = [d for d in flow.defs if d.name == flag]
    kinds = sorted("none" if (d.kind == "assign" and isinstance(d.value, ast.Constant) and d.value.value is None) else ("acquire" if norm(d.value) == norm(dt) else "other") for d in fdefs if d.kind == "assign")
    ok = kinds == ["acquire", "none"] and len(fdefs) == 2
    res.ob(rule, fin, "flag-definitions", "the flag is None unless a descriptor was reserved", fin.node, ok, f"definitions: {kinds}")
    # restore: append(flag) under `if flag` / `flag is not None`, on every path from the delete to the return
    apps = [a for a in calls(fin, "append") if a.args and isinstance(a.args[0], ast.Name) and a.args[0].id == flag]
    ok = len(apps) == 1
    why = f"{len(apps)} restore site(s)"
    if ok:
        R = apps[0]
        rn = cfg.node_of(R)
        from ..cfg import within as _within

        rc = [(t, pol) for t, pol in cfg.guard_exprs(rn) if isinstance(getattr(t, "_parent"), ast.If) and _within(R, getattr(t, "_parent"))]
        can2 = Canon()
        g = ("and", [can2.formula(t, pol) for t, pol in rc])
        w1 = can2.formula(parse_expr(flag))
        w2 = can2.formula(parse_expr(f"{flag} is not None"))
        guard_ok = equivalent(g, w1)[0] or equivalent(g, w2)[0]
        test_nodes = [cfg.node_of(getattr(t, "_parent")) for t, _ in rc]
        tn = test_nodes[0] if test_nodes else rn
        post = cfg.must_follow(dn, tn)
        # the restore is not repeated: it sits in no loop that does not also contain the removal (when the finalisation was
        # merged into the growth loop, both are executed once per growth step)
        l_restore = {id(x) for x in cfg.enclosing_loops(R)}
        l_remove = {id(x) for x in cfg.enclosing_loops(D)}
        loopfree = (not cfg.in_loop(rn)) or l_restore <= l_remove
        tgt_ok = isinstance(R.func.value, ast.Attribute) and R.func.value.attr == "bond_descriptors"
        bd = eng.prog.cls("BondDescriptor")
        truthy = not any(eng.prog.lookup_method(bd, m) for m in ("__bool__", "__len__"))
        ok = guard_ok and post and loopfree and tgt_ok and truthy
        why = f"guard-ok={guard_ok} test-post-dominates-removal={post} outside-loop={loopfree} into-open-list={tgt_ok} descriptor-always-truthy={truthy}"
        # same molecule variable (attach_other returns its receiver, checked in C05 R-ONE-BOND)
        if ok:
            mv_del = dt.value.value.id if isinstance(dt.value.value, ast.Name) else None
            mv_app = R.func.value.value.id if isinstance(R.func.value.value, ast.Name) else None
            if mv_del != mv_app:
                ok, why = False, f"removed from {mv_del}.bond_descriptors but restored into {mv_app}.bond_descriptors"
            else:
                bad = []
                for d in flow.defs:
                    if d.name == mv_del and d.kind == "assign":
                        v = d.value
                        if not (isinstance(v, ast.Call) and callee_name(v) == "attach_other" and isinstance(v.func.value, ast.Name) and v.func.value.id == mv_del):
                            bad.append(src(d.stmt)[:50])
                if bad:
                    ok, why = False, f"the molecule variable is re-bound to something else between removal and restore: {bad}"
    # merged into the growth loop the molecule variable has definitions of the growth step as well: the pairing can no longer be
    # told apart from growth by this rule (cannot speak); as a closure / method of its own it is decided
    res.ob(rule, fin, "restore-on-every-path", "the reserved descriptor is re-appended to the same open list on every path from the removal to the return", apps[0] if apps else fin.node, ok, why,
           soft=True if (not ok and cfg.enclosing_loops(D)) else None)
    # capping loop
    loops = [n for n in own_nodes(fin.node) if isinstance(n, ast.While)]
    ok = len(loops) == 1
    why = f"{len(loops)} while loop(s)"
    if ok:
        lp = loops[0]
        can3 = Canon()
        f3 = can3.formula(lp.test)
        mv = dt.value.value.id if isinstance(dt.value.value, ast.Name) else "?"
        w3 = can3.formula(parse_expr(f"len({mv}.bond_descriptors) > 0"))
        ok = equivalent(f3, w3)[0]
        why = f"loop condition {src(lp.test)}"
        att = [c for c in calls(fin, "attach_other")]
        if ok and not (len(att) == 1 and lp in cfg.enclosing_loops(att[0])):
            ok, why = False, "the capping loop body does not contain the single attach_other"
        if ok:
            hn = cfg.node_of(lp)
            an = cfg.node_of(att[0])
            starts = [d for d, l in cfg.succ[hn] if l == "T"]
            r = cfg.reachable(starts, avoid_nodes={an})
            if hn in r:
                ok, why = False, "an iteration of the capping loop can complete without attaching an end group"
        if ok and not cfg.must_pass(dn, hn) and False:
            pass
        # reserve happens before the capping loop
        if ok and hn in cfg.reachable([dn]) is False:
            ok, why = False, "the reservation does not precede the capping loop"
    res.ob(rule, fin, "capping-loop", "capping runs while the open list is non-empty and every iteration attaches one end group", loops[0] if loops else fin.node, ok, why)
    rets = [r for r in own_nodes(fin.node) if isinstance(r, ast.Return) and r.value is not None]
    mv = dt.value.value.id if isinstance(dt.value.value, ast.Name) else None
    merged = bool(cfg.enclosing_loops(D))  # the finalisation was merged into the growth loop: there is no return of its own
    res.ob(rule, fin, "returns-capped", "the finalisation returns the capped molecule", fin.node, bool(rets) and all(isinstance(r.value, ast.Name) and r.value.id == mv for r in rets),
           "the finalisation is part of a larger function: what it hands on is decided by R-FRESH-RESULT / R-DO-WHILE" if merged else "", soft=True if merged else None)


def handover_weight(eng, res, rule="R-HANDOVER-WEIGHT"):
    """The descriptor the parser appends to a prefix / connector token towards the next stochastic object carries
    weight 0: it is never picked when the token is attached to what precedes it and only serves the hand-over."""
    import re

    f = eng.prog.func("molecule.Molecule.__init__")
    res.unit(f)
    fl = eng.flow(f)
    cfg = fl.cfg
    sites = []
    for n in own_nodes(f.node):
        if isinstance(n, ast.Assign) and isinstance(n.value, ast.BinOp) and isinstance(n.value.op, ast.Add) and isinstance(n.value.right, ast.Constant) and isinstance(n.value.right.value, str):
            if "|" in n.value.right.value:
                sites.append(n)
    ok = len(sites) == 1
    why = f"{len(sites)} site(s) appending a weighted descriptor"
    if ok:
        n = sites[0]
        lit = n.value.right.value
        left = fl.expand_ssa(n.value.left, cfg.node_of(n))
        ok = re.fullmatch(r"\|0(\.0*)?\|\]", lit) is not None and src(left).endswith("[:-1]") and "_create_compatible_bond_text(" in src(left) and "left_terminal" in src(left)
        why = f"appends {src(left)[:80]} + {lit!r}"
        g = [src(t) for t, pol in cfg.guard_exprs(cfg.node_of(n)) if pol]
        # `if len(…) >= k: <leave>` in front of the site is the same guard, written as an early exit
        g += [src(t).replace(">=", "<") for t, pol in cfg.guard_exprs(cfg.node_of(n)) if not pol and isinstance(t, ast.Compare) and len(t.ops) == 1 and isinstance(t.ops[0], ast.GtE)]
        ok = ok and any("len(" in x and "bond_descriptors" in x and "<" in x for x in g)
    res.ob(rule, f, "outgoing-descriptor-weight-zero", "the automatically appended outgoing descriptor repeats the next object's left terminal and has weight 0", sites[0] if sites else f.node, ok, why)
    # the two other insertions (front of a connector, front of a suffix) carry no weight: default 1
    ins = [c for c in calls(f, "_create_compatible_bond_text")]
    res.ob(rule, f, "incoming-descriptors-plain", "descriptors inserted at the front of a connector / suffix token are plain (weight 1)", f.node, len(ins) >= 3)


def fully(eng, res, rule="R-FULLY"):
    ci = eng.prog.cls("MolGen")
    fi = ci.method("fully_generated")
    if fi is None:
        return _fully_stored(eng, res, ci, rule)
    res.unit(fi)
    can = Canon()
    f = returns_true_formula(eng, fi, can)
    w = can.formula(parse_expr("len(self.bond_descriptors) == 0"))
    res.ob(rule, fi, "meaning", "fully_generated is true iff the open-descriptor list is empty", fi.node, equivalent(f, w)[0], "returned expression is not `len(self.bond_descriptors) == 0`")


MUTATORS = {"append", "extend", "insert", "pop", "remove", "clear", "sort", "reverse"}


def _fully_stored(eng, res, ci, rule):
    """fully_generated kept as a stored flag: every store must be `len(<obj>.bond_descriptors) == 0` of the same object,
    and every change of a MolGen's open-descriptor list must be followed, before the function returns, by such a
    refresh of the same object (directly or through attach_other, which ends with one)."""
    stores, muts = [], []
    for q, fi in sorted(eng.prog.functions.items()):
        for n in own_nodes(fi.node):
            if isinstance(n, ast.Attribute) and n.attr == "fully_generated" and isinstance(n.ctx, ast.Store):
                own = fi.enclosing_class()
                if not (src(n.value) == "self" and own is not None and own.name != "MolGen"):
                    stores.append((fi, n))
            tgt = None
            if isinstance(n, ast.Attribute) and n.attr == "bond_descriptors" and isinstance(n.ctx, (ast.Store, ast.Del)):
                tgt = n
            elif isinstance(n, ast.Subscript) and isinstance(n.ctx, (ast.Store, ast.Del)) and isinstance(n.value, ast.Attribute) and n.value.attr == "bond_descriptors":
                tgt = n.value
            elif isinstance(n, ast.AugAssign) and isinstance(n.target, ast.Attribute) and n.target.attr == "bond_descriptors":
                tgt = n.target
            elif isinstance(n, ast.Call) and isinstance(n.func, ast.Attribute) and n.func.attr in MUTATORS and isinstance(n.func.value, ast.Attribute) and n.func.value.attr == "bond_descriptors":
                tgt = n.func.value
            if tgt is not None:
                ts = eng.infer(tgt.value, fi)
                definite_other = ts and all(t[0] == "inst" and t[1] != "MolGen" for t in ts)
                in_ctor_of_other = fi.name == "__init__" and fi.enclosing_class() is not None and fi.enclosing_class().name != "MolGen" and src(tgt.value) == "self"
                if not definite_other and not in_ctor_of_other:
                    muts.append((fi, n, tgt))
    if not stores:
        raise AnalysisError("MolGen.fully_generated not found (neither a property nor a stored flag)")
    can = Canon()
    for fi, n in stores:
        st = n
        while not isinstance(st, ast.stmt):
            st = st._parent
        obj = src(n.value)
        ok = isinstance(st, ast.Assign) and equivalent(can.formula(st.value), can.formula(parse_expr(f"len({obj}.bond_descriptors) == 0")))[0]
        res.unit(fi)
        res.ob(rule, fi, f"stored-meaning:{obj}", "a stored fully_generated flag is set to `the open-descriptor list of that object is empty`", n, ok, f"{src(st)[:80]}")
    for fi, n, tgt in muts:
        cfg = eng.flow(fi).cfg
        obj = src(tgt.value)
        nid = cfg.node_of(n)
        refresh = set()
        for x in own_nodes(fi.node):
            if isinstance(x, ast.Attribute) and x.attr == "fully_generated" and isinstance(x.ctx, ast.Store) and src(x.value) == obj:
                refresh.add(cfg.node_of(x))
            if isinstance(x, ast.Call) and isinstance(x.func, ast.Attribute) and x.func.attr == "attach_other" and src(x.func.value) == obj and cfg.has(x):
                refresh.add(cfg.node_of(x))
        refresh.discard(nid)
        after = {d for d, lab in cfg.succ[nid] if lab != "exc"}
        r = cfg.reachable(after, avoid_nodes=refresh, skip_exc=True)
        ok = cfg.exit not in r
        res.unit(fi)
        res.ob(rule, fi, f"stored-refresh:{obj}@{getattr(n, 'lineno', 0) - fi.node.lineno}", "after a change of a half-built molecule's open-descriptor list its stored fully_generated flag is recomputed before the function returns",
               n, ok, f"{obj}.bond_descriptors is changed here and a path reaches the end of {fi.name} without recomputing {obj}.fully_generated")



def do_while(eng, res):
    """Shared with C07: growth step dominates every exit of the growth loop."""
    sub = type(res)(res.prop)
    G = c07.growth_or_violation(eng, sub)
    if G is not None:
        c07.check_growth(eng, sub, G)
    for o in sub.obligations:
        if o.rule == "R-DO-WHILE":
            res.obligations.append(o)
    for u in sub.units:
        if u not in res.units:
            res.units.append(u)


def check(eng, res):
    from ..fresh import fresh_flags

    res.doc("R-FRESH-FLAG", "A-FRESH: no condition flag tested inside a loop keeps its value from a previous iteration")
    fresh_flags(eng, res, {'stochastic', 'molecule'})
    res.doc("R-ELEM-ORDER", "Molecule.generate iterates the element list in order, threading the previous result as prefix, returns the last result")
    res.doc("R-HANDOVER-GUARD", "the base-class guard dominates every attachment in each generate override; start closure before growth")
    res.doc("R-RESERVE-PAIR", "acquire/release pairing of the descriptor reserved for the right terminal; capping loop shape")
    res.doc("R-DO-WHILE", "at least one repeat unit: growth step dominates every loop exit")
    res.doc("R-HANDOVER-WEIGHT", "the descriptor appended for the hand-over to the next object has weight 0")
    res.doc("R-TERMINAL-TRANSFER", "at a hand-over the left terminal's weight and list replace those of the incoming open descriptor (shared with C08)")
    res.doc("R-EQUAL-RULE", "equal weights (incl. a lone zero weight) are made uniform before normalising (shared with C08)")
    res.doc("R-FULLY", "fully_generated == no open descriptor")
    elem_order(eng, res)
    n = handover_guard(eng, res)
    # the start guards of the stochastic object (meaning decided with the machinery of C15)
    from . import c15, c08

    start_roles = [r for r in c15.ROLES if r[0] in ("sto-missing-prefix", "sto-prefix-single", "sto-prefix-terminal", "sto-start-group-single", "gen-prefix-single", "gen-not-generable")]
    c15.check_roles(eng, res, start_roles, rule="R-HANDOVER-GUARD")
    # capping picks: pools of the finalisation phase (shared with C08)
    sub = type(res)(res.prop)
    c08.check_pools(eng, sub)
    for o in sub.obligations:
        if "finalize_mol" in o.role:
            res.obligations.append(o)
    # hand-over between consecutive objects: the left terminal's weight / list replaces whatever the open descriptor
    # carried (a stale list would pick partners in the wrong object), and picks never fail on a lone zero weight
    sub = type(res)(res.prop)
    c08.check_terminal_transfer(eng, sub)
    c08.check_chooser(eng, sub)
    for o in sub.obligations:
        if o.rule in ("R-TERMINAL-TRANSFER", "R-EQUAL-RULE"):
            res.obligations.append(o)
    res.floor("R-HANDOVER-GUARD", n, 2)
    reserve_pair(eng, res)
    handover_weight(eng, res)
    from . import c01

    res.doc("R-INSERT-COND", "the hand-over descriptor is inserted exactly when the token lacks it (shared with C01)")
    c01.insert_conditions(eng, res)
    do_while(eng, res)
    fully(eng, res)
    res.floor("R-DO-WHILE", sum(1 for o in res.obligations if o.rule == "R-DO-WHILE"), 2)
    # the inverted terminal used for the hand-over repeats symbol, id and bond order of the terminal (shared with C01)
    from . import c01 as _c01

    _sub = type(res)(res.prop)
    _c01.insert_accept(eng, _sub, rule="R-INVERT-TEXT")
    for _o in _sub.obligations:
        if _o.role in ("insert-template", "insert-symbol"):
            res.obligations.append(_o)
    res.doc("R-INVERT-TEXT", "the inverted terminal used for the hand-over repeats symbol, id and bond order of the terminal (shared with C01's R-INSERT-ACCEPT)")
    from ..fresh import fresh_results

    res.doc("R-FRESH-RESULT", "A-FRESH: what a loop hands on (the finalised molecule) is assigned in the iteration that leaves the loop")
    fresh_results(eng, res, {"stochastic"})
    from ..memo import memo_rules

    # the mirror swaps an object's terminals after construction: nothing the constructor computed from them may be kept
    memo_rules(eng, res, only_classes=["BigSMILESbase"])
    res.assumptions += ["attach_other returns its receiver (R-ONE-BOND, C05)", "start guards' meaning is decided in C15 (roles sto-missing-prefix, sto-prefix-single, sto-prefix-terminal, sto-start-group-single)"]
    res.not_decided += ["termination (data-dependent loops)", "that every descriptor is consumed", "leaves-only end groups", "closability of descriptor types"]
