"""C04 — generation only bonds compatible, unused descriptors with their bond order (structural part).
Also hosts the rules shared with C05."""
from __future__ import annotations

import ast

from ..loader import AnalysisError, FuncInfo, norm, own_nodes, src
from ..util import (
    RDKIT_MUTATORS,
    RDKIT_SOURCES,
    callee_name,
    calls,
    generate_roots,
    kwarg,
    resolved_sites,
    strip_attr,
    with_nested,
)

LEVEL = "other"
ATTACH = "mol_gen.MolGen.attach_other"


def X(flow, e, at=None):
    return flow.expand_ssa(e, at if at is not None else flow.cfg.node_of(e))


# ---------------------------------------------------------------------- R-BOND-PRIMITIVE / R-ATOM-SOURCE


def bond_primitive(eng, res, rule="R-BOND-PRIMITIVE"):
    roots = generate_roots(eng)
    reach = eng.reachable_funcs(roots)
    reach_wo_attach = eng.reachable_funcs(roots, stop={ATTACH})
    n = 0
    for q in sorted(reach):
        fi = eng.prog.functions[q]
        res.unit(fi)
        for c in calls(fi):
            nm = callee_name(c)
            if nm in RDKIT_MUTATORS:
                n += 1
                ok = q == ATTACH or q not in reach_wo_attach
                res.ob(rule, fi, f"mutator:{nm}", f"RDKit structure mutator {nm} on the generation path only inside/through MolGen.attach_other",
                       c, ok, "reachable from a generate entry point without passing attach_other")
            elif nm in RDKIT_SOURCES:
                n += 1
                ok = q == "mol_gen.MolGen.__init__"
                res.ob(rule, fi, f"source:{nm}", f"molecule construction {nm} on the generation path only in MolGen.__init__",
                       c, ok, "atoms enter a generated molecule outside MolGen.__init__")
    # any store to MolGen._mol outside __init__/attach_other
    for fi in eng.prog.all_functions():
        for node in own_nodes(fi.node):
            if isinstance(node, ast.Attribute) and node.attr == "_mol" and isinstance(node.ctx, ast.Store):
                cls = eng.self_class(fi)
                if not (fi.qualname in reach or (cls is not None and cls.name == "MolGen")):
                    continue
                ok = fi.qualname in ("mol_gen.MolGen.__init__", ATTACH)
                n += 1
                res.ob(rule, fi, "store:_mol", "the stored molecule is assigned only by the constructor and attach_other", node, ok,
                       "another function replaces the generated molecule")
    return n, reach


# ---------------------------------------------------------------------- attach_other anatomy


class Attach:
    def __init__(self, eng):
        self.eng = eng
        self.fi = eng.prog.func(ATTACH)
        self.flow = eng.flow(self.fi)
        self.cfg = self.flow.cfg
        self.addbonds = calls(self.fi, "AddBond")
        self.compat = [c for c in calls(self.fi, "is_compatible")]
        self.add_edges = calls(self.fi, "add_edge")
        self.combine = calls(self.fi, "CombineMols")
        self.union = calls(self.fi, "disjoint_union")

    def term(self, e):
        return X(self.flow, e)


def compat_dom(eng, res, A: Attach, rule="R-COMPAT-DOM"):
    fi, cfg, flow = A.fi, A.cfg, A.flow
    if not A.addbonds:
        res.ob(rule, fi, "addbond-present", "attach_other contains the bond-creating call", fi.node, False, "no AddBond call in attach_other")
        return None
    ok_all = True
    pair = None
    for ab in A.addbonds:
        abn = cfg.node_of(ab)
        found = False
        why = "no is_compatible test guards the bond"
        for c in A.compat:
            tn = cfg.node_of(c)
            st = cfg.nodes[tn].stmt
            if not isinstance(st, ast.If):
                continue
            # polarity: the branch on which is_compatible is true
            from ..formula import Canon, evaluate, atoms_of

            can = Canon()
            f = can.formula(st.test)
            ats = atoms_of(f)
            if len(ats) != 1:
                why = f"compatibility test combined with other conditions: {src(st.test)[:60]}"
                continue
            a = next(iter(ats))
            true_label = "T" if evaluate(f, lambda _: True) else "F"
            false_label = "F" if true_label == "T" else "T"
            raises = cfg.branch_raises(tn, false_label)
            # every path entry -> AddBond uses the true edge
            outs = [(tn, d, l) for d, l in cfg.succ[tn] if l == true_label]
            r = cfg.reachable([cfg.entry], avoid_edges=set(outs))
            if abn not in r and raises:
                found = True
                pair = c
            elif abn in r:
                why = "a path reaches AddBond without the compatibility test being true"
            elif not raises:
                why = "the incompatible branch does not raise"
        res.ob(rule, fi, "compat-dominates-addbond", "every path to AddBond passes is_compatible()==True; the other branch raises", ab, found, why)
        ok_all &= found
    return pair


def operand_agree(eng, res, A: Attach, compat_call, rule="R-OPERAND-AGREE"):
    fi, flow = A.fi, A.flow
    if compat_call is None or not A.addbonds:
        res.ob(rule, fi, "operands", "bonded pair is the tested pair", fi.node, False, "no guarded AddBond to analyse")
        return None
    Xd = A.term(compat_call.func.value)
    Yd = A.term(compat_call.args[0]) if compat_call.args else None
    pair = {norm(Xd), norm(Yd)} if Yd is not None else set()
    ab = A.addbonds[0]
    args = [A.term(a) for a in ab.args]
    ok = False
    why = f"AddBond({', '.join(src(a) for a in args)}) vs tested pair ({src(Xd)}, {src(Yd) if Yd is not None else '?'})"
    if len(args) >= 3:
        p = strip_attr(args[0], "atom_bonding_to")
        q = strip_attr(args[1], "atom_bonding_to")
        r_ = strip_attr(args[2], "bond_type")
        ok = (
            p is not None and q is not None and r_ is not None
            and {norm(p), norm(q)} == pair and len(pair) == 2 and norm(r_) in pair
        )
    res.ob(rule, fi, "addbond-operands", "AddBond joins the atom_bonding_to of exactly the two tested descriptors with the bond_type of one of them",
           ab, ok, why)
    # residue graph edge
    for ae in A.add_edges:
        a = [A.term(x) for x in ae.args]
        bt = kwarg(ae, "bond_type")
        bt = A.term(bt) if bt is not None else None
        ok2 = False
        if len(a) >= 2 and bt is not None:
            p = strip_attr(a[0], "node_idx")
            q = strip_attr(a[1], "node_idx")
            r_ = strip_attr(bt, "bond_type")
            ok2 = p is not None and q is not None and r_ is not None and {norm(p), norm(q)} == pair and norm(r_) in pair
        res.ob(rule, fi, "graph-edge-operands", "the residue-graph edge joins the node_idx of the same two descriptors with their bond_type",
               ae, ok2, f"add_edge({', '.join(src(x) for x in a)}, bond_type={src(bt) if bt is not None else None})")
    return Xd, Yd


def shift(eng, res, A: Attach, pairXY, rule="R-SHIFT"):
    fi, flow, cfg = A.fi, A.flow, A.cfg
    if pairXY is None or not A.addbonds:
        return
    abn = cfg.node_of(A.addbonds[0])
    # which of X/Y is the other side? the one not rooted at self.bond_descriptors
    Xd, Yd = pairXY

    def base_list(d):
        return d.value if isinstance(d, ast.Subscript) else None

    others = [d for d in (Xd, Yd) if "self.bond_descriptors" not in src(d)]
    selfs = [d for d in (Xd, Yd) if "self.bond_descriptors" in src(d)]
    if len(others) != 1 or len(selfs) != 1:
        res.ob(rule, fi, "sides", "one tested descriptor belongs to self, one to the other molecule", fi.node, False,
               f"tested pair: {src(Xd)}, {src(Yd)}")
        return
    other_list = base_list(others[0])
    specs = [
        ("atom_bonding_to", "atoms", A.combine, lambda t: _is_atom_count(t), "_mol", "CombineMols"),
        ("node_idx", "graph", A.union, lambda t: _is_len_of(t, "self.graph"), "graph", "disjoint_union"),
    ]
    for attr_, label, joins, is_count, store_attr, join_name in specs:
        augs = [n for n in own_nodes(fi.node) if isinstance(n, ast.AugAssign) and isinstance(n.target, ast.Attribute) and n.target.attr == attr_]
        good = None
        why = f"no `<descriptor>.{attr_} += <count>` loop over the other side's descriptors"
        for n in augs:
            loops = cfg.enclosing_loops(n)
            if not loops or not isinstance(loops[0], ast.For):
                why = f"shift of {attr_} not inside a loop over the other side's descriptors"
                continue
            lp = loops[0]
            it = X(flow, lp.iter, cfg._foriter[id(lp)])
            tgt_ok = isinstance(n.target.value, ast.Name) and isinstance(lp.target, ast.Name) and n.target.value.id == lp.target.id
            val = X(flow, n.value, cfg.node_of(n))
            if not tgt_ok:
                why = "shift target is not the loop variable"
                continue
            if other_list is None or norm(it) != norm(other_list):
                why = f"shift loop iterates {src(it)}, the bonded other-side descriptor lives in {src(other_list) if other_list is not None else '?'}"
                continue
            if not isinstance(n.op, ast.Add) or not is_count(val):
                why = f"offset is {src(val)}, expected the {label} count of self before the combination"
                continue
            good = (n, lp, val)
        ok = good is not None
        if ok:
            n, lp, val = good
            # count taken before the join: the definition of the offset is not reachable from any store to self.<store_attr>
            stores = [s for s in own_nodes(fi.node) if isinstance(s, ast.Attribute) and s.attr == store_attr and isinstance(s.ctx, ast.Store)]
            vname = n.value.id if isinstance(n.value, ast.Name) else None
            defs = flow.reaching(vname, cfg.node_of(n)) if vname else []
            for d in defs:
                for s in stores:
                    if d.nid in cfg.reachable([cfg.node_of(s)]):
                        ok = False
                        why = f"the {label} count is read after self.{store_attr} was replaced"
            # loop dominates AddBond
            if not cfg.must_pass(cfg.node_of(lp), abn):
                ok = False
                why = "the shift loop does not dominate AddBond"
            # the first argument of the join is self's part
            if not joins:
                ok = False
                why = f"no {join_name} call"
            else:
                a0 = X(flow, joins[0].args[0]) if joins[0].args else None
                if a0 is None or src(a0) != f"self.{store_attr}":
                    ok = False
                    why = f"{join_name} does not take self.{store_attr} as first argument (offset would be wrong): {src(a0) if a0 is not None else None}"
        res.ob(rule, fi, f"shift:{attr_}", f"other side's {attr_} shifted by self's {label} count read before {join_name}(self…, other…), for every other-side descriptor, before the bond",
               good[0] if good else fi.node, ok, why)
        # exactly one shift per attribute (self's own descriptors are never shifted)
        res.ob(rule, fi, f"single-shift:{attr_}", f"{attr_} is shifted exactly once (self's descriptors keep their indices)", fi.node, len(augs) == 1,
               f"{len(augs)} augmented assignments to .{attr_}")


def _is_atom_count(t) -> bool:
    s = src(t)
    return s in ("len(self._mol.GetAtoms())", "self._mol.GetNumAtoms()")


def _is_len_of(t, what) -> bool:
    return src(t) in (f"len({what})", f"{what}.number_of_nodes()", f"len({what}.nodes)", f"len({what}.nodes())")


def consume(eng, res, A: Attach, pairXY, rule="R-CONSUME"):
    fi, flow, cfg = A.fi, A.flow, A.cfg
    if pairXY is None or not A.addbonds:
        return
    abn = cfg.node_of(A.addbonds[0])
    dels = [n for n in own_nodes(fi.node) if isinstance(n, ast.Delete)]
    want = {norm(pairXY[0]), norm(pairXY[1])}
    got = {}
    for d in dels:
        for t in d.targets:
            tt = X(flow, t, cfg.node_of(d))
            got[norm(tt)] = d
    for w, label in zip([pairXY[0], pairXY[1]], ["first", "second"]):
        d = got.get(norm(w))
        ok = d is not None and cfg.must_follow(abn, cfg.node_of(d))
        res.ob(rule, fi, f"delete:{'self' if 'self.bond_descriptors' in src(w) else 'other'}",
               f"reacted descriptor {src(w)[:60]} is deleted from its list on every path from AddBond to the return", d or fi.node, ok,
               "not deleted on every path after the bond" if d is not None else "never deleted")
    # survivors appended once, after both deletions
    augs = [n for n in own_nodes(fi.node) if isinstance(n, ast.AugAssign) and isinstance(n.target, ast.Attribute)
            and n.target.attr == "bond_descriptors" and isinstance(n.target.value, ast.Name) and n.target.value.id == "self"]
    exts = [c for c in calls(fi, "extend") if src(c.func.value) == "self.bond_descriptors"]
    n_app = len(augs) + len(exts)
    ok = n_app == 1
    why = f"{n_app} extensions of self.bond_descriptors"
    if ok:
        node = augs[0] if augs else exts[0]
        nid = cfg.node_of(node)
        val = X(flow, augs[0].value if augs else exts[0].args[0], nid)
        other = [w for w in pairXY if "self.bond_descriptors" not in src(w)]
        other_list = other[0].value if other and isinstance(other[0], ast.Subscript) else None
        if other_list is None or norm(val) != norm(other_list):
            ok = False
            why = f"appends {src(val)}, expected the other side's (shifted, reduced) list"
        elif not all(cfg.must_pass(cfg.node_of(d), nid) for d in got.values() if norm(X(flow, d.targets[0], cfg.node_of(d))) in want):
            ok = False
            why = "survivors appended before the reacted descriptors are removed"
        elif cfg.in_loop(nid) or not cfg.must_follow(abn, nid):
            ok = False
            why = "append not executed exactly once after the bond"
    res.ob(rule, fi, "append-survivors", "the other side's remaining descriptors are appended exactly once, after both reacted ones are removed",
           fi.node, ok, why)
    # fresh copy of the other side's list (never aliases the token's list)
    other = [w for w in pairXY if "self.bond_descriptors" not in src(w)]
    ok = bool(other) and src(other[0]).startswith("copy.deepcopy(")
    res.ob(rule, fi, "other-side-copied", "the other side's descriptors are a deep copy (consumption and shifting never touch the partner's own list)",
           fi.node, ok, f"other side descriptor term: {src(other[0]) if other else None}")


def one_bond(eng, res, A: Attach, rule="R-ONE-BOND"):
    fi, cfg = A.fi, A.cfg
    for name, cs in (("AddBond", A.addbonds), ("add_edge", A.add_edges), ("CombineMols", A.combine), ("disjoint_union", A.union)):
        ok = len(cs) == 1
        why = f"{len(cs)} {name} call(s)"
        if ok:
            nid = cfg.node_of(cs[0])
            if cfg.in_loop(nid):
                ok, why = False, f"{name} inside a loop"
            elif not all(cfg.must_pass(nid, p) for p, _ in cfg.pred[cfg.exit]):
                ok, why = False, f"a normal return bypasses {name}"
        res.ob(rule, fi, f"exactly-one:{name}", f"exactly one {name} executes on every normal path through attach_other, outside any loop",
               cs[0] if cs else fi.node, ok, why)
    # returns its receiver
    rets = [n for n in own_nodes(fi.node) if isinstance(n, ast.Return)]
    ok = bool(rets) and all(isinstance(r.value, ast.Name) and r.value.id == "self" for r in rets)
    res.ob(rule, fi, "returns-receiver", "attach_other returns its receiver (callers continue with the grown molecule)", fi.node, ok)
    # ... and the receiver then *holds* the bonded combination: after AddBond, on every path to the return, self._mol is assigned
    # the molecule obtained from the very object AddBond was called on (found by the mutation survey: without the store the
    # result of every attachment is thrown away and no test notices)
    if len(A.addbonds) == 1 and isinstance(A.addbonds[0].func, ast.Attribute):
        flow = eng.flow(fi)
        ab = A.addbonds[0]
        ab_n = cfg.node_of(ab)
        editable = src(flow.expand_names(ab.func.value, ab_n))
        stores = []
        for n in own_nodes(fi.node):
            if isinstance(n, ast.Assign) and any(src(t) == "self._mol" for t in n.targets) and cfg.has(n):
                v = n.value
                if isinstance(v, ast.Call) and callee_name(v) == "GetMol" and isinstance(v.func, ast.Attribute) and src(flow.expand_names(v.func.value, cfg.node_of(n))) == editable:
                    stores.append(cfg.node_of(n))
        ok = bool(stores) and cfg.must_follow_any(ab_n, set(stores))
        res.ob(rule, fi, "stores-bonded-molecule", "after the bond is made the receiver stores the molecule of the object the bond was added to (on every path to the return)",
               ab, ok, f"{len(stores)} store(s) of `self._mol = <that object>.GetMol()` after AddBond" + ("" if not stores else "; a return is reachable without it"))


# ---------------------------------------------------------------------- call sites of attach_other


def attach_sites(eng):
    return resolved_sites(eng, ATTACH)


def index_space(eng, res, rule="R-INDEX-SPACE"):
    sites = attach_sites(eng)
    for fi, c in sites:
        res.unit(fi)
        flow = eng.flow(fi)
        nid = flow.cfg.node_of(c)
        recv = X(flow, c.func.value, nid)
        recv_name = c.func.value
        a_self = X(flow, c.args[0], nid) if len(c.args) > 0 else None
        a_other = X(flow, c.args[1], nid) if len(c.args) > 1 else None
        a_oidx = X(flow, c.args[2], nid) if len(c.args) > 2 else None
        role = f"site:{fi.qualname.split('.')[-1]}"
        # --- first index: selection over <receiver>.bond_descriptors
        ok1, why1 = False, f"first index {src(a_self) if a_self is not None else None}"
        if a_self is not None:
            if isinstance(a_self, ast.Call) and callee_name(a_self) in ("choose_compatible_weight", "get_compatible_bond_descriptor_ids") and a_self.args:
                lst = a_self.args[0]
                base = strip_attr(lst, "bond_descriptors")
                ok1 = base is not None and norm(base) == norm(recv)
                why1 = f"selection over {src(lst)[:60]}, receiver is {src(recv)[:60]}"
            elif isinstance(a_self, ast.Constant) and a_self.value == 0:
                # constant 0 requires the single-descriptor guard of the base class to dominate
                sup = [s for s in calls(fi) if isinstance(s.func, ast.Attribute) and isinstance(s.func.value, ast.Call)
                       and getattr(s.func.value.func, "id", "") == "super" and s.func.attr == "generate"]
                ok1 = bool(sup) and flow.cfg.must_pass(flow.cfg.node_of(sup[0]), nid)
                why1 = "constant index 0 is valid only behind the base-class guard 'prefix has exactly one open descriptor'"
        res.ob(rule, fi, role + ":self-index", "first index selects within the receiver's own open-descriptor list", c, ok1, why1)
        # --- other: fresh MolGen(token)
        ok2 = isinstance(a_other, ast.Call) and callee_name(a_other) == "MolGen" and len(a_other.args) == 1
        tok = a_other.args[0] if ok2 else None
        # --- second index: index into token's descriptor list
        ok3, why3 = False, f"second index {src(a_oidx)[:80] if a_oidx is not None else None}"
        if a_oidx is not None and tok is not None:
            if isinstance(a_oidx, ast.Call) and callee_name(a_oidx) == "index" and isinstance(a_oidx.func, ast.Attribute):
                base = strip_attr(a_oidx.func.value, "bond_descriptors")
                ok3 = base is not None and norm(base) == norm(tok)
                why3 = f"index() on {src(a_oidx.func.value)[:60]}, fragment built from {src(tok)[:60]}"
            elif isinstance(a_oidx, ast.Call) and callee_name(a_oidx) == "choose_compatible_weight" and a_oidx.args:
                base = strip_attr(a_oidx.args[0], "bond_descriptors")
                ok3 = base is not None and norm(base) == norm(a_other)
                why3 = f"selection over {src(a_oidx.args[0])[:60]}, other is {src(a_other)[:60]}"
        res.ob(rule, fi, role + ":other-index", "second index is an index into the descriptor list of the fragment passed as `other`", c, ok3, why3)
    return len(sites)


def fresh_other(eng, res, rule="R-FRESH-OTHER"):
    sites = attach_sites(eng)
    for fi, c in sites:
        flow = eng.flow(fi)
        nid = flow.cfg.node_of(c)
        a_other = X(flow, c.args[1], nid) if len(c.args) > 1 else None
        recv = X(flow, c.func.value, nid)
        ok = isinstance(a_other, ast.Call) and callee_name(a_other) == "MolGen" and norm(a_other) != norm(recv)
        # constructed in the same activation: the defining assignment is in this function
        res.ob(rule, fi, f"site:{fi.qualname.split('.')[-1]}:fresh", "`other` is a MolGen(token) constructed in the same activation, never an alias of the receiver",
               c, ok, f"other = {src(a_other)[:80] if a_other is not None else None}")
    init = eng.prog.func("mol_gen.MolGen.__init__")
    res.unit(init)
    adds = calls(init, "add_node")
    g_stores = [n for n in own_nodes(init.node) if isinstance(n, ast.Assign) and any(
        isinstance(t, ast.Attribute) and t.attr == "graph" for t in n.targets)]
    flow = eng.flow(init)
    ok = len(adds) == 1 and not flow.cfg.in_loop(flow.cfg.node_of(adds[0])) and len(g_stores) == 1 and src(g_stores[0].value) in ("nx.Graph()",)
    res.ob(rule, init, "single-node-graph", "a fresh fragment has a residue graph with exactly one node and no edge", init.node, ok,
           f"{len(adds)} add_node call(s), {len(g_stores)} graph store(s)")
    ok = not calls(init, "add_edge")
    res.ob(rule, init, "no-edge-in-fragment", "the constructor adds no residue-graph edge", init.node, ok)
    return len(sites)


def lockstep(eng, res, rule="R-LOCKSTEP"):
    fi = eng.prog.func("stochastic.Stochastic.__init__")
    res.unit(fi)
    flow = eng.flow(fi)
    cfg = flow.cfg
    augs = [n for n in own_nodes(fi.node) if isinstance(n, ast.AugAssign) and isinstance(n.target, ast.Attribute)
            and isinstance(n.target.value, ast.Name) and n.target.value.id == "self" and isinstance(n.op, ast.Add)]
    main = [n for n in augs if n.target.attr == "bond_descriptors"]
    blocks = []
    for m in main:
        par = getattr(m, "_parent")
        sibs = [s for s in getattr(par, "body", []) if isinstance(s, ast.AugAssign) and s is not m and s in augs]
        same = [s for s in sibs if norm(s.value) == norm(m.value) and s.target.attr in ("repeat_bonds", "end_bonds")]
        ok = len(same) == 1
        kind = same[0].target.attr if ok else "?"
        # parallel token-index list: a loop appending once per descriptor of the same token
        idx_attr = {"repeat_bonds": "repeat_bond_token_idx", "end_bonds": "end_bond_token_idx"}.get(kind)
        tok_attr = {"repeat_bonds": "repeat_tokens", "end_bonds": "end_tokens"}.get(kind)
        par_ok = False
        if ok:
            for s in getattr(par, "body", []):
                if isinstance(s, ast.For) and "len(" in src(s.iter) and src(m.value) in src(s.iter):
                    apps = [c for c in ast.walk(s) if isinstance(c, ast.Call) and callee_name(c) == "append" and src(c.func.value) == f"self.{idx_attr}"]
                    if len(apps) == 1 and src(apps[0].args[0]) == f"len(self.{tok_attr}) - 1":
                        # the token was appended to tok_attr in the same block before
                        tapp = [c for st in getattr(par, "body", []) for c in ast.walk(st) if isinstance(c, ast.Call)
                                and callee_name(c) == "append" and src(c.func.value) == f"self.{tok_attr}"]
                        par_ok = len(tapp) == 1
        res.ob(rule, fi, f"extend:{kind}", "each extension of bond_descriptors is paired in the same block with the same extension of exactly one of repeat_bonds / end_bonds",
               m, ok, f"{len(same)} matching sibling extension(s)")
        res.ob(rule, fi, f"token-index:{kind}", "one token index is recorded per descriptor, pointing at the token just appended", m, par_ok)
        blocks.append((kind, m))
    kinds = [k for k, _ in blocks]
    ok = kinds.count("repeat_bonds") == 1 and kinds.count("end_bonds") == 1
    if ok:
        rep = [m for k, m in blocks if k == "repeat_bonds"][0]
        end = [m for k, m in blocks if k == "end_bonds"][0]
        # all repeat extensions precede all end extensions: repeat node not reachable from end node
        ok = cfg.node_of(rep) not in cfg.reachable([cfg.node_of(end)])
    res.ob(rule, fi, "repeat-before-end", "all repeat-unit descriptors are appended before any end-group descriptor (transition-list positions = repeat then end)",
           fi.node, ok, f"extension kinds found: {kinds}")
    # nothing else stores into these lists in the class
    return len(main)


ALLOWED_INDEX_WRITERS = {
    "atom_bonding_to": {"bond.BondDescriptor.__init__": "the parser records the binding atom", ATTACH: "the attachment shift"},
    "node_idx": {"mol_gen.MolGen.__init__": "a fresh fragment's descriptors sit on node 0", ATTACH: "the attachment shift"},
}


_EFFECTS_CACHE = {}


def _escaping_write(eng, fi, node):
    """public functions (no leading underscore, not nested) whose A-EFFECT summary contains this very store"""
    from ..effects import Effects

    E = _EFFECTS_CACHE.get(id(eng))
    if E is None:
        E = _EFFECTS_CACHE[id(eng)] = Effects(eng)
    st = node
    while st is not None and not isinstance(st, ast.stmt):
        st = getattr(st, "_parent", None)
    out = []
    for g in eng.prog.all_functions():
        if g.parent is not None:
            continue
        public = not g.name.startswith("_") or (g.name.startswith("__") and g.name.endswith("__"))
        if not public:
            continue
        for eff in E.mut.get(g.qualname, ()):  # (root, path)
            if node.attr not in eff[1]:
                continue
            if any(s_ is st for _, s_ in E.sites.get((g.qualname, eff), [])):
                out.append(f"{g.qualname} ({eff[0]}.{'.'.join(eff[1])})")
                break
    return out


IDENTITY_FIELDS = ("descriptor", "descriptor_id", "bond_type")


def identity_writers(eng, res, rule="R-IDENTITY-WRITERS"):
    """What a descriptor *is* — symbol, id, bond order: the three things compatibility compares — is fixed by the parser.
    Nothing else writes these fields, not even on a generation-owned copy: a copy whose id was overwritten passes a
    compatibility test its original would fail."""
    res.doc(rule, "symbol, id and bond order of a descriptor are written by BondDescriptor.__init__ only")
    n = 0
    bad = []
    for fi in eng.prog.all_functions():
        for node in own_nodes(fi.node):
            if isinstance(node, ast.Attribute) and node.attr in IDENTITY_FIELDS and isinstance(node.ctx, (ast.Store, ast.Del)):
                n += 1
                owner = fi.outermost().qualname
                if owner != "bond.BondDescriptor.__init__":
                    # same-named fields of other classes: only a receiver that can be a descriptor counts
                    recv_cls = fi.outermost().enclosing_class()
                    if isinstance(node.value, ast.Name) and node.value.id == "self" and recv_cls is not None and recv_cls.name != "BondDescriptor":
                        continue
                    bad.append(f"{fi.qualname} line {node.lineno}: {src(node)} = …")
    res.ob(rule, "bond.BondDescriptor", "identity-fields-parser-only", "symbol / id / bond order of a descriptor are never re-written after parsing", "-", not bad, "; ".join(bad[:3]))
    return n


def index_writers(eng, res, rule="R-INDEX-WRITERS"):
    """Who may write a descriptor's atom / node index: the parser (once) and the attachment shift. Any other writer
    changes which atom a bond will be made to behind the back of the rules above."""
    n = 0
    for fi in eng.prog.all_functions():
        for node in own_nodes(fi.node):
            if isinstance(node, ast.Attribute) and node.attr in ALLOWED_INDEX_WRITERS and isinstance(node.ctx, (ast.Store, ast.Del)):
                n += 1
                res.unit(fi)
                owner = fi.outermost().qualname
                ok = owner in ALLOWED_INDEX_WRITERS[node.attr]
                why = f"{fi.qualname} rewrites {src(node)}: the index the parser recorded (the atom the notation designates) is altered outside attach_other"
                if not ok:
                    # another writer is harmless exactly when the object it writes is private to it: the effect must not
                    # reach any object a public function received or holds (A-EFFECT: it dies on a fresh deep copy)
                    esc = _escaping_write(eng, fi, node)
                    ok = not esc
                    if esc:
                        why += f"; the written descriptor is reachable from {esc[0]} (not a private copy)"
                res.ob(rule, fi, f"write:{node.attr}:{owner}", f"`{node.attr}` of a descriptor is written only by the parser and by the attachment shift (or on a private deep copy)", node, ok, why)
    # setattr-style writes are excluded by the census
    return n


def check(eng, res):
    res.doc("R-INDEX-WRITERS", "who-may-write: descriptor atom / node indices are written only by BondDescriptor.__init__, MolGen.__init__ (node 0) and the shift in attach_other")
    res.doc("R-BOND-PRIMITIVE", "who-may-call: RDKit structure mutators on the generation path only in/through attach_other; MolFromSmiles only in MolGen.__init__")
    res.doc("R-COMPAT-DOM", "every CFG path to AddBond passes the is_compatible test on its true branch; the false branch raises")
    res.doc("R-OPERAND-AGREE", "provenance: the tested descriptors are the ones whose atom_bonding_to / bond_type feed AddBond and the residue-graph edge")
    res.doc("R-SHIFT", "other side's indices shifted by self's size read before the combination, for every descriptor, before the bond")
    res.doc("R-CONSUME", "both reacted descriptors deleted on every path after the bond; survivors appended once")
    res.doc("R-INDEX-SPACE", "at each attach_other call site both indices are computed on the very lists attach_other indexes")
    res.doc("R-COMPAT-TABLE", "the predicate used by the guard and by partner selection is exactly the conjugation rule (C03, whole universe enumerated)")
    res.doc("R-BRANCH-ORDER", "the binding atom recorded by the token parser follows the branch structure of the text (shared with C02)")
    res.doc("R-LOCKSTEP", "Stochastic.__init__ extends bond_descriptors in lockstep with repeat_bonds / end_bonds (repeat first)")
    n, reach = bond_primitive(eng, res)
    res.floor("R-BOND-PRIMITIVE", n, 5)
    A = Attach(eng)
    res.unit(A.fi)
    cc = compat_dom(eng, res, A)
    pair = operand_agree(eng, res, A, cc)
    shift(eng, res, A, pair)
    consume(eng, res, A, pair)
    res.doc("R-ONE-BOND", "exactly one AddBond / edge / combination per attachment, and the bonded combination is what the receiver stores (shared with C05)")
    one_bond(eng, res, A)
    ns = index_space(eng, res)
    res.floor("R-INDEX-SPACE", ns, 3)
    # "compatible" in R-COMPAT-DOM means the conjugation rule: decided exhaustively by C03's table
    from . import c03

    sub = type(res)(res.prop)
    try:
        c03.check(eng, sub)
        for o in sub.obligations:
            if o.rule in ("R-COMPAT-TABLE", "R-COMPAT-READSET", "R-COMPAT-UNIQUE"):
                res.obligations.append(o)
    except AnalysisError as exc:
        res.ob("R-COMPAT-TABLE", "bond.BondDescriptor.is_compatible", "evaluable", "the guard's predicate is the conjugation rule", "-", False, str(exc))
    nl = lockstep(eng, res)
    res.floor("R-LOCKSTEP", nl, 2)
    nw = index_writers(eng, res)
    res.floor("R-INDEX-WRITERS", nw, 4)
    ni = identity_writers(eng, res)
    res.floor("R-IDENTITY-WRITERS", ni, 5)
    from . import c02

    sub2 = type(res)(res.prop)
    c02.branch_order(eng, sub2)  # the atom a descriptor designates (binding atom bookkeeping of the token parser)
    c02.descriptor_origin(eng, sub2)
    res.obligations += sub2.obligations
    res.assumptions += ["RDKit AddBond adds exactly one bond of the given order between the given atom indices; CombineMols keeps self's atom indices and appends other's"]
    res.not_decided += ["that the chosen pair is the one the notation intends (C08)", "RDKit's behaviour on the resulting molecule"]
