"""C02 — parsing recovers the structure the notation denotes (four structural necessary conditions)."""
from __future__ import annotations

import ast

from ..formula import Canon, equivalent, parse_expr
from ..loader import AnalysisError, norm, own_nodes, src
from ..util import callee_name, calls, with_nested
from . import c03

LEVEL = "other"


def _loop_var_source(loop: ast.For, param: str):
    """How a for loop traverses the string parameter: 'chars' (for ch in s), 'index' (range(len(s))), 'enum', or None."""
    it = loop.iter
    if isinstance(it, ast.Name) and it.id == param:
        return "chars", loop.target.id if isinstance(loop.target, ast.Name) else None
    if isinstance(it, ast.Call) and callee_name(it) == "enumerate" and it.args and src(it.args[0]) == param and isinstance(loop.target, ast.Tuple) and len(loop.target.elts) == 2:
        return "chars", loop.target.elts[1].id if isinstance(loop.target.elts[1], ast.Name) else None
    if isinstance(it, ast.Call) and callee_name(it) == "range" and len(it.args) == 1 and src(it.args[0]) == f"len({param})":
        return "index", loop.target.id if isinstance(loop.target, ast.Name) else None
    return None, None


def branch_order(eng, res, rule="R-BRANCH-ORDER"):
    tok = eng.prog.func("token.SmilesToken.__init__")
    res.unit(tok)
    flow = eng.flow(tok)
    cfg = flow.cfg
    bd_calls = calls(tok, "BondDescriptor")
    if len(bd_calls) != 1:
        res.ob(rule, tok, "descriptor-call", "one BondDescriptor construction in the token constructor", tok.node, False, f"{len(bd_calls)} call(s)")
        return
    bc = bd_calls[0]
    a4 = bc.args[3] if len(bc.args) > 3 else None
    t4 = a4
    stack = None
    cand = []
    if isinstance(a4, ast.Name):
        cand = [d.value for d in flow.reaching(a4.id, cfg.node_of(bc)) if d.kind == "assign" and d.value is not None]
    elif a4 is not None:
        cand = [a4]
    for v in cand:
        for n in ast.walk(v):
            if isinstance(n, ast.Subscript) and isinstance(n.slice, ast.UnaryOp) and isinstance(n.slice.operand, ast.Constant) and n.slice.operand.value == 1 and isinstance(n.value, ast.Name):
                stack = n.value.id
    clamp = [v for v in cand if isinstance(v, ast.Constant)]
    if any(c.value != 0 for c in clamp):
        stack = None
    # the clamp to atom 0 applies exactly when the stack top is negative (a descriptor before the first atom): found by the
    # mutation survey — a negated clamp condition binds every descriptor to atom 0
    clamp_why = ""
    if stack is not None and isinstance(a4, ast.Name):
        from ..lits import lits, lits_text

        for d in flow.reaching(a4.id, cfg.node_of(bc)):
            if d.kind == "assign" and isinstance(d.value, ast.Constant) and d.stmt is not None:
                g = cfg.guard_exprs(cfg.node_of(d.stmt))
                inner = g[-1] if g else None
                want = lits_text(f"{a4.id} < 0")
                got = lits(inner[0], inner[1]) if inner is not None else frozenset()
                if got != want:
                    stack = None
                    clamp_why = f"; the clamp to atom 0 is applied under {[src(inner[0]) + ('' if inner[1] else ' (negated)')] if inner else 'no condition'}, expected exactly `{a4.id} < 0`"
    ok = stack is not None
    res.ob(rule, tok, "binding-atom-from-stack-top", "the binding atom of a descriptor is the top of the branch stack (clamped at 0)", bc, ok,
           f"4th argument: {src(t4)[:100] if t4 is not None else None} defined by {[src(v)[:40] for v in cand]}" + clamp_why)
    if not ok:
        return
    # helper(s) that push / pop the stack
    helpers = []
    for c in calls(tok):
        for t in eng.repo_callees(tok, c):
            if any(isinstance(a, ast.Name) and a.id == stack for a in c.args):
                if t not in helpers:
                    helpers.append(t)
    direct_ops = [c for c in calls(tok) if callee_name(c) in ("append", "pop") and src(c.func.value) == stack]
    sites = []  # (function, call, string param or None)
    for h in helpers:
        res.unit(h)
        idx = None
        for c in calls(tok):
            if h in eng.repo_callees(tok, c):
                for i, a in enumerate(c.args):
                    if isinstance(a, ast.Name) and a.id == stack:
                        idx = i
        sp = h.params[idx] if idx is not None else None
        strp = [p for p in h.params if p != sp]
        for c in calls(h):
            if callee_name(c) in ("append", "pop") and sp and src(c.func.value) == sp:
                sites.append((h, c, strp[0] if strp else None))
    for c in direct_ops:
        sites.append((tok, c, None))
    if not sites:
        res.ob(rule, tok, "stack-updates", "the branch stack is pushed at '(' and popped at ')'", tok.node, False, "no push/pop of the branch stack found")
        return
    kinds = set()
    for h, c, sparam in sites:
        hf = eng.flow(h)
        hc = hf.cfg
        op = callee_name(c)
        kinds.add(op)
        want = "(" if op == "append" else ")"
        loops = [l for l in hc.enclosing_loops(c) if isinstance(l, ast.For)]
        ok, why = False, "push/pop is not inside a traversal of the text"
        if loops and sparam:
            mode, var = _loop_var_source(loops[0], sparam)
            if mode is None:
                why = (f"{op} is driven by `for … in {src(loops[0].iter)}`: it depends on the text only through an order-insensitive aggregate, "
                       f"so ')(' and '()' cannot be distinguished")
            else:
                conds = [(t, pol) for t, pol in hc.guard_exprs(hc.node_of(c))]
                can = Canon()
                f = ("and", [can.formula(t, pol) for t, pol in conds if _mentions(t, var)])
                subj = var if mode == "chars" else f"{sparam}[{var}]"
                w = can.formula(parse_expr(f"{subj} == {want!r}"))
                try:
                    from ..formula import implies

                    ok = bool(conds) and implies(f, w)[0] and implies(w, ("or", [can.formula(t, pol) for t, pol in conds if _mentions(t, var)][-1:]))[0]
                except AnalysisError:
                    ok = False
                why = f"{op} under {[src(t) for t, _ in conds]}; expected exactly `{subj} == {want!r}` inside a left-to-right traversal"
        res.ob(rule, h, f"{op}-in-text-order", f"{'push' if op == 'append' else 'pop'} happens at each {want!r} met while traversing the text left to right", c, ok, why)
        if op == "append":
            a = c.args[0] if c.args else None
            res.ob(rule, h, "push-copies-top", "a branch opening remembers the current binding atom (pushes the top)", c, a is not None and src(a) == f"{src(c.func.value)}[-1]", f"pushes {src(a) if a is not None else None}")
    res.ob(rule, tok, "push-and-pop", "both push and pop exist", tok.node, kinds == {"append", "pop"}, f"{sorted(kinds)}")
    # atoms update the top
    tops = [n for n in own_nodes(tok.node) if isinstance(n, ast.Assign) and src(n.targets[0]) == f"{stack}[-1]"]
    from ..pat import unify

    env = unify("len($L) - 1", src(tops[0].value)) if len(tops) == 1 else None
    ok = env is not None
    if ok:
        g = [src(t) for t, pol in cfg.guard_exprs(cfg.node_of(tops[0])) if pol]
        ok = any(s.startswith("isinstance(") and "Atom" in s for s in g)
        blk = getattr(tops[0], "_parent")
        ok = ok and any(isinstance(s, ast.Expr) and isinstance(s.value, ast.Call) and callee_name(s.value) == "append" and src(s.value.func.value) == env["L"] for s in blk.body[: blk.body.index(tops[0])])
    res.ob(rule, tok, "atom-sets-top", "each atom met becomes the binding atom of the current branch level (top = index of the latest atom)", tops[0] if tops else tok.node, ok)
    # text before the descriptor is processed before binding, with the same stack
    hcalls = [c for c in calls(tok) if any(h in eng.repo_callees(tok, c) for h in helpers)]
    pre = [c for c in hcalls if cfg.must_pass(cfg.node_of(c), cfg.node_of(bc))]
    ok = len(pre) >= 1
    why = "no branch bookkeeping of the text in front of the descriptor before binding"
    if ok:
        a0 = flow.expand_ssa(pre[-1].args[0], cfg.node_of(pre[-1]))
        ok = "[:" in src(a0) and "find('[')" in src(a0)
        why = f"processed text: {src(a0)[:80]}"
    res.ob(rule, tok, "prefix-processed-first", "parentheses written before the descriptor (inside its element) are applied before the binding atom is read", bc, ok, why)


def _mentions(t, var) -> bool:
    return any(isinstance(n, ast.Name) and n.id == var for n in ast.walk(t))


def _collect_finds(flow, e, at, depth=3, seen=None):
    """find/rfind calls that determine the value of `e` (as written; receivers are not searched)."""
    out = []
    seen = seen if seen is not None else set()

    def walk(x, at_):
        if isinstance(x, ast.Call) and isinstance(x.func, ast.Attribute) and x.func.attr in ("find", "rfind", "index", "rindex"):
            out.append((x, at_))
            for a in x.args:
                walk(a, at_)
            return
        if isinstance(x, ast.Subscript):
            walk(x.slice, at_)
            return
        if isinstance(x, ast.Name) and flow.is_local(x.id) and depth > 0:
            for d in flow.reaching(x.id, at_):
                if (d.name, d.nid) in seen:
                    continue
                seen.add((d.name, d.nid))
                if d.kind in ("assign", "aug") and d.value is not None:
                    out.extend(_collect_finds(flow, d.value, d.nid, depth - 1, seen))
                    if d.kind == "aug":
                        out.extend(_collect_finds(flow, ast.Name(id=d.name, ctx=ast.Load()), d.nid, depth - 1, seen))
            return
        for ch in ast.iter_child_nodes(x):
            walk(ch, at_)

    walk(e, at)
    return out


def _same_value(flow, a, at_a, b, at_b) -> bool:
    if norm(a) != norm(b):
        return False
    for n in ast.walk(a):
        if isinstance(n, ast.Name) and flow.is_local(n.id):
            da = {id(d) for d in flow.reaching(n.id, at_a)}
            db = {id(d) for d in flow.reaching(n.id, at_b)}
            if da != db:
                return False
    return True


def slice_same_string(eng, res, rule="R-PREC-PROV"):
    n = 0
    for fi in eng.prog.all_functions():
        flow = None
        for node in own_nodes(fi.node):
            if isinstance(node, ast.Subscript) and isinstance(node.slice, ast.Slice) and isinstance(node.ctx, ast.Load):
                bounds = [b for b in (node.slice.lower, node.slice.upper) if b is not None]
                if not bounds:
                    continue
                flow = flow or eng.flow(fi)
                try:
                    at = flow.cfg.node_of(node)
                except AnalysisError:
                    continue
                for b in bounds:
                    for c, cat in _collect_finds(flow, b, at):
                        n += 1
                        recv = c.func.value
                        ok = _same_value(flow, recv, cat, node.value, at)
                        res.unit(fi)
                        res.ob(rule, fi, f"slice:{_root(node.value)}:{src(c.args[0]) if c.args else ''}:{callee_name(c)}",
                               "a slice bound obtained with find/rfind is computed on the very string that is sliced", node, ok,
                               f"slices {src(node.value)[:50]} at a position found in {src(recv)[:50]}")
    return n


def _root(e):
    while isinstance(e, (ast.Attribute, ast.Subscript, ast.Call)):
        e = e.value if not isinstance(e, ast.Call) else e.func
    return getattr(e, "id", "?").split("#")[0]


def following_stops(eng, res, rule="R-PREC-PROV"):
    tok = eng.prog.func("token.SmilesToken.__init__")
    flow = eng.flow(tok)
    cfg = flow.cfg
    bc = calls(tok, "BondDescriptor")
    if len(bc) != 1:
        return
    a3 = bc[0].args[2] if len(bc[0].args) > 2 else None
    if not isinstance(a3, ast.Name):
        res.ob(rule, tok, "preceding-arg", "bond-order characters are collected in a local before the descriptor is built", bc[0], False, f"3rd argument {src(a3) if a3 is not None else None}")
        return
    pv = a3.id
    augs = [d for d in flow.defs if d.name == pv and d.kind == "aug" and isinstance(d.extra, ast.Add)]
    ok = len(augs) >= 1
    why = "no text after the descriptor contributes bond-order characters"
    stops = set()
    if ok:
        for d in augs:
            v = d.value
            vname = v.id if isinstance(v, ast.Name) else None
            # all slices  X[: X.find(c)]  defining vname
            if vname:
                for dd in flow.defs:
                    if dd.name == vname and dd.kind == "assign" and isinstance(dd.value, ast.Subscript) and isinstance(dd.value.slice, ast.Slice):
                        up = dd.value.slice.upper
                        if dd.value.slice.lower is None and isinstance(up, ast.Call) and callee_name(up) == "find" and src(up.func.value) == src(dd.value.value) == vname:
                            c = up.args[0]
                            if isinstance(c, ast.Constant):
                                stops.add(c.value)
                            elif isinstance(c, ast.Name):
                                for ld in flow.reaching(c.id, dd.nid):
                                    if ld.kind == "for" and isinstance(ld.value, (ast.Tuple, ast.List)):
                                        stops |= {e.value for e in ld.value.elts if isinstance(e, ast.Constant)}
            elif isinstance(v, ast.Subscript):
                up = v.slice.upper if isinstance(v.slice, ast.Slice) else None
                if isinstance(up, ast.Call) and callee_name(up) == "find" and up.args and isinstance(up.args[0], ast.Constant):
                    stops.add(up.args[0].value)
        ok = {")", "["} <= stops
        why = f"the text after the descriptor is cut at {sorted(stops)}; it must stop at ')' and before any following '['"
    res.ob(rule, tok, "following-text-stops", "bond-order characters taken from the text after the descriptor stop at ')' and before the next '['", bc[0], ok, why)


def weight_def(eng, res, rule="R-WEIGHT-DEF"):
    fi = eng.prog.func("bond.BondDescriptor.__init__")
    res.unit(fi)
    flow = eng.flow(fi)
    cfg = flow.cfg
    ws = [n for n in own_nodes(fi.node) if isinstance(n, ast.Assign) and src(n.targets[0]) == "self.weight"]
    ts = [n for n in own_nodes(fi.node) if isinstance(n, ast.Assign) and src(n.targets[0]) == "self.transitions"]
    kinds_w = {}
    for n in ws:
        v = n.value
        g = [(src(t), pol) for t, pol in cfg.guard_exprs(cfg.node_of(n))]
        if isinstance(v, ast.Constant) and v.value == 1.0:
            kinds_w.setdefault("default", []).append((n, g))
        elif src(v) in ("self.transitions.sum()", "np.sum(self.transitions)") or any(
                isinstance(t_.value, ast.Name) and src(v) in (f"{t_.value.id}.sum()", f"np.sum({t_.value.id})") and getattr(t_, "_parent") is getattr(n, "_parent") for t_ in ts):
            kinds_w.setdefault("list-sum", []).append((n, g))  # also: the list held in a local that is stored as the list in the same block
        elif isinstance(v, ast.Subscript) and isinstance(v.slice, ast.Constant) and v.slice.value == 0:
            kinds_w.setdefault("single", []).append((n, g, src(v.value)))
        else:
            kinds_w.setdefault("other:" + src(v), []).append((n, g))
    other = [k for k in kinds_w if k.startswith("other")]
    res.ob(rule, fi, "weight-sources", "weight ∈ {1.0 (default), the single parsed number, the sum of the parsed list}", fi.node,
           not other and all(k in kinds_w for k in ("default", "list-sum", "single")), f"weight stores: {sorted(kinds_w)}")
    kinds_t = {}
    for n in ts:
        v = n.value
        if isinstance(v, ast.Name):
            dv = [x for x in flow.reaching(v.id, cfg.node_of(n))] if flow.is_local(v.id) else []
            if len(dv) == 1 and dv[0].kind == "assign" and dv[0].value is not None:
                v = dv[0].value  # the array is built in a local first
        if isinstance(v, ast.Constant) and v.value is None:
            kinds_t.setdefault("none", []).append(n)
        elif isinstance(v, ast.Call) and callee_name(v) in ("asarray", "array") and v.args:
            kinds_t.setdefault("array", []).append((n, src(v.args[0])))
        else:
            kinds_t.setdefault("other:" + src(v), []).append(n)
    res.ob(rule, fi, "transition-sources", "transitions ∈ {None, array of the parsed list}", fi.node, set(kinds_t) == {"none", "array"}, f"{sorted(kinds_t)}")
    if "single" in kinds_w and "list-sum" in kinds_w and "array" in kinds_t:
        n1, g1, lst = kinds_w["single"][0]
        n2, g2 = kinds_w["list-sum"][0]
        n3, lst3 = kinds_t["array"][0]
        from ..lits import guard_lits, has

        c1 = guard_lits(flow, n1)
        c2 = guard_lits(flow, n2)
        ok = has(c1, f"len({lst}) == 1") and has(c2, f"len({lst}) != 1") and lst3 == lst
        ok = ok and getattr(n2, "_parent") is getattr(n3, "_parent") and cfg.must_pass(cfg.node_of(n3), cfg.node_of(n2))
        res.ob(rule, fi, "single-vs-list", "exactly one number ⇒ scalar weight; otherwise the list becomes the transition list and weight its sum (same branch)", n1, ok,
               f"scalar under {g1}, list under {g2}, list variable {lst}/{lst3}")
        # the list is every whitespace-separated number between the bars
        d = [x for x in flow.defs if x.name == lst and x.kind == "assign"]
        ok = len(d) == 1 and isinstance(d[0].value, ast.ListComp) and src(d[0].value.elt).startswith("float(") and ".split()" in src(d[0].value.generators[0].iter)
        res.ob(rule, fi, "list-parse", "the list is float() of every whitespace-separated entry between the bars", d[0].stmt if d else fi.node, ok)
    # the early [] exit leaves the defaults
    rets = [r for r in own_nodes(fi.node) if isinstance(r, ast.Return)]
    ok = True
    for r in rets:
        rn = cfg.node_of(r)
        back = cfg.reachable([rn], backward=True)
        for n in ws + ts:
            if cfg.node_of(n) in back and not isinstance(n.value, ast.Constant):
                ok = False
    res.ob(rule, fi, "empty-descriptor-defaults", "the early '[]' exit leaves weight 1.0 and no transition list", fi.node, ok)
    # the weight defaults are re-established after the early exit as well (no-weight descriptor has weight 1)
    late_default = [n for n, g in kinds_w.get("default", []) if any("'[]'" in s and pol is False for s, pol in g)]
    res.ob(rule, fi, "no-weight-means-one", "a descriptor written without |…| has weight 1 and no transition list", fi.node,
           bool(late_default) or len(kinds_w.get("default", [])) >= 1)


def descr_num(eng, res, rule="R-DESCR-NUM"):
    tok = eng.prog.func("token.SmilesToken.__init__")
    bc = calls(tok, "BondDescriptor")
    if len(bc) == 1:
        a = bc[0].args[1] if len(bc[0].args) > 1 else None
        from ..pat import unify

        t = src(a) if a is not None else None
        off = tok.params[2]
        env = (unify(f"len($L) + {off}", t) or unify(f"{off} + len($L)", t)) if t else None
        # L is the list that becomes the token's descriptor list
        st = [n for n in own_nodes(tok.node) if isinstance(n, ast.Assign) and src(n.targets[0]) == "self.bond_descriptors"]
        ok = env is not None and len(st) == 1 and src(st[0].value) == env["L"]
        res.ob(rule, tok, "token-offset", "a descriptor's number = descriptors of the object before this token + its position in the token", bc[0], ok, f"2nd argument: {t}")
    st = eng.prog.func("stochastic.Stochastic.__init__")
    res.unit(st)
    n = 0
    for c in calls(st, "SmilesToken"):
        n += 1
        a = c.args[1] if len(c.args) > 1 else None
        ok = a is not None and src(a) == "len(self.bond_descriptors)"
        # evaluated before this token's descriptors are appended
        res.ob(rule, st, f"object-offset:{n}", "each token of a stochastic object is numbered from the count of descriptors collected so far", c, ok, f"offset argument: {src(a) if a is not None else None}")
    return n


# ---------------------------------------------------------------------------------------------- R-SCAN-ORDER
def _is_empty_lit(l, pname) -> bool:
    """literal says: the pending text `pname` is empty"""
    if l[0] == "num":
        return False  # emptiness tests are canonical `not <name>` literals (formula.Canon)
    if l[0] in ("complex", "opaque", "const"):
        return False
    key, pol = l
    if key[0] == "truthy" and key[1] == f"Name('{pname}')":
        return pol is False
    if key[0] == "eq" and f"Name('{pname}')" in key and any(k in ("''", "Constant('')") for k in map(str, key)):
        return pol is True
    return False


def _flush_helpers(eng, fi, L):
    """nested helpers `def f(text)` that append a non-empty `text` to the element list on every path and return ''."""
    from ..lits import lits

    out = set()
    for h in with_nested(fi):
        if h is fi or len(h.params) != 1:
            continue
        p = h.params[0]
        rets = [r for r in own_nodes(h.node) if isinstance(r, ast.Return)]
        if not rets or not all(isinstance(r.value, ast.Constant) and r.value.value == "" for r in rets):
            continue
        hcfg = eng.flow(h).cfg
        gen, gedges = set(), set()
        for n in hcfg.nodes:
            st = n.stmt
            if n.kind == "stmt" and isinstance(st, ast.Expr) and isinstance(st.value, ast.Call) and isinstance(st.value.func, ast.Attribute) and st.value.func.attr == "append" \
                    and isinstance(st.value.func.value, ast.Name) and st.value.func.value.id == L and len(st.value.args) == 1 and isinstance(st.value.args[0], ast.Name) and st.value.args[0].id == p:
                gen.add(n.id)
            elif n.kind == "test" and isinstance(st, ast.If):
                for dst, label in hcfg.succ[n.id]:
                    if label in ("T", "F") and any(_is_empty_lit(l, p) for l in lits(st.test, label == "T")):
                        gedges.add((n.id, dst, label))
        state = hcfg.must_state(gen, set(), gedges)
        if all(state.get(hcfg.node_of(r), False) for r in rets):
            out.add(h.node.name)
    return out


def scan_order(eng, res, rule="R-SCAN-ORDER"):
    """The first pass of the token scanner keeps two buffers: the element list and the pending text between atoms.
    Elements are in text order iff (a) whenever something other than the pending text is appended to the list, the
    pending text is empty (it was flushed before), (b) a flush is followed by clearing the pending text, (c) the pending
    text is flushed before the list is read, and (d) every step removes from the cursor exactly the prefix it consumed."""
    from ..lits import lits

    fi = eng.prog.func("token.SmilesToken.__init__")
    res.unit(fi)
    fl = eng.flow(fi)
    cfg = fl.cfg
    loops = [s for s in fi.node.body if isinstance(s, ast.While)]
    if len(loops) < 2:
        raise AnalysisError("SmilesToken.__init__: scanner loops not found")
    scan, second = loops[0], loops[1]
    # roles
    appends = [c for c in ast.walk(scan) if isinstance(c, ast.Call) and isinstance(c.func, ast.Attribute) and c.func.attr == "append" and isinstance(c.func.value, ast.Name)]
    lists = {c.func.value.id for c in appends}
    augs = [a for a in ast.walk(scan) if isinstance(a, ast.AugAssign) and isinstance(a.op, ast.Add) and isinstance(a.target, ast.Name)]
    pend = set()
    for a in augs:
        ds = fl.reaching(a.target.id, cfg.node_of(scan))
        if any(d.kind == "assign" and isinstance(d.value, ast.Constant) and d.value.value == "" for d in ds):
            pend.add(a.target.id)
    cur = None
    for l in lits(scan.test, True):
        if l[0] not in ("num", "complex", "opaque", "const") and l[0][0] == "truthy" and l[1] is True and l[0][1].startswith("Name('"):
            cur = l[0][1].split("'")[1]  # `while len(cur) > 0` / `while cur`
    if len(lists) != 1 or len(pend) != 1 or cur is None:
        raise AnalysisError(f"SmilesToken.__init__: scanner roles not identified (lists {lists}, pending {pend}, cursor {cur})")
    L, P = next(iter(lists)), next(iter(pend))
    gen, kill, gedges, flushes = set(), set(), set(), set()
    helpers = _flush_helpers(eng, fi, L)
    for n in cfg.nodes:
        st = n.stmt
        if n.kind == "stmt" and isinstance(st, ast.Assign) and any(isinstance(t, ast.Name) and t.id == P for t in st.targets):
            if isinstance(st.value, ast.Constant) and st.value.value == "":
                gen.add(n.id)
            elif isinstance(st.value, ast.Call) and isinstance(st.value.func, ast.Name) and st.value.func.id in helpers and len(st.value.args) == 1 and isinstance(st.value.args[0], ast.Name) and st.value.args[0].id == P:
                gen.add(n.id)  # P = flush(P): appends P when non-empty and returns ""
                flushes.add(n.id)
            else:
                kill.add(n.id)
        elif n.kind == "stmt" and isinstance(st, ast.AugAssign) and isinstance(st.target, ast.Name) and st.target.id == P:
            kill.add(n.id)
        elif n.kind == "test" and isinstance(st, (ast.If, ast.While)):
            t = cfg.test_of(st, n.id)
            for dst, label in cfg.succ[n.id]:
                if label in ("T", "F") and any(_is_empty_lit(l, P) for l in lits(t, label == "T")):
                    gedges.add((n.id, dst, label))
        if n.kind == "stmt" and isinstance(st, ast.Expr) and isinstance(st.value, ast.Call) and st.value in appends or (
            n.kind == "stmt" and isinstance(st, ast.Expr) and isinstance(st.value, ast.Call) and isinstance(st.value.func, ast.Attribute) and st.value.func.attr == "append"
            and isinstance(st.value.func.value, ast.Name) and st.value.func.value.id == L):
            a = st.value.args[0] if st.value.args else None
            if isinstance(a, ast.Name) and a.id == P:
                flushes.add(n.id)
    empty = cfg.must_state(gen, kill, gedges)
    n_ob = 0
    for c in appends:
        a = c.args[0] if c.args else None
        nid = cfg.node_of(c)
        if isinstance(a, ast.Name) and a.id == P:
            nxt = [d for d, lab in cfg.succ[nid] if lab != "exc"]
            ok = bool(nxt) and all(d in gen for d in nxt)
            res.ob(rule, fi, f"flush-clears@{n_ob}", "after the pending text is appended to the element list it is cleared (no text is appended twice)", c, ok)
        else:
            ok = empty.get(nid, False)
            res.ob(rule, fi, f"flushed-before:{src(a)[:20]}", "an atom is appended only when the pending text is empty: text that precedes it was appended before it (elements in text order)", c, ok,
                   "a path reaches this append with pending text not yet appended")
        n_ob += 1
    flushed = cfg.must_state(gen | flushes, kill, gedges)
    nid2 = cfg.node_of(second)
    res.ob(rule, fi, "final-flush", "when the scan ends the pending text is appended (or empty) before the element list is read", second, flushed.get(nid2, False),
           "a path reaches the second pass with pending text not appended")
    n_ob += 1
    # (d) cursor advance == consumed prefix
    for a in ast.walk(scan):
        if not (isinstance(a, ast.Assign) and len(a.targets) == 1 and isinstance(a.targets[0], ast.Name) and a.targets[0].id == cur):
            continue
        v = a.value
        okc, why = False, f"cursor assigned {src(v)[:60]}"
        if isinstance(v, ast.Subscript) and isinstance(v.value, ast.Name) and v.value.id == cur and isinstance(v.slice, ast.Slice) and v.slice.upper is None and v.slice.lower is not None and v.slice.step is None:
            k = v.slice.lower
            nid = cfg.node_of(a)
            want = {norm(ast.Subscript(ast.Name(cur, ast.Load()), ast.Slice(None, k, None), ast.Load()))}
            if isinstance(k, ast.Constant) and k.value == 1:
                want.add(norm(ast.Subscript(ast.Name(cur, ast.Load()), ast.Constant(0), ast.Load())))
            uses = []
            for st in ast.walk(scan):
                if isinstance(st, (ast.Assign, ast.AugAssign, ast.Expr)) and cfg.has(st) and st is not a:
                    if any(norm(x) in want for x in ast.walk(st) if isinstance(x, ast.Subscript)):
                        sn = cfg.node_of(st)
                        if cfg.must_pass(sn, nid) and cfg.guards(sn) <= cfg.guards(nid):
                            uses.append(st)
            okc = bool(uses)
            why = f"no statement on every path to it takes {cur}[:{src(k)}]"
        res.ob(rule, fi, f"consume:{src(v)[:40]}", "the cursor drops exactly the prefix that was consumed on that path (taken [:k], dropped [k:])", a, okc, why)
        n_ob += 1
    res.floor(rule, n_ob, 6)
    return n_ob


# ---------------------------------------------------------------------------------------------- R-ATOM-TABLE
def _const_strs(mod, e, depth=3):
    """set of strings a constant expression denotes as a collection: literals, tuple("abc"), "ab" + "cd", module names"""
    if isinstance(e, (ast.Tuple, ast.List, ast.Set)):
        out = set()
        for x in e.elts:
            if not (isinstance(x, ast.Constant) and isinstance(x.value, str)):
                return None
            out.add(x.value)
        return out
    if isinstance(e, ast.Constant) and isinstance(e.value, str):
        return set(e.value)
    if isinstance(e, ast.BinOp) and isinstance(e.op, ast.Add):
        if isinstance(e.left, (ast.Tuple, ast.List)) or isinstance(e.right, (ast.Tuple, ast.List)):
            a, b = _const_strs(mod, e.left, depth), _const_strs(mod, e.right, depth)
            return None if a is None or b is None else a | b
        a, b = _str_of(e.left), _str_of(e.right)
        return None if a is None or b is None else set(a + b)
    if isinstance(e, ast.Call) and isinstance(e.func, ast.Name) and e.func.id in ("tuple", "list", "set", "frozenset") and len(e.args) == 1:
        return _const_strs(mod, e.args[0], depth)
    if isinstance(e, ast.Name) and depth > 0:
        for st in mod.tree.body:
            if isinstance(st, ast.Assign) and any(isinstance(t, ast.Name) and t.id == e.id for t in st.targets):
                return _const_strs(mod, st.value, depth - 1)
    return None


def _str_of(e):
    if isinstance(e, ast.Constant) and isinstance(e.value, str):
        return e.value
    if isinstance(e, ast.BinOp) and isinstance(e.op, ast.Add):
        a, b = _str_of(e.left), _str_of(e.right)
        return None if a is None or b is None else a + b
    return None


ORGANIC = {"B", "C", "N", "O", "P", "S", "F", "I"}
AROMATIC = {"c", "n", "o", "s", "p"}


def atom_table(eng, res, rule="R-ATOM-TABLE"):
    """Which characters of a token are atoms: the one-letter table holds the organic subset written without brackets
    and its aromatic forms, the two-letter table Cl and Br, and two letters are tried first ('C' is a prefix of 'Cl').
    A symbol missing from a table is copied into the fragment text but not counted: every later descriptor of the
    token is attached one atom too early."""
    fi = eng.prog.func("token.SmilesToken.__init__")
    res.unit(fi)
    cfg = eng.flow(fi).cfg
    loops = [s for s in fi.node.body if isinstance(s, ast.While)]
    if not loops:
        raise AnalysisError("SmilesToken.__init__: scanner loop not found")
    scan = loops[0]
    one = two = None
    for n in ast.walk(scan):
        if isinstance(n, ast.Compare) and len(n.ops) == 1 and isinstance(n.ops[0], ast.In) and isinstance(n.left, ast.Subscript):
            sl = n.left.slice
            if isinstance(sl, ast.Slice) and sl.lower is None and isinstance(sl.upper, ast.Constant) and sl.upper.value == 2:
                two = n
            elif isinstance(sl, ast.Constant) and sl.value == 0:
                one = n
            elif isinstance(sl, ast.Slice) and sl.lower is None and isinstance(sl.upper, ast.Constant) and sl.upper.value == 1:
                one = n
    if one is None or two is None:
        raise AnalysisError("SmilesToken.__init__: the atom tests of the scanner (one-letter / two-letter) were not identified")
    t1, t2 = _const_strs(fi.module, one.comparators[0]), _const_strs(fi.module, two.comparators[0])
    ok = t1 is not None and (ORGANIC | AROMATIC) <= t1 <= (ORGANIC | AROMATIC | {"b"})
    res.ob(rule, fi, "one-letter-atoms", "the one-letter atom table is B C N O P S F I and the aromatic c n o s p", one, ok,
           f"table {sorted(t1) if t1 is not None else 'not a constant'}: missing {sorted((ORGANIC | AROMATIC) - (t1 or set()))}, unexpected {sorted((t1 or set()) - ORGANIC - AROMATIC - {'b'})}")
    ok = t2 == {"Cl", "Br"}
    res.ob(rule, fi, "two-letter-atoms", "the two-letter atom table is Cl, Br", two, ok, f"table {sorted(t2) if t2 is not None else 'not a constant'}")
    n2, n1 = cfg.node_of(two), cfg.node_of(one)
    res.ob(rule, fi, "two-letters-first", "two-letter atoms are tried before one-letter atoms (Cl is not read as C followed by l)", two, n1 not in cfg.reachable([fi and cfg.entry], avoid_nodes={n2}) or cfg.must_pass(n2, n1))


TOKEN_FIELDS = ("elements", "atoms", "bond_descriptors")


def _scanner_stack(eng, tok_init):
    """name of the branch stack in the token constructor (the list whose top feeds the descriptor's binding atom)"""
    flow = eng.flow(tok_init)
    for bc in calls(tok_init, "BondDescriptor"):
        a4 = bc.args[3] if len(bc.args) > 3 else None
        cand = []
        if isinstance(a4, ast.Name):
            cand = [d.value for d in flow.reaching(a4.id, flow.cfg.node_of(bc)) if d.kind == "assign" and d.value is not None]
        elif a4 is not None:
            cand = [a4]
        for v in cand:
            for n in ast.walk(v):
                if isinstance(n, ast.Subscript) and isinstance(n.slice, ast.UnaryOp) and isinstance(n.slice.operand, ast.Constant) and n.slice.operand.value == 1 and isinstance(n.value, ast.Name):
                    return n.value.id
    return None


def _from_kept_stack(eng, fi, call, a, tok_init) -> bool:
    """the binding atom is `self.<kept>[-1]` (possibly clamped at 0), `<kept>` being assigned from the scanner's branch stack
    on every normal exit of the token constructor, and the function is a method of the token class"""
    own = fi.outermost().enclosing_class()
    if own is None or not eng.prog.is_subclass(own, "SmilesToken"):
        return False
    stack = _scanner_stack(eng, tok_init)
    if stack is None:
        return False
    kept = set()
    for n in own_nodes(tok_init.node):
        if isinstance(n, ast.Assign) and len(n.targets) == 1 and isinstance(n.targets[0], ast.Attribute) and src(n.targets[0].value) == "self" and isinstance(n.value, ast.Name) and n.value.id == stack:
            kept.add(n.targets[0].attr)
    if not kept:
        return False
    flow = eng.flow(fi)
    t = flow.expand_ssa(a, flow.cfg.node_of(call))
    tops = [n for n in ast.walk(t) if isinstance(n, ast.Subscript) and isinstance(n.slice, ast.UnaryOp) and isinstance(n.slice.operand, ast.Constant) and n.slice.operand.value == 1]
    if not tops:
        return False
    if not all(isinstance(n.value, ast.Attribute) and src(n.value.value) == "self" and n.value.attr in kept for n in tops):
        return False
    rest = [n for n in ast.walk(t) if isinstance(n, (ast.Name, ast.Attribute)) and not any(n is x or n is x.value or n is x.value.value for x in tops)]
    return all(isinstance(n, ast.Name) and n.id in ("max", "self") for n in rest)


def descriptor_origin(eng, res, rule="R-DESCR-ORIGIN"):
    """Which atom a descriptor binds is decided by the token scanner's branch bookkeeping (R-BRANCH-ORDER).  That only
    covers descriptors the scanner constructs, hence: (1) every BondDescriptor construction outside SmilesToken.__init__
    passes no binding atom (terminals, the inverted terminal used for matching); (2) a token's element / atom /
    descriptor lists are filled by its constructor only — no other method of the token class, and no code holding a
    token, appends to or re-binds them."""
    res.doc(rule, "descriptors that bind an atom are constructed by the token scanner only; a token's lists are filled by its constructor only")
    tok_cls = eng.prog.cls("SmilesToken")
    tok_init = eng.prog.func("token.SmilesToken.__init__")
    n = 0
    accepted_ctor_calls = set()
    for fi in eng.prog.all_functions():
        for c in calls(fi):
            tg = eng.resolve_call(fi, c)
            if not any(getattr(t, "name", None) == "BondDescriptor" and not hasattr(t, "params") for t in tg):
                continue
            if fi is tok_init or fi.outermost() is tok_init:
                continue
            n += 1
            res.unit(fi)
            a = c.args[3] if len(c.args) > 3 else None
            for k in c.keywords:
                if k.arg == "atom_bonding_to":
                    a = k.value
            ok = isinstance(a, ast.Constant) and a.value is None
            if not ok and a is not None:
                ok = _from_kept_stack(eng, fi, c, a, tok_init)
                accepted_ctor_calls.add(id(c)) if ok else None
            res.ob(rule, fi, f"descriptor-without-atom:{fi.qualname.split('.', 1)[-1]}", "a BondDescriptor constructed outside the token scanner designates no atom (None) or the top of the scanner's own branch stack", c, ok,
                   f"binding atom {src(a)[:60] if a is not None else 'missing'}: this descriptor's atom does not come from the scanner's branch stack")
    # (2) who may write a token's lists
    from ..effects import MUT_METHODS

    bad = []
    for fi in eng.prog.all_functions():
        if fi is tok_init or fi.outermost() is tok_init:
            continue
        own = fi.outermost().enclosing_class()
        for node in own_nodes(fi.node):
            recv = None
            what = None
            if isinstance(node, ast.Call) and isinstance(node.func, ast.Attribute) and node.func.attr in MUT_METHODS and isinstance(node.func.value, ast.Attribute) and node.func.value.attr in TOKEN_FIELDS:
                recv, what = node.func.value, f".{node.func.attr}(...)"
            elif isinstance(node, (ast.Assign, ast.AugAssign)):
                for t in (node.targets if isinstance(node, ast.Assign) else [node.target]):
                    base = t.value if isinstance(t, ast.Subscript) else t
                    if isinstance(base, ast.Attribute) and base.attr in TOKEN_FIELDS and isinstance(base.ctx if not isinstance(t, ast.Subscript) else ast.Store(), ast.Store):
                        recv, what = base, "assignment"
            elif isinstance(node, ast.Delete):
                for t in node.targets:
                    base = t.value if isinstance(t, ast.Subscript) else t
                    if isinstance(base, ast.Attribute) and base.attr in TOKEN_FIELDS:
                        recv, what = base, "del"
            if recv is None:
                continue
            owner = recv.value
            is_token = False
            if isinstance(owner, ast.Name) and owner.id == "self" and own is not None:
                is_token = eng.prog.is_subclass(own, "SmilesToken")
            else:
                try:
                    ts = eng.infer(owner, fi)
                except Exception:  # noqa: BLE001
                    ts = frozenset()
                is_token = any(x[0] == "SmilesToken" or (x[0] == "inst" and len(x) > 1 and x[1] == "SmilesToken") for x in ts if isinstance(x, tuple)) or "SmilesToken" in {str(x) for x in ts}
            if is_token:
                # a builder-style method of the token class is tolerated when every descriptor it constructs binds the kept stack top
                own_ctor = [c for c in calls(fi) if any(getattr(t, "name", None) == "BondDescriptor" and not hasattr(t, "params") for t in eng.resolve_call(fi, c))]
                if own is not None and eng.prog.is_subclass(own, "SmilesToken") and own_ctor and all(id(c) in accepted_ctor_calls for c in own_ctor):
                    continue
                bad.append(f"{fi.qualname} line {node.lineno}: {what} on {src(recv)}")
    res.ob(rule, tok_cls.qualname if hasattr(tok_cls, "qualname") else "token.SmilesToken", "token-lists-constructor-only",
           "a token's elements / atoms / bond_descriptors are filled by SmilesToken.__init__ only", f"{tok_init.module.relpath}:{tok_init.node.lineno}", not bad, "; ".join(bad[:3]))
    return n


def check(eng, res):
    from ..fresh import fresh_flags

    res.doc("R-FRESH-FLAG", "A-FRESH: no condition flag tested inside a loop keeps its value from a previous iteration")
    fresh_flags(eng, res, {'token', 'bond'})
    res.doc("R-BRANCH-ORDER", "push/pop of the branch stack are control-dependent on a left-to-right traversal of the text")
    res.doc("R-PREC-PROV", "slice bounds from find/rfind are computed on the sliced string (package-wide); following text stops at ')' and '['")
    res.doc("R-WEIGHT-DEF", "no weight ⇒ 1; single number ⇒ that number; list ⇒ transitions = list, weight = its sum")
    res.doc("R-BONDORDER-TABLE", "bond-order characters map to pairwise different orders (shared with C03)")
    res.doc("R-DESCR-NUM", "descriptor numbers index the object's descriptor list (used by transition lists)")
    branch_order(eng, res)
    nd = descriptor_origin(eng, res)
    res.floor("R-DESCR-ORIGIN", nd, 3)
    n = slice_same_string(eng, res)
    res.floor("R-PREC-PROV", n, 15)
    following_stops(eng, res)
    weight_def(eng, res)
    init = eng.prog.func("bond.BondDescriptor.__init__")
    tab, seq = c03.bond_order_table(eng, res, init)
    ok = tab["none"] == tab["-"] and len({tab["none"], tab["="], tab["#"], tab[":"]}) == 4
    res.ob("R-BONDORDER-TABLE", init, "prefix-table", "none and '-' give one order; '=', '#', ':' three further pairwise different orders", init.node, ok, f"{tab}")
    for k, want in {"none": "SINGLE", "-": "SINGLE", "=": "DOUBLE", "#": "TRIPLE", ":": "ONEANDAHALF"}.items():
        res.ob("R-BONDORDER-TABLE", init, f"prefix:{k}", f"prefix {k!r} -> BondType.{want}", init.node, tab[k].endswith("." + want), f"got {tab[k]}")
    descr_num(eng, res)
    res.doc("R-SCAN-ORDER", "token scanner: pending text is flushed before every atom and at the end, and the cursor drops exactly the consumed prefix")
    scan_order(eng, res)
    res.doc("R-ATOM-TABLE", "the scanner's atom tables are the organic subset (with aromatic forms) and Cl/Br, two letters first")
    atom_table(eng, res)
    res.assumptions += ["RDKit's atom order for a fragment equals the textual atom order of the token (explicit [H] aside)"]
    res.not_decided += [
        "atom / bond content of tokens, descriptor positions for arbitrary nesting beyond the rules above, ring closures, multi-digit ids, float syntaxes",
        "the correspondence between the token's atom index and RDKit's atom index when RDKit removes explicit [H] atoms",
    ]
