"""C17 — the stochastic atom graph encodes atoms, static bonds and admissible links (structural part)."""
from __future__ import annotations

import ast

from ..formula import Canon, equivalent, implies, parse_expr
from ..loader import AnalysisError, norm, own_nodes, src
from ..util import callee_name, calls, kwarg
from .c16 import conjuncts, site_guards

LEVEL = "other"
CLS = "stochastic_atom_graph.StochasticAtomGraph"
WEIGHT_KEYS = ("static_weight", "stochastic_weight", "termination_weight", "transition_weight")


def M(eng, name):
    return eng.prog.func(f"{CLS}.{name}")


def sag_nodes(eng, res, rule="R-SAG-NODES"):
    gen = M(eng, "generate")
    res.unit(gen)
    flow = eng.flow(gen)
    # dispatch of both element kinds over the molecule's elements
    loops = [l for l in own_nodes(gen.node) if isinstance(l, ast.For)]
    ok = False
    why = "no loop over the elements"
    for l in loops:
        if src(l.iter).endswith(".elements") and isinstance(l.target, ast.Name):
            v = l.target.id
            kinds = {}
            for st in ast.walk(l):
                if isinstance(st, ast.If) and src(st.test).startswith(f"isinstance({v},"):
                    k = src(st.test).split(",")[1].strip(" )")
                    cs = [callee_name(c) for c in ast.walk(st) if isinstance(c, ast.Call) and isinstance(c.func, ast.Attribute) and src(c.func.value) == "self"]
                    kinds[k] = cs
            ok = kinds.get("SmilesToken") == ["_add_token_element"] and kinds.get("Stochastic") == ["_add_stochastic_element"]
            why = f"dispatch {kinds}"
    res.ob(rule, gen, "element-dispatch", "plain tokens and stochastic objects are both added, in element order", gen.node, ok, why)
    # nodes of a token: one per atom of the token's own fragment
    gt = M(eng, "_get_token_nodes")
    res.unit(gt)
    fl = eng.flow(gt)
    tok = gt.params[1]
    mk = calls(gt, "MolFromSmiles")
    ok = len(mk) == 1 and src(fl.expand_ssa(mk[0].args[0], fl.cfg.node_of(mk[0]))) == f"{tok}.generate_smiles_fragment()"
    res.ob(rule, gt, "fragment-of-token", "a token's atoms are RDKit's parse of the token's own fragment SMILES", gt.node, ok)
    loops = [l for l in own_nodes(gt.node) if isinstance(l, ast.For) and "GetNumAtoms" in src(l.iter)]
    ok = len(loops) == 1 and src(loops[0].iter).startswith("range(") and any(
        isinstance(n, ast.AugAssign) and src(n.target) == "nodes" or (isinstance(n, ast.Call) and callee_name(n) == "append" and src(n.func.value) == "nodes") for n in ast.walk(loops[0]))
    res.ob(rule, gt, "node-per-atom", "exactly one node record per atom index of the fragment", gt.node, ok)
    # static bonds: every bond of the atom, keyed by the other atom
    sb = [n for n in own_nodes(gt.node) if isinstance(n, ast.Assign) and isinstance(n.targets[0], ast.Subscript) and src(n.targets[0].value) == "static_bonds"]
    ok = len(sb) == 1 and any(isinstance(l, ast.For) and src(l.iter).endswith(".GetBonds()") for l in fl.cfg.enclosing_loops(sb[0])) and src(sb[0].value) == "bond"
    res.ob(rule, gt, "static-bonds-collected", "every bond of every atom is recorded with the atom at its other end", sb[0] if sb else gt.node, ok)
    # attributes
    an = M(eng, "_add_nodes_to_graph")
    res.unit(an)
    props = {}
    for n in own_nodes(an.node):
        if isinstance(n, ast.Dict):
            for k, v in zip(n.keys, n.values):
                if isinstance(k, ast.Constant):
                    props[k.value] = src(v)
    want = {"atomic_num": "atom.GetAtomicNum()", "formal_charge": "atom.GetFormalCharge()", "aromatic": "atom.GetIsAromatic()"}
    ok = all(props.get(k) == v for k, v in want.items())
    res.ob(rule, an, "atom-attributes", "atomic_num, formal_charge and aromatic come from the corresponding getters of that atom", an.node, ok, f"{ {k: props.get(k) for k in want} }")
    adds = calls(an, "add_node")
    ok = len(adds) == 1 and src(adds[0].args[0]) == "self.node_counter + atom.GetIdx()"
    fl2 = eng.flow(an)
    if ok:
        defs = fl2.reaching("atom", fl2.cfg.node_of(adds[0]))
        ok = len(defs) == 1 and src(defs[0].value) == "node['atom']"
    res.ob(rule, an, "node-id", "node id = running counter + atom index, for the atom whose attributes are stored", adds[0] if adds else an.node, ok)


def sag_offsets(eng, res, rule="R-SAG-OFFSETS"):
    te = M(eng, "_add_token_element")
    res.unit(te)
    fl = eng.flow(te)
    cfg = fl.cfg
    app = [c for c in calls(te, "append") if src(c.func.value) == "self.node_offset_list"]
    inc = [n for n in own_nodes(te.node) if isinstance(n, ast.AugAssign) and src(n.target) == "self.node_counter"]
    addn = calls(te, "_add_nodes_to_graph")
    ok = len(app) == 1 and len(inc) == 1 and len(addn) == 1 and src(app[0].args[0]) == "[self.node_counter]" and src(inc[0].value) == f"len({src(addn[0].args[0])})"
    if ok:
        ok = cfg.node_of(inc[0]) in cfg.reachable([cfg.node_of(app[0])]) and cfg.node_of(app[0]) not in cfg.reachable([cfg.node_of(inc[0])]) \
            and cfg.node_of(inc[0]) in cfg.reachable([cfg.node_of(addn[0])])
    res.ob(rule, te, "token-offset", "a plain token's offset is the counter before its atoms are added; the counter then advances by the number of its atoms", te.node, ok)
    se = M(eng, "_add_stochastic_element")
    res.unit(se)
    fl = eng.flow(se)
    cfg = fl.cfg
    init = [d for d in fl.defs if d.name == "nested_offset" and d.kind == "assign"]
    ok0 = len(init) == 1 and src(init[0].value) == "[self.node_counter]"
    loops = [l for l in own_nodes(se.node) if isinstance(l, ast.For)]
    order = [src(l.iter).split(".")[-1] for l in loops]
    okl = order == ["repeat_tokens", "end_tokens"]
    per = True
    for l in loops:
        body = " ; ".join(src(s) for s in l.body)
        t = l.target.id if isinstance(l.target, ast.Name) else "?"
        per = per and f"self._get_token_nodes({t}," in body and "self._add_nodes_to_graph(nodes)" in body and "self.node_counter += len(nodes)" in body \
            and "nested_offset.append(nested_offset[-1] + len(nodes))" in body
        # nodes added before the counter advances
        i_add = next((i for i, s in enumerate(l.body) if "_add_nodes_to_graph" in src(s)), -1)
        i_inc = next((i for i, s in enumerate(l.body) if "self.node_counter +=" in src(s)), -1)
        per = per and 0 <= i_add < i_inc
    app = [c for c in calls(se, "append") if src(c.func.value) == "self.node_offset_list"]
    oka = len(app) == 1 and src(app[0].args[0]) == "nested_offset" and not cfg.enclosing_loops(app[0])
    res.ob(rule, se, "object-offsets", "a stochastic object records one offset per token (repeat tokens first, then end tokens): counter and offset advance by the same number of atoms in the same iteration",
           se.node, ok0 and okl and per and oka, f"init {ok0}, loop order {order}, lockstep {per}, appended once {oka}")
    bonds = calls(se, "_add_stochastic_bonds")
    ok = len(bonds) == 1 and [src(a) for a in bonds[0].args] == [se.params[1], "nested_offset"] and cfg.must_pass(cfg.node_of(loops[-1]), cfg.node_of(bonds[0])) if loops else False
    res.ob(rule, se, "bonds-after-nodes", "intra-object links are built after all its atoms exist, with this object's offsets", bonds[0] if bonds else se.node, ok)
    gen = M(eng, "generate")
    body = " ; ".join(src(s) for s in gen.node.body)
    ok = "self.node_offset_list = [[0]]" in body and "self.node_offset_list = self.node_offset_list[1:]" in body and "self.node_counter = 0" in body
    fl = eng.flow(gen)
    tb = calls(gen, "_add_transition_bonds")
    strip = [n for n in own_nodes(gen.node) if isinstance(n, ast.Assign) and src(n.value) == "self.node_offset_list[1:]"]
    ok = ok and len(tb) == 1 and len(strip) == 1 and fl.cfg.must_pass(fl.cfg.node_of(strip[0]), fl.cfg.node_of(tb[0]))
    res.ob(rule, gen, "offset-list-per-element", "one offset list per element in element order (the helper first entry is dropped before inter-element links are built)", gen.node, ok)
    fb = eng.prog.func("stochastic_atom_graph._find_bd_token")
    res.unit(fb)
    rets = [src(r.value) for r in own_nodes(fb.node) if isinstance(r, ast.Return) and r.value is not None]
    ok = rets == ["i", "i + len(element.repeat_tokens)", "0"]
    loops = [src(l.iter) for l in own_nodes(fb.node) if isinstance(l, ast.For)]
    ok = ok and loops == ["enumerate(element.repeat_tokens)", "enumerate(element.end_tokens)"]
    res.ob(rule, fb, "token-index", "a descriptor's token index counts repeat tokens first, then end tokens (+ number of repeat tokens); 0 for a plain token", fb.node, ok, f"returns {rets} over {loops}")


def sag_static(eng, res, rule="R-SAG-STATIC"):
    an = M(eng, "_add_nodes_to_graph")
    ae = calls(an, "add_edge")
    ok = len(ae) == 1
    why = f"{len(ae)} static add_edge site(s)"
    if ok:
        c = ae[0]
        fl = eng.flow(an)
        a = src(fl.expand_names(c.args[0], fl.cfg.node_of(c)))
        b = src(fl.expand_names(c.args[1], fl.cfg.node_of(c)))
        kws = {k.arg: src(k.value) for k in c.keywords}
        loops = [src(l.iter) for l in fl.cfg.enclosing_loops(c)]
        ok = a == "node['atom'].GetIdx() + self.node_counter" and b == "other_idx + self.node_counter" \
            and kws.get("bond_type") == "int(static_bonds[other_idx].GetBondType())" and kws.get("static_weight") == "1" \
            and all(kws.get(k) == "0" for k in WEIGHT_KEYS if k != "static_weight") and "static_bonds" in loops
        why = f"edge {a} -> {b}, {kws}"
    res.ob(rule, an, "static-edge", "one static edge per bond of every atom: both ends shifted by the same counter, order = that bond's type, only the static weight set",
           ae[0] if ae else an.node, ok, why)


class Link:
    def __init__(self, fi, flow, call):
        self.fi, self.flow, self.call = fi, flow, call
        cfg = flow.cfg
        at = cfg.node_of(call)
        self.a = flow.expand_names(call.args[0], at)
        self.b = flow.expand_names(call.args[1], at)
        self.kws = {k.arg: k.value for k in call.keywords}
        self.guards = []
        for t, pol in cfg.guard_exprs(at):
            st = getattr(t, "_parent", None)
            if isinstance(st, ast.If):
                self.guards += conjuncts(flow.expand_names(t, cfg.node_of(st)), pol)
        self.raw_guards = site_guards(cfg, call)
        self.pos = {t for t, p in self.guards if p}
        self.neg = {t for t, p in self.guards if not p}

    def descriptor_of(self, term):
        """X.atom_bonding_to + offset -> X (text)"""
        for n in ast.walk(term):
            if isinstance(n, ast.Attribute) and n.attr == "atom_bonding_to":
                return src(n.value)
        return None


def sag_links(eng, res):
    n = 0
    for name in ("_add_transition_bonds", "_add_stochastic_bonds"):
        fi = M(eng, name)
        res.unit(fi)
        flow = eng.flow(fi)
        cfg = flow.cfg
        for c in calls(fi, "add_edge"):
            n += 1
            L = Link(fi, flow, c)
            da, db = L.descriptor_of(L.a), L.descriptor_of(L.b)
            nz = [k for k in WEIGHT_KEYS if k in L.kws and not (isinstance(L.kws[k], ast.Constant) and L.kws[k].value == 0)]
            kind = nz[0] if len(nz) == 1 else "?"
            listed = isinstance(L.kws.get(kind), ast.Name) or (kind == "termination_weight" and any("transitions is not None" in t for t in L.pos))
            role = f"{name}:{kind}:{'list' if listed else 'scalar'}"
            # --- compatibility of exactly the two endpoints
            ok = da is not None and db is not None and (f"{da}.is_compatible({db})" in L.pos or f"{db}.is_compatible({da})" in L.pos)
            res.ob("R-SAG-COMPAT", fi, role + ":compatible", "a non-static edge joins the attachment atoms of two descriptors only under is_compatible of exactly these two", c, ok,
                   f"endpoints of {da} / {db}; guards {sorted(L.pos)[:5]}")
            # --- bond order
            bt = src(L.kws["bond_type"]) if "bond_type" in L.kws else None
            ok = bt in (f"int({da}.bond_type)", f"int({db}.bond_type)")
            res.ob("R-SAG-COMPAT", fi, role + ":order", "its order is the bond type of one of the two descriptors", c, ok, f"bond_type={bt}")
            # --- exactly one weight, with the right provenance
            ok = len(nz) == 1 and all(k in L.kws for k in WEIGHT_KEYS)
            w = src(L.kws[kind]) if ok else None
            if ok:
                if kind == "transition_weight":
                    ok = w == f"{db}.weight"
                    want = "the right-hand descriptor's weight"
                elif kind == "stochastic_weight" and listed:
                    wt = src(flow.expand(L.kws[kind], cfg.node_of(c), depth=4))
                    ok = f"{da}.transitions" in wt.replace("§elem(element.bond_descriptors)", da) and "enumerate" not in wt or "§elem(" in wt and ".transitions" in wt
                    want = "the listed transition weight of the source descriptor"
                    w = wt
                elif kind == "termination_weight" and listed:
                    ok = w in (f"{da}.weight", f"{db}.weight")
                    want = "a descriptor weight"
                else:
                    ok = w == f"{db}.weight"
                    want = "the partner's (target descriptor's) weight"
            else:
                want = "exactly one non-zero weight"
            res.ob("R-SAG-COMPAT", fi, role + ":weight", f"exactly one of the four weights is set and it is {want}", c, ok, f"weights { {k: src(v) for k, v in L.kws.items() if k in WEIGHT_KEYS} }")
            # --- offsets: each endpoint uses the offset of its own descriptor's token
            def off_ok(term, d):
                t = src(term)
                if name == "_add_stochastic_bonds":
                    return f"nested_offset[_find_bd_token(element, {d})]" in t
                if d == "bd_lhs":
                    return f"self.node_offset_list[element_lhs_i][_find_bd_token(element_lhs, bd_lhs)]" in t
                return "self.node_offset_list[element_lhs_i + 1][_find_bd_token(self._big_smi_mol.elements[element_lhs_i + 1], bd_rhs)]" in t

            ok = da is not None and db is not None and off_ok(L.a, da) and off_ok(L.b, db)
            res.ob("R-SAG-OFFSETS", fi, role + ":endpoint-offsets", "each endpoint = the descriptor's atom index + the offset of that descriptor's own token in its own element", c, ok,
                   f"{src(L.a)[:110]} -> {src(L.b)[:110]}")
            # --- source is a repeat unit (no edge leaves an end group)
            if name == "_add_stochastic_bonds":
                src_idx = f"_find_bd_token(element, {da})"
                can = Canon()
                ok = False
                for t in L.neg:
                    try:
                        f = can.formula(parse_expr(t.replace("graph_bd_token_idx", src_idx)))
                        wnt = can.formula(parse_expr(f"{src_idx} >= len(element.repeat_tokens)"))
                        if equivalent(f, wnt)[0]:
                            ok = True
                    except (AnalysisError, SyntaxError):
                        pass
                # `continue` form: the test is a guard with the F edge
                if not ok:
                    ok = _continue_guard(fi, flow, c, "graph_bd_token_idx >= len(element.repeat_tokens)", {"graph_bd_token_idx": src_idx})
                res.ob("R-SAG-ENDGROUP", fi, role + ":source-is-repeat-unit", "the source descriptor's token is a repeat unit (its token index is below the number of repeat tokens)", c, ok,
                       "no dominating test `token index >= len(repeat_tokens) → skip` on the source descriptor")
            else:
                ok = _continue_guard(fi, flow, c, "isinstance(element_lhs, Stochastic) and bd_lhs_idx >= len(element_lhs.repeat_tokens)", {})
                res.ob("R-SAG-ENDGROUP", fi, role + ":source-is-repeat-unit", "a transition edge never leaves an end group: for a stochastic left element the source token index is below the number of repeat TOKENS",
                       c, ok, "no dominating `isinstance(lhs, Stochastic) and idx >= len(lhs.repeat_tokens) → skip`")
                defs = flow.reaching("bd_lhs_idx", cfg.node_of(c))
                ok = len(defs) == 1 and src(defs[0].value) == "_find_bd_token(element_lhs, bd_lhs)"
                res.ob("R-SAG-ENDGROUP", fi, role + ":source-index", "the tested index is the token index of the source descriptor", c, ok)
            # --- target side
            if name == "_add_stochastic_bonds" and not listed:
                tgt_idx = f"_find_bd_token(element, {db})"
                if kind == "stochastic_weight":
                    ok = f"{tgt_idx} < len(element.repeat_tokens)" in L.pos
                    res.ob("R-SAG-COMPAT", fi, role + ":target-kind", "a stochastic (growth) edge ends in a repeat unit", c, ok, f"{sorted(L.pos)[:4]}")
                elif kind == "termination_weight":
                    ok = f"{tgt_idx} < len(element.repeat_tokens)" in L.neg
                    res.ob("R-SAG-COMPAT", fi, role + ":target-kind", "a termination edge ends in an end group", c, ok, f"{sorted(L.neg)[:4]}")
    return n


def _continue_guard(fi, flow, call, expected_src, subst) -> bool:
    """An `if <expected>: continue` whose test node every path to `call` passes on its F edge."""
    cfg = flow.cfg
    cn = cfg.node_of(call)
    for gn, label in cfg.guards(cn):
        st = cfg.nodes[gn].stmt
        if isinstance(st, ast.If) and label == "F" and any(isinstance(x, ast.Continue) for x in st.body):
            can = Canon()
            try:
                f = can.formula(st.test)
                w = can.formula(parse_expr(expected_src))
                if equivalent(f, w)[0]:
                    return True
            except AnalysisError:
                continue
    return False


def sag_misc(eng, res):
    # list alignment: entry i of a transition list addresses descriptor i of the whole object
    fi = M(eng, "_add_stochastic_bonds")
    flow = eng.flow(fi)
    cfg = flow.cfg
    ok = False
    why = "no enumerate over the transition list"
    for l in own_nodes(fi.node):
        if isinstance(l, ast.For) and isinstance(l.iter, ast.Call) and callee_name(l.iter) == "enumerate":
            pv = src(flow.expand_names(l.iter.args[0], cfg._foriter[id(l)]))
            if pv.endswith(".transitions"):
                idx = l.target.elts[0].id
                first = l.body[0]
                ok = isinstance(first, ast.Assign) and src(first.value) == f"element.bond_descriptors[{idx}]" and pv == "graph_bd.transitions"
                why = f"list {pv}; first statement {src(first)[:60]}"
    res.ob("R-SAG-COMPAT", fi, "list-alignment", "entry i of a descriptor's transition list addresses descriptor i of the object's full descriptor list (repeat and end groups)", fi.node, ok, why)
    # every descriptor of the object is considered as source / every pair as candidate
    outer = [l for l in own_nodes(fi.node) if isinstance(l, ast.For) and src(l.iter) == "element.bond_descriptors" and not cfg.enclosing_loops(l)]
    inner = [l for l in own_nodes(fi.node) if isinstance(l, ast.For) and src(l.iter) == "element.bond_descriptors" and cfg.enclosing_loops(l)]
    res.ob("R-SAG-COMPAT", fi, "all-pairs", "every descriptor of the object is a candidate source and every descriptor a candidate target (no link can be missing for lack of being considered)",
           fi.node, len(outer) == 1 and len(inner) >= 1)
    ft = M(eng, "_add_transition_bonds")
    fl = eng.flow(ft)
    loops = [src(l.iter) for l in own_nodes(ft.node) if isinstance(l, ast.For)]
    ok = loops[:3] == ["enumerate(self._big_smi_mol.elements[:-1])", "element_lhs.bond_descriptors", "element_rhs.bond_descriptors"]
    d = [x for x in fl.defs if x.name == "element_rhs_i" and x.kind == "assign"]
    ok = ok and len(d) == 1 and src(d[0].value) == "element_lhs_i + 1"
    d = [x for x in fl.defs if x.name == "element_rhs" and x.kind == "assign"]
    ok = ok and len(d) == 1 and src(d[0].value) == "self._big_smi_mol.elements[element_rhs_i]"
    res.ob("R-SAG-COMPAT", ft, "consecutive-pairs", "transition edges are considered for every descriptor pair of every two consecutive elements", ft.node, ok, f"loops {loops[:3]}")
    # terminals respected: both inverted-terminal tests present
    body = src(ft.node)
    ok = "_create_compatible_bond_text(element_rhs.left_terminal)" in body and "_create_compatible_bond_text(element_lhs.right_terminal)" in body \
        and "invert_terminal.is_compatible(bd_rhs)" in body and "invert_terminal.is_compatible(bd_lhs)" in body
    res.ob("R-SAG-COMPAT", ft, "terminals-respected", "transition edges respect both terminal descriptors (target vs the next element's left terminal, source vs this element's right terminal)", ft.node, ok)
    ae = calls(ft, "add_edge")
    if ae:
        L = Link(ft, fl, ae[0])
        rp = {t for t, p in L.raw_guards if p}
        ok = "terminal_ok" in rp and "exclude_transition_into_terminal" in rp
        res.ob("R-SAG-COMPAT", ft, "terminal-tests-dominate", "the edge is added only when the terminal tests succeeded and the target is not an end group", ae[0], ok, f"{sorted(L.pos)}")
        d = [x for x in fl.defs if x.name == "exclude_transition_into_terminal" and x.kind == "assign" and not isinstance(x.value, ast.Constant)]
        ok = len(d) == 1 and src(d[0].value) == "bd_rhs_idx < len(element_rhs.repeat_tokens)"
        res.ob("R-SAG-COMPAT", ft, "target-is-repeat-unit", "a transition edge enters a repeat unit of a stochastic right element (or a plain token)", ae[0], ok)


def check(eng, res):
    res.doc("R-SAG-NODES", "both element kinds dispatched; one node per atom of the token's fragment with that atom's element / charge / aromaticity")
    res.doc("R-SAG-OFFSETS", "offset bookkeeping in lockstep with the counter; endpoints use the offset of their own descriptor's token")
    res.doc("R-SAG-STATIC", "one static edge per bond with that bond's order")
    res.doc("R-SAG-COMPAT", "every non-static edge: compatible endpoints, their order, exactly one weight with the right provenance; list alignment; all pairs considered")
    res.doc("R-SAG-ENDGROUP", "no non-static edge leaves an end group (sibling rule over the three edge families)")
    sag_nodes(eng, res)
    sag_offsets(eng, res)
    sag_static(eng, res)
    n = sag_links(eng, res)
    res.floor("R-SAG-COMPAT", n, 5)
    sag_misc(eng, res)
    res.assumptions += ["RDKit atom indices of the fragment are those of the token's atoms", "MultiDiGraph keeps parallel edges"]
    res.not_decided += ["equality with an independently built graph for every molecule", "completeness of edges beyond 'every pair is considered under the stated filters'"]
