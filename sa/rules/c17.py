"""C17 — the stochastic atom graph encodes atoms, static bonds and admissible links (structural part)."""
from __future__ import annotations

import ast

from ..formula import Canon, equivalent, implies, parse_expr
from ..loader import AnalysisError, norm, own_nodes, src
from ..util import callee_name, calls, kwarg
from .c16 import conjuncts, site_guards

LEVEL = "other"
CLS = "stochastic_atom_graph.StochasticAtomGraph"
WEIGHT_KEYS = ("static_weight", "stochastic_weight", "termination_weight", "transition_weight")


def M(eng, name):
    return eng.prog.func(f"{CLS}.{name}")


def stmts_text(fi):
    """[(stmt node, text)] for all simple statements and compound headers of a function."""
    out = []
    for n in own_nodes(fi.node):
        if isinstance(n, (ast.Assign, ast.AugAssign, ast.Expr, ast.Return)):
            out.append((n, src(n)))
        elif isinstance(n, ast.For):
            out.append((n, f"for {src(n.target)} in {src(n.iter)}"))
        elif isinstance(n, ast.If):
            out.append((n, f"if {src(n.test)}"))
    return out


def locate(fi, patterns, env=None):
    """Bind metavariables so that every pattern matches some statement; returns (env, {pattern: node}) or (None, {})."""
    from ..pat import solve, unify

    st = stmts_text(fi)
    e = solve(patterns, [t for _, t in st], env or {})
    if e is None:
        return None, {}
    nodes = {}
    for p in patterns:
        for n, t in st:
            if unify(p, t, e) is not None:
                nodes[p] = n
                break
    return e, nodes


def sag_nodes(eng, res, rule="R-SAG-NODES"):
    from ..pat import unify

    gen = M(eng, "generate")
    res.unit(gen)
    flow = eng.flow(gen)
    loops = [l for l in own_nodes(gen.node) if isinstance(l, ast.For)]
    ok = False
    why = "no loop over the elements"
    for l in loops:
        if src(l.iter).endswith(".elements") and isinstance(l.target, ast.Name):
            v = l.target.id
            kinds = {}
            for st in ast.walk(l):
                if isinstance(st, ast.If) and src(st.test).startswith(f"isinstance({v},"):
                    k = src(st.test).split(",")[1].strip(" )")
                    cs = [(callee_name(c), [src(a) for a in c.args]) for c in ast.walk(st) if isinstance(c, ast.Call) and isinstance(c.func, ast.Attribute) and src(c.func.value) == "self"]
                    kinds[k] = cs
            ok = kinds.get("SmilesToken") == [("_add_token_element", [v])] and kinds.get("Stochastic") == [("_add_stochastic_element", [v])]
            why = f"dispatch {kinds}"
    res.ob(rule, gen, "element-dispatch", "plain tokens and stochastic objects are both added, in element order", gen.node, ok, why)
    gt = M(eng, "_get_token_nodes")
    res.unit(gt)
    tok = gt.params[1]
    env, nd = locate(gt, [f"$SMI = {tok}.generate_smiles_fragment()", "$MOL = Chem.MolFromSmiles($SMI)", "for $I in range($MOL.GetNumAtoms())", "$ATOM = $MOL.GetAtomWithIdx($I)",
                          "for $B in $ATOM.GetBonds()", "$SB[$O] = $B", "$NP = {'atom': $ATOM, 'static_bonds': $SB}", "$NODES += [$NP]", "return $NODES"])
    alt = None
    if env is None:
        alt, nd = locate(gt, [f"$MOL = Chem.MolFromSmiles({tok}.generate_smiles_fragment())", "for $I in range($MOL.GetNumAtoms())", "$ATOM = $MOL.GetAtomWithIdx($I)",
                              "for $B in $ATOM.GetBonds()", "$SB[$O] = $B", "$NP = {'atom': $ATOM, 'static_bonds': $SB}", "$NODES.append($NP)", "return $NODES"])
    e = env or alt
    res.ob(rule, gt, "fragment-of-token", "a token's atoms are RDKit's parse of the token's own fragment SMILES", gt.node, e is not None, "statement pattern of the fragment parse not found")
    ok = e is not None
    if ok:
        fl = eng.flow(gt)
        loop_i = [n for p, n in nd.items() if p.startswith("for $I")][0]
        add = [n for p, n in nd.items() if p.startswith("$NODES")][0]
        rec = [n for p, n in nd.items() if p.startswith("$NP =")][0]
        ok = loop_i in fl.cfg.enclosing_loops(add) and len(fl.cfg.enclosing_loops(add)) == 1 and not site_guards(fl.cfg, add, loop_i) and loop_i in fl.cfg.enclosing_loops(rec)
    res.ob(rule, gt, "node-per-atom", "exactly one node record per atom index of the fragment (unconditionally)", gt.node, ok)
    ok = e is not None
    if ok:
        fl = eng.flow(gt)
        sb = [n for p, n in nd.items() if p.startswith("$SB[")][0]
        lb = [n for p, n in nd.items() if p.startswith("for $B")][0]
        ok = lb in fl.cfg.enclosing_loops(sb) and not site_guards(fl.cfg, sb, lb)
        # the key is the atom at the other end
        defs = [d for d in fl.defs if d.name == e["O"] and d.kind == "assign"]
        vals = sorted(src(d.value) for d in defs)
        ok = ok and vals == sorted([f"{e['B']}.GetEndAtomIdx()", f"{e['B']}.GetBeginAtomIdx()"])
    res.ob(rule, gt, "static-bonds-collected", "every bond of every atom is recorded under the atom at its other end", gt.node, ok)
    an = M(eng, "_add_nodes_to_graph")
    res.unit(an)
    prm = an.params[1]
    e2, nd2 = locate(an, [f"for $N in {prm}", "$A = $N['atom']"])
    props = {}
    for n in own_nodes(an.node):
        if isinstance(n, ast.Dict):
            for k, v in zip(n.keys, n.values):
                if isinstance(k, ast.Constant):
                    props[k.value] = src(v)
    A = e2["A"] if e2 else "?"
    want = {"atomic_num": f"{A}.GetAtomicNum()", "formal_charge": f"{A}.GetFormalCharge()", "aromatic": f"{A}.GetIsAromatic()"}
    ok = e2 is not None and all(props.get(k) == v for k, v in want.items())
    res.ob(rule, an, "atom-attributes", "atomic_num, formal_charge and aromatic come from the corresponding getters of that atom", an.node, ok, f"{ {k: props.get(k) for k in want} }")
    adds = calls(an, "add_node")
    ok = e2 is not None and len(adds) == 1 and src(adds[0].args[0]) in (f"self.node_counter + {A}.GetIdx()", f"{A}.GetIdx() + self.node_counter")
    fl2 = eng.flow(an)
    if ok:
        defs = fl2.reaching(A, fl2.cfg.node_of(adds[0]))
        ok = len(defs) == 1 and src(defs[0].value) == f"{e2['N']}['atom']" and not site_guards(fl2.cfg, adds[0])
    res.ob(rule, an, "node-id", "node id = running counter + atom index, for the atom whose attributes are stored (one node per record, unconditionally)", adds[0] if adds else an.node, ok)


def sag_offsets(eng, res, rule="R-SAG-OFFSETS"):
    from ..pat import unify

    te = M(eng, "_add_token_element")
    res.unit(te)
    fl = eng.flow(te)
    cfg = fl.cfg
    e, nd = locate(te, ["self._add_nodes_to_graph($NODES)", "self.node_offset_list.append([self.node_counter])", "self.node_counter += len($NODES)"])
    ok = e is not None
    if ok:
        a, b, c = (cfg.node_of(nd[p]) for p in ["self._add_nodes_to_graph($NODES)", "self.node_offset_list.append([self.node_counter])", "self.node_counter += len($NODES)"])
        ok = c in cfg.reachable([b]) and b not in cfg.reachable([c]) and c in cfg.reachable([a]) and a not in cfg.reachable([c])
        d = [x for x in fl.defs if x.name == e["NODES"] and x.kind == "assign"]
        ok = ok and len(d) == 1 and unify(f"self._get_token_nodes({te.params[1]}, $MW)", src(d[0].value)) is not None
    res.ob(rule, te, "token-offset", "a plain token's offset is the counter before its atoms are added; the counter then advances by the number of its atoms", te.node, ok)
    se = M(eng, "_add_stochastic_element")
    res.unit(se)
    fl = eng.flow(se)
    cfg = fl.cfg
    S = se.params[1]
    e, nd = locate(se, ["$NO = [self.node_counter]", "self.node_offset_list.append($NO)", f"self._add_stochastic_bonds({S}, $NO)"])
    ok0 = e is not None
    loops = [l for l in own_nodes(se.node) if isinstance(l, ast.For)]
    order = [src(l.iter) for l in loops]
    okl = order == [f"{S}.repeat_tokens", f"{S}.end_tokens"]
    per = ok0
    if ok0:
        NO = e["NO"]
        for l in loops:
            t = l.target.id if isinstance(l.target, ast.Name) else "?"
            texts = [src(s) for s in l.body]
            from ..pat import solve

            ee = solve([f"$NODES = self._get_token_nodes({t}, $MW)", "self._add_nodes_to_graph($NODES)", "self.node_counter += len($NODES)", f"{NO}.append({NO}[-1] + len($NODES))"], texts)
            per = per and ee is not None
            if ee is not None:
                i_add = texts.index(f"self._add_nodes_to_graph({ee['NODES']})")
                i_inc = texts.index(f"self.node_counter += len({ee['NODES']})")
                per = per and i_add < i_inc
        app = nd["self.node_offset_list.append($NO)"]
        bonds = nd[f"self._add_stochastic_bonds({S}, $NO)"]
        oka = not cfg.enclosing_loops(app)
        okb = bool(loops) and cfg.must_pass(cfg.node_of(loops[-1]), cfg.node_of(bonds)) and not cfg.enclosing_loops(bonds)
        init_n = nd["$NO = [self.node_counter]"]
        ok0 = not cfg.enclosing_loops(init_n) and (not loops or cfg.must_pass(cfg.node_of(init_n), cfg.node_of(loops[0])))
    else:
        oka = okb = False
    res.ob(rule, se, "object-offsets", "a stochastic object records one offset per token (repeat tokens first, then end tokens): counter and offset advance by the same number of atoms in the same iteration",
           se.node, ok0 and okl and per and oka, f"init {ok0}, loop order {order}, lockstep {per}, appended once {oka}")
    res.ob(rule, se, "bonds-after-nodes", "intra-object links are built after all its atoms exist, with this object's offsets", se.node, okb)
    gen = M(eng, "generate")
    body = " ; ".join(src(s) for s in gen.node.body)
    ok = "self.node_offset_list = [[0]]" in body and "self.node_offset_list = self.node_offset_list[1:]" in body and "self.node_counter = 0" in body
    fl = eng.flow(gen)
    tb = calls(gen, "_add_transition_bonds")
    strip = [n for n in own_nodes(gen.node) if isinstance(n, ast.Assign) and src(n.value) == "self.node_offset_list[1:]"]
    ok = ok and len(tb) == 1 and len(strip) == 1 and fl.cfg.must_pass(fl.cfg.node_of(strip[0]), fl.cfg.node_of(tb[0]))
    res.ob(rule, gen, "offset-list-per-element", "one offset list per element in element order (the helper first entry is dropped before inter-element links are built)", gen.node, ok)
    fb = eng.prog.func("stochastic_atom_graph._find_bd_token")
    res.unit(fb)
    E, B = fb.params[0], fb.params[1]
    e, nd = locate(fb, [f"for ($I, $T) in enumerate({E}.repeat_tokens)", "return $I", f"for ($J, $U) in enumerate({E}.end_tokens)", f"return $J + len({E}.repeat_tokens)", "return 0"])
    ok = e is not None
    if ok:
        flb = eng.flow(fb)
        r1 = nd["return $I"]
        r2 = nd[f"return $J + len({E}.repeat_tokens)"]
        g1 = [t for t, p in site_guards(flb.cfg, r1) if p]
        g2 = [t for t, p in site_guards(flb.cfg, r2) if p]
        ok = g1 == [f"{B} in {e['T']}.bond_descriptors"] and g2 == [f"{B} in {e['U']}.bond_descriptors"]
    res.ob(rule, fb, "token-index", "a descriptor's token index counts repeat tokens first, then end tokens (+ number of repeat tokens); 0 for a plain token", fb.node, ok)


def sag_static(eng, res, rule="R-SAG-STATIC"):
    from ..pat import unify

    an = M(eng, "_add_nodes_to_graph")
    ae = calls(an, "add_edge")
    ok = len(ae) == 1
    why = f"{len(ae)} static add_edge site(s)"
    if ok:
        c = ae[0]
        fl = eng.flow(an)
        a = src(fl.expand_names(c.args[0], fl.cfg.node_of(c)))
        b = src(fl.expand_names(c.args[1], fl.cfg.node_of(c)))
        kws = {k.arg: src(k.value) for k in c.keywords}
        loops = [l for l in fl.cfg.enclosing_loops(c) if isinstance(l, ast.For)]
        ea = unify("$N['atom'].GetIdx() + self.node_counter", a)
        eb = unify("$O + self.node_counter", b)
        ok = ea is not None and eb is not None and len(loops) == 2
        if ok:
            O = eb["O"]
            inner, outer = loops[0], loops[1]
            sbn = src(inner.iter)
            d = [x for x in fl.defs if x.name == sbn and x.kind == "assign"] if inner.iter.__class__ is ast.Name else []
            ok = isinstance(inner.target, ast.Name) and inner.target.id == O and len(d) == 1 and src(d[0].value) == f"{ea['N']}['static_bonds']" \
                and isinstance(outer.target, ast.Name) and outer.target.id == ea["N"] and src(outer.iter) == an.params[1] \
                and kws.get("bond_type") == f"int({sbn}[{O}].GetBondType())" and kws.get("static_weight") == "1" \
                and all(kws.get(k) == "0" for k in WEIGHT_KEYS if k != "static_weight") and not site_guards(fl.cfg, c)
        why = f"edge {a} -> {b}, {kws}"
    res.ob(rule, an, "static-edge", "one static edge per bond of every atom: both ends shifted by the same counter, order = that bond's type, only the static weight set",
           ae[0] if ae else an.node, ok, why)


class Link:
    def __init__(self, fi, flow, call):
        self.fi, self.flow, self.call = fi, flow, call
        cfg = flow.cfg
        at = cfg.node_of(call)
        self.a = flow.expand_names(call.args[0], at)
        self.b = flow.expand_names(call.args[1], at)
        self.kws = {k.arg: k.value for k in call.keywords}
        self.guards = []
        for t, pol in cfg.guard_exprs(at):
            st = getattr(t, "_parent", None)
            if isinstance(st, ast.If):
                self.guards += conjuncts(flow.expand_names(t, cfg.node_of(st)), pol)
        self.raw_guards = site_guards(cfg, call)
        self.pos = {t for t, p in self.guards if p}
        self.neg = {t for t, p in self.guards if not p}

    def descriptor_of(self, term):
        """X.atom_bonding_to + offset -> X (text)"""
        for n in ast.walk(term):
            if isinstance(n, ast.Attribute) and n.attr == "atom_bonding_to":
                return src(n.value)
        return None


TB_PATTERNS = ["for ($LI, $EL) in enumerate(self._big_smi_mol.elements[:-1])", "$RI = $LI + 1", "$ER = self._big_smi_mol.elements[$RI]",
               "for $BL in $EL.bond_descriptors", "for $BR in $ER.bond_descriptors", "$IL = _find_bd_token($EL, $BL)", "$IR = _find_bd_token($ER, $BR)"]


def tb_env(eng):
    return locate(M(eng, "_add_transition_bonds"), TB_PATTERNS)


def sb_env(eng):
    f = M(eng, "_add_stochastic_bonds")
    E = f.params[1]
    return locate(f, [f"for $G in {E}.bond_descriptors", f"$GI = _find_bd_token({E}, $G)"])


def sag_links(eng, res):
    n = 0
    TB, _ = tb_env(eng)
    SB, _ = sb_env(eng)
    TB = TB or {}
    SB = SB or {}
    for name in ("_add_transition_bonds", "_add_stochastic_bonds"):
        fi = M(eng, name)
        res.unit(fi)
        flow = eng.flow(fi)
        cfg = flow.cfg
        for c in calls(fi, "add_edge"):
            n += 1
            L = Link(fi, flow, c)
            da, db = L.descriptor_of(L.a), L.descriptor_of(L.b)
            nz = [k for k in WEIGHT_KEYS if k in L.kws and not (isinstance(L.kws[k], ast.Constant) and L.kws[k].value == 0)]
            kind = nz[0] if len(nz) == 1 else "?"
            listed = isinstance(L.kws.get(kind), ast.Name) or (kind == "termination_weight" and any("transitions is not None" in t for t in L.pos))
            role = f"{name}:{kind}:{'list' if listed else 'scalar'}"
            # --- compatibility of exactly the two endpoints
            ok = da is not None and db is not None and (f"{da}.is_compatible({db})" in L.pos or f"{db}.is_compatible({da})" in L.pos)
            res.ob("R-SAG-COMPAT", fi, role + ":compatible", "a non-static edge joins the attachment atoms of two descriptors only under is_compatible of exactly these two", c, ok,
                   f"endpoints of {da} / {db}; guards {sorted(L.pos)[:5]}")
            # --- bond order
            bt = src(L.kws["bond_type"]) if "bond_type" in L.kws else None
            ok = bt in (f"int({da}.bond_type)", f"int({db}.bond_type)")
            res.ob("R-SAG-COMPAT", fi, role + ":order", "its order is the bond type of one of the two descriptors", c, ok, f"bond_type={bt}")
            # --- exactly one weight, with the right provenance
            ok = len(nz) == 1 and all(k in L.kws for k in WEIGHT_KEYS)
            w = src(L.kws[kind]) if ok else None
            if ok:
                if kind == "transition_weight":
                    ok = w == f"{db}.weight"
                    want = "the right-hand descriptor's weight"
                elif kind == "stochastic_weight" and listed:
                    wt = src(flow.expand(L.kws[kind], cfg.node_of(c), depth=4))
                    ok = f"{da}.transitions" in wt.replace("§elem(element.bond_descriptors)", da) and "enumerate" not in wt or "§elem(" in wt and ".transitions" in wt
                    want = "the listed transition weight of the source descriptor"
                    w = wt
                elif kind == "termination_weight" and listed:
                    ok = w in (f"{da}.weight", f"{db}.weight")
                    want = "a descriptor weight"
                else:
                    ok = w == f"{db}.weight"
                    want = "the partner's (target descriptor's) weight"
            else:
                want = "exactly one non-zero weight"
            res.ob("R-SAG-COMPAT", fi, role + ":weight", f"exactly one of the four weights is set and it is {want}", c, ok, f"weights { {k: src(v) for k, v in L.kws.items() if k in WEIGHT_KEYS} }")
            # --- offsets: each endpoint uses the offset of its own descriptor's token
            def off_ok(term, d):
                t = src(term)
                if name == "_add_stochastic_bonds":
                    return f"{fi.params[2]}[_find_bd_token({fi.params[1]}, {d})]" in t
                if not TB:
                    return False
                if d == TB["BL"]:
                    return f"self.node_offset_list[{TB['LI']}][_find_bd_token({TB['EL']}, {TB['BL']})]" in t
                return f"self.node_offset_list[{TB['LI']} + 1][_find_bd_token(self._big_smi_mol.elements[{TB['LI']} + 1], {TB['BR']})]" in t

            ok = da is not None and db is not None and off_ok(L.a, da) and off_ok(L.b, db)
            res.ob("R-SAG-OFFSETS", fi, role + ":endpoint-offsets", "each endpoint = the descriptor's atom index + the offset of that descriptor's own token in its own element", c, ok,
                   f"{src(L.a)[:110]} -> {src(L.b)[:110]}")
            # --- source is a repeat unit (no edge leaves an end group)
            if name == "_add_stochastic_bonds":
                EP = fi.params[1]
                ok = bool(SB) and da == SB.get("G") and _continue_guard(fi, flow, c, f"{SB['GI']} >= len({EP}.repeat_tokens)", {})
                res.ob("R-SAG-ENDGROUP", fi, role + ":source-is-repeat-unit", "the source descriptor's token is a repeat unit (its token index is below the number of repeat tokens)", c, ok,
                       "no dominating test `token index >= len(repeat_tokens) → skip` on the source descriptor")
            else:
                ok = bool(TB) and _continue_guard(fi, flow, c, f"isinstance({TB['EL']}, Stochastic) and {TB['IL']} >= len({TB['EL']}.repeat_tokens)", {})
                res.ob("R-SAG-ENDGROUP", fi, role + ":source-is-repeat-unit", "a transition edge never leaves an end group: for a stochastic left element the source token index is below the number of repeat TOKENS",
                       c, ok, "no dominating `isinstance(lhs, Stochastic) and idx >= len(lhs.repeat_tokens) → skip`")
                defs = flow.reaching(TB["IL"], cfg.node_of(c)) if TB else []
                ok = len(defs) == 1 and da == TB.get("BL")
                res.ob("R-SAG-ENDGROUP", fi, role + ":source-index", "the tested index is the token index of the source descriptor", c, ok)
            # --- target side
            if name == "_add_stochastic_bonds" and not listed:
                tgt_idx = f"_find_bd_token({fi.params[1]}, {db})"
                if kind == "stochastic_weight":
                    from ..ctext import ct

                    ok = ct(f"{tgt_idx} < len({fi.params[1]}.repeat_tokens)") in L.pos
                    res.ob("R-SAG-COMPAT", fi, role + ":target-kind", "a stochastic (growth) edge ends in a repeat unit", c, ok, f"{sorted(L.pos)[:4]}")
                elif kind == "termination_weight":
                    from ..ctext import ct

                    ok = ct(f"{tgt_idx} < len({fi.params[1]}.repeat_tokens)", False) in L.pos
                    res.ob("R-SAG-COMPAT", fi, role + ":target-kind", "a termination edge ends in an end group", c, ok, f"{sorted(L.neg)[:4]}")
    return n


def _continue_guard(fi, flow, call, expected_src, subst) -> bool:
    """An `if <expected>: continue` whose test node every path to `call` passes on its F edge."""
    cfg = flow.cfg
    cn = cfg.node_of(call)
    for gn, label in cfg.guards(cn):
        st = cfg.nodes[gn].stmt
        if isinstance(st, ast.If) and label == "F" and any(isinstance(x, ast.Continue) for x in st.body):
            can = Canon()
            try:
                f = can.formula(st.test)
                w = can.formula(parse_expr(expected_src))
                if equivalent(f, w)[0]:
                    return True
            except AnalysisError:
                continue
    return False


def sag_misc(eng, res):
    from ..pat import unify

    fi = M(eng, "_add_stochastic_bonds")
    flow = eng.flow(fi)
    cfg = flow.cfg
    EP = fi.params[1]
    SB, _ = sb_env(eng)
    ok = False
    why = "no enumerate over the transition list"
    for l in own_nodes(fi.node):
        if isinstance(l, ast.For) and isinstance(l.iter, ast.Call) and callee_name(l.iter) == "enumerate" and isinstance(l.target, ast.Tuple):
            pv = src(flow.expand_names(l.iter.args[0], cfg._foriter[id(l)]))
            if pv.endswith(".transitions"):
                idx = l.target.elts[0].id
                first = l.body[0]
                ok = bool(SB) and isinstance(first, ast.Assign) and src(first.value) == f"{EP}.bond_descriptors[{idx}]" and pv == f"{SB['G']}.transitions"
                why = f"list {pv}; first statement {src(first)[:60]}"
    res.ob("R-SAG-COMPAT", fi, "list-alignment", "entry i of a descriptor's transition list addresses descriptor i of the object's full descriptor list (repeat and end groups)", fi.node, ok, why)
    outer = [l for l in own_nodes(fi.node) if isinstance(l, ast.For) and src(l.iter) == f"{EP}.bond_descriptors" and not cfg.enclosing_loops(l)]
    inner = [l for l in own_nodes(fi.node) if isinstance(l, ast.For) and src(l.iter) == f"{EP}.bond_descriptors" and cfg.enclosing_loops(l)]
    res.ob("R-SAG-COMPAT", fi, "all-pairs", "every descriptor of the object is a candidate source and every descriptor a candidate target (no link can be missing for lack of being considered)",
           fi.node, len(outer) == 1 and len(inner) >= 1)
    ft = M(eng, "_add_transition_bonds")
    fl = eng.flow(ft)
    TB, nd = tb_env(eng)
    ok = TB is not None
    if ok:
        l1 = nd["for ($LI, $EL) in enumerate(self._big_smi_mol.elements[:-1])"]
        l2 = nd["for $BL in $EL.bond_descriptors"]
        l3 = nd["for $BR in $ER.bond_descriptors"]
        ok = fl.cfg.enclosing_loops(l3)[:2] == [l2, l1] and not site_guards(fl.cfg, l3)
    res.ob("R-SAG-COMPAT", ft, "consecutive-pairs", "transition edges are considered for every descriptor pair of every two consecutive elements", ft.node, ok)
    if not TB:
        return
    body = src(ft.node)
    e2, _ = locate(ft, [f"$T1 = _create_compatible_bond_text({TB['ER']}.left_terminal)", f"$T2 = _create_compatible_bond_text({TB['EL']}.right_terminal)",
                        f"$OK = $INV.is_compatible({TB['BR']})", f"$OK = $INV.is_compatible({TB['BL']})"])
    res.ob("R-SAG-COMPAT", ft, "terminals-respected", "transition edges respect both terminal descriptors (target vs the next element's left terminal, source vs this element's right terminal)", ft.node, e2 is not None)
    ae = calls(ft, "add_edge")
    if ae and e2:
        L = Link(ft, fl, ae[0])
        rp = {t for t, p in L.raw_guards if p}
        from ..ctext import ct

        d = [x for x in fl.defs if x.kind == "assign" and isinstance(x.value, ast.Compare) and ct(src(x.value)) == ct(f"{TB['IR']} < len({TB['ER']}.repeat_tokens)")]
        ok = len(d) == 1
        X = d[0].name if ok else "?"
        res.ob("R-SAG-COMPAT", ft, "target-is-repeat-unit", "a transition edge enters a repeat unit of a stochastic right element (or a plain token)", ae[0], ok)
        ok = e2["OK"] in rp and X in rp
        res.ob("R-SAG-COMPAT", ft, "terminal-tests-dominate", "the edge is added only when the terminal tests succeeded and the target is not an end group", ae[0], ok, f"{sorted(rp)}")


def sag_parallel(eng, res, rule="R-SAG-PARALLEL"):
    """Two descriptor pairs may join the same two atoms (an atom carrying two descriptors): each is an edge of its own.
    That needs a multigraph and insertions that never name a key (a named key overwrites the edge that has it)."""
    res.doc(rule, "the atom graph is a multigraph and every edge insertion adds a new edge (no explicit key): parallel descriptor pairs are all kept")
    ci = eng.prog.cls("StochasticAtomGraph")
    st = [(f, s) for fs in ci.methods.values() for f in fs for s in own_nodes(f.node) if isinstance(s, ast.Assign) and src(s.targets[0]) == "self.graph" and not (isinstance(s.value, ast.Constant) and s.value.value is None)]
    ok = bool(st) and all(isinstance(s.value, ast.Call) and src(s.value.func).split(".")[-1] == "MultiDiGraph" for _, s in st)
    holder = st[0][0] if st else ci.method("__init__")
    res.unit(holder)
    res.ob(rule, holder, "multigraph", "the graph is a networkx MultiDiGraph wherever it is created", st[0][1] if st else holder.node, ok, f"{[src(s.value)[:40] for _, s in st]}")
    n = 0
    for fs in ci.methods.values():
        for f in fs:
            for c in calls(f, "add_edge"):
                if src(c.func.value) != "self.graph":
                    continue
                n += 1
                keyed = len(c.args) > 2 or any(k.arg == "key" or k.arg is None for k in c.keywords) or any(isinstance(a, ast.Starred) for a in c.args)
                res.ob(rule, f, f"no-key@{n}", "the edge is inserted without a key (a new parallel edge, never an overwrite)", c, not keyed,
                       "add_edge names a key / passes a third positional argument: a second edge between the same atoms with that key replaces the first")
    res.floor(rule, n, 6)


def check(eng, res):
    from ..fresh import fresh_flags

    res.doc("R-FRESH-FLAG", "A-FRESH: no condition flag tested inside a loop keeps its value from a previous iteration")
    fresh_flags(eng, res, {'stochastic_atom_graph'})
    res.doc("R-SAG-NODES", "both element kinds dispatched; one node per atom of the token's fragment with that atom's element / charge / aromaticity")
    res.doc("R-SAG-OFFSETS", "offset bookkeeping in lockstep with the counter; endpoints use the offset of their own descriptor's token")
    res.doc("R-SAG-STATIC", "one static edge per bond with that bond's order")
    res.doc("R-SAG-COMPAT", "every non-static edge: compatible endpoints, their order, exactly one weight with the right provenance; list alignment; all pairs considered")
    res.doc("R-SAG-ENDGROUP", "no non-static edge leaves an end group (sibling rule over the three edge families)")
    # every edge builder adds its own offset to a descriptor's token-local atom index: nobody may have shifted that index before
    # (shared with C04's R-INDEX-WRITERS: only the parser and the attachment shift of MolGen copies write it)
    from . import c04 as _c04

    res.doc("R-INDEX-WRITERS", "a descriptor's atom index is written by the parser and the attachment shift only — the graph builders read the token-local index (shared with C04)")
    _c04.index_writers(eng, res)
    sag_nodes(eng, res)
    sag_offsets(eng, res)
    sag_static(eng, res)
    n = sag_links(eng, res)
    res.floor("R-SAG-COMPAT", n, 5)
    sag_misc(eng, res)
    sag_parallel(eng, res)
    # the inverted terminal used by the terminal test repeats symbol, id and bond order of the terminal (shared with C01)
    from . import c01 as _c01

    _sub = type(res)(res.prop)
    _c01.insert_accept(eng, _sub, rule="R-INVERT-TEXT")
    for _o in _sub.obligations:
        if _o.role in ("insert-template", "insert-symbol"):
            res.obligations.append(_o)
    res.doc("R-INVERT-TEXT", "the inverted terminal used by the terminal test repeats symbol, id and bond order of the terminal (shared with C01's R-INSERT-ACCEPT)")
    res.assumptions += ["RDKit atom indices of the fragment are those of the token's atoms", "networkx: MultiDiGraph.add_edge(u, v, **attrs) without a key always adds a new edge"]
    res.not_decided += ["equality with an independently built graph for every molecule", "completeness of edges beyond 'every pair is considered under the stated filters'"]
