"""C19 — ensemble probability of linear chains equals generation probability (accounting structure only)."""
from __future__ import annotations

import ast

from ..loader import AnalysisError, norm, own_nodes, src
from ..util import callee_name, calls, with_nested
from . import c11
from .c16 import conjuncts

LEVEL = "other"


def _guards(flow, node):
    out = []
    for t, pol in flow.cfg.guard_exprs(flow.cfg.node_of(node)):
        st = getattr(t, "_parent", None)
        if isinstance(st, ast.If):
            out += conjuncts(t, pol)
    return out


def mass_account(eng, res, rule="R-MASS-ACCOUNT"):
    ci = eng.prog.cls("PossibleMatch")
    n = 0
    fs = []
    for ms in ci.methods.values():
        for m in ms:
            fs += with_nested(m)
    for f in fs:
        flow = eng.flow(f)
        cfg = flow.cfg
        for node in own_nodes(f.node):
            if isinstance(node, ast.AugAssign) and isinstance(node.target, ast.Subscript) and isinstance(node.target.value, ast.Attribute) and node.target.value.attr == "_element_weights":
                n += 1
                res.unit(f)
                owner = src(node.target.value.value)
                idx = src(node.target.slice)
                g = _guards(flow, node)
                pos = {t for t, p in g if p}
                elem = f"{owner}._big.elements[{idx}]"
                loops = [src(l.iter) for l in cfg.enclosing_loops(node) if isinstance(l, ast.For)]
                import re as _re

                def shape(t):
                    m = _re.fullmatch(r"isinstance\((\w+)\._big\.elements\[(\w+)\.(\w+)\], (\w+)\)", t)
                    return (m.group(3), m.group(4)) if m and (m.group(1) == m.group(2)) else None

                want_idx = idx.split(".")[-1]
                plain = any(shape(t) == (want_idx, "SmilesToken") for t in pos)
                in_repeat = any(shape(t) == (want_idx, "Stochastic") for t in pos) and any(l.endswith(".repeat_tokens") for l in loops)
                in_end = any(l.endswith(".end_tokens") for l in loops)
                ok = (plain or in_repeat) and not in_end
                why = f"accumulates into {owner}._element_weights[{idx}] under {sorted(pos)[:3]} in loops {loops}"
                res.ob(rule, f, f"accumulate:{f.name}:{'plain' if plain else ('repeat' if in_repeat else 'unrestricted')}",
                       "mass is counted towards an element only for a plain token or a repeat unit of a stochastic element (the generator counts only repeat units towards a block)",
                       node, ok, why)
                # what is added: heavy-atom mass of the token's own fragment
                v = flow.expand_names(node.value, cfg.node_of(node))
                okv = src(v).startswith("rdDescriptors.HeavyAtomMolWt(Chem.MolFromSmiles(") and "generate_smiles_fragment()" in src(v)
                res.ob(rule, f, f"accumulate:{f.name}:{'plain' if plain else ('repeat' if in_repeat else 'unrestricted')}:value", "the mass added is the heavy-atom mass of that token's fragment", node, okv, f"adds {src(v)[:90]}")
    # the search branch over end tokens adds nothing
    ro = eng.prog.func_opt("mol_prob.PossibleMatch.react_open.handle_atom")
    if ro is not None:
        res.unit(ro)
        flow = eng.flow(ro)
        end_loops = [l for l in own_nodes(ro.node) if isinstance(l, ast.For) and src(l.iter).endswith(".end_tokens")]
        bad = [l for l in end_loops if any(isinstance(x, ast.AugAssign) and "_element_weights" in src(x.target) for x in ast.walk(l))]
        res.ob(rule, ro, "end-tokens-not-counted", "candidate end groups are searched without adding their mass", ro.node, bool(end_loops) and not bad)
    # per-element accumulators: one interval-remembering accumulator per element, starting at 0
    init = eng.prog.func("mol_prob.PossibleMatch.__init__")
    st = [s for s in own_nodes(init.node) if isinstance(s, ast.Assign) and src(s.targets[0]) == "self._element_weights"]
    from ..pat import unify as _u

    ok = len(st) == 1 and _u("[RememberAdd(0.0) for $X in range(self._Nelements)]", src(st[0].value)) is not None
    res.ob(rule, init, "accumulators", "one interval-remembering accumulator per element, starting at 0", init.node, ok, f"{src(st[0].value) if st else None}")
    return n


def prob_product(eng, res, rule="R-PROB-PRODUCT"):
    f = eng.prog.cls("PossibleMatch").method("log_prob")
    if f is None:
        raise AnalysisError("PossibleMatch.log_prob not found")
    res.unit(f)
    flow = eng.flow(f)
    cfg = flow.cfg
    augs = [n for n in own_nodes(f.node) if isinstance(n, ast.AugAssign) and isinstance(n.target, ast.Name) and isinstance(n.op, ast.Add)]
    ok = len(augs) == 1
    why = f"{len(augs)} accumulation(s)"
    if ok:
        a = augs[0]
        lp = [l for l in cfg.enclosing_loops(a) if isinstance(l, ast.For)]
        from ..cfg import within as _within

        g = set()
        for t, pol in cfg.guard_exprs(cfg.node_of(a)):
            stp = getattr(t, "_parent", None)
            if isinstance(stp, ast.If) and lp and _within(stp, lp[0]) and pol:
                g |= {x for x, p_ in conjuncts(t, pol) if p_}
        ok = len(lp) == 1 and src(lp[0].iter) == "enumerate(self._big.elements)"
        if ok:
            i, e = lp[0].target.elts[0].id, lp[0].target.elts[1].id
            ok = g == {f"isinstance({e}, Stochastic)"} and src(a.value) == f"np.log({e}.distribution.prob_mw(self._element_weights[{i}]))"
            why = f"adds {src(a.value)} under {sorted(g)}"
            acc = a.target.id
            init = [d for d in flow.defs if d.name == acc and d.kind == "assign"]
            ok = ok and len(init) == 1 and src(init[0].value) in ("np.log(1.0)", "0.0", "0")
    res.ob(rule, f, "product-over-stochastic-elements", "the log-probability adds log(prob_mw(accumulated mass)) for every stochastic element and no other, the argument being that element's interval accumulator",
           f.node, ok, why)
    rets = [r for r in own_nodes(f.node) if isinstance(r, ast.Return) and r.value is not None]
    vals = [(src(flow.expand_names(r.value, cfg.node_of(r))), {t for t, p in _guards(flow, r) if p}) for r in rets]
    full = [v for v in vals if "_log_prob" in v[0]]
    ok = len(full) == 1 and augs and full[0][0] == f"self._log_prob + {augs[0].target.id}" and full[0][1] == {"self.fully_explored", "not self._open_atoms"}
    other = [v for v in vals if "_log_prob" not in v[0]]
    ok = ok and all(v[0] == "-np.inf" for v in other) and len(other) == 1
    res.ob(rule, f, "final-value", "probability = path probability x interval probabilities, only for a fully explored match without open atoms; otherwise 0", f.node, ok, f"{vals}")
    p = eng.prog.cls("PossibleMatch").method("probability")
    ok = p is not None and [src(r.value) for r in own_nodes(p.node) if isinstance(r, ast.Return)] == ["np.exp(self.log_prob)"]
    res.ob(rule, p or f, "exp", "probability = exp(log probability)", (p or f).node, ok)
    gp = eng.prog.func("mol_prob.get_prob")
    res.unit(gp)
    fl = eng.flow(gp)
    rets = [r for r in own_nodes(gp.node) if isinstance(r, ast.Return)]
    t = src(fl.expand_names(rets[0].value, fl.cfg.node_of(rets[0]))) if rets else ""
    res.ob(rule, gp, "sum-over-matches", "the reported probability is the sum over all full matches", gp.node, __import__("re").search(r"np\.sum\(\[(\w+)\.probability for \1 in (\w+)\]\)", t) is not None and _is_full_matches(gp, fl, t), t[:100])


def _is_full_matches(gp, fl, t) -> bool:
    """the summed list is the one returned alongside and the one the finished matches are added to"""
    m = __import__("re").search(r"np\.sum\(\[(\w+)\.probability for \1 in (\w+)\]\)", t)
    lst = m.group(2)
    augs = [d for d in fl.defs if d.name == lst and d.kind == "aug"]
    return len(augs) >= 1 and t.rstrip(")").endswith(lst)


def start_prob(eng, res, rule="R-START-PROB"):
    from .c17 import locate
    from ..pat import unify

    f = eng.prog.func("mol_prob.get_starting_tokens")
    res.unit(f)
    flow = eng.flow(f)
    cfg = flow.cfg
    big = f.params[1]
    e, nd = locate(f, [f"$SE = {big}.elements[0]", "$SF.append($SE)", "$SP.append(1.0)", "for $ET in $SE.end_tokens", "$SF.append($ET)", "$W = 0", "for $BD in $ET.bond_descriptors",
                       "$W += $BD.weight", "$EW.append($W)", "$EW /= np.sum($EW)", "$SP += list($EW)", "return ($SF, $SP)"])
    res.ob(rule, f, "shape", "start fragments and their probabilities are built in parallel lists and returned together", f.node, e is not None, "statement pattern not found")
    if e is None:
        return
    one = nd["$SP.append(1.0)"]
    g = {t for t, p in _guards(flow, one) if p}
    ok = g == {f"isinstance({e['SE']}, SmilesToken)"} and g == {t for t, p in _guards(flow, nd["$SF.append($SE)"]) if p}
    res.ob(rule, f, "prefix-token", "a molecule that starts with a plain token starts there with probability 1", one, ok)
    lp = nd["for $ET in $SE.end_tokens"]
    inl = nd["for $BD in $ET.bond_descriptors"]
    ok = lp in cfg.enclosing_loops(nd["$SF.append($ET)"]) and lp in cfg.enclosing_loops(nd["$EW.append($W)"]) and lp in cfg.enclosing_loops(nd["$W = 0"]) \
        and inl in cfg.enclosing_loops(nd["$W += $BD.weight"]) and inl not in cfg.enclosing_loops(nd["$EW.append($W)"]) \
        and {t for t, p in _guards(flow, lp) if p} == {f"isinstance({e['SE']}, Stochastic)"} and not [x for x in _guards(flow, nd["$W += $BD.weight"]) if "isinstance" not in x[0]]
    res.ob(rule, f, "end-group-weights", "each end group's start weight is the sum of its descriptors' weights, gathered in the same traversal as the start fragments", lp, ok)
    nrm, ext = nd["$EW /= np.sum($EW)"], nd["$SP += list($EW)"]
    ok = cfg.must_pass(cfg.node_of(nrm), cfg.node_of(ext)) and not cfg.enclosing_loops(nrm) and cfg.node_of(nrm) in cfg.reachable([cfg.node_of(lp)])
    res.ob(rule, f, "normalised", "the start probabilities of the end groups are their weights divided by their own sum", nrm, ok)
    gp = eng.prog.func("mol_prob.get_prob")
    fl = eng.flow(gp)
    e2, nd2 = locate(gp, [f"$ST, $SPR = get_starting_tokens({gp.params[0]}, {gp.params[1]})", "for ($TOK, $PR) in zip($ST, $SPR)", f"$M = PossibleMatch($MOL, {gp.params[1]}, $SUB, $TOK, $PR)"])
    res.ob(rule, gp, "start-prob-used", "each start fragment's probability is the initial probability of the matches started from it", gp.node, e2 is not None)
    init = eng.prog.func("mol_prob.PossibleMatch.__init__")
    st = [s for s in own_nodes(init.node) if isinstance(s, ast.Assign) and src(s.targets[0]) == "self._log_prob" and "np.log" in src(s.value)]
    ok = len(st) == 1 and src(st[0].value) == f"np.log({init.params[5]})"
    res.ob(rule, init, "initial-log-prob", "a started match carries log(initial probability)", init.node, ok)


def match_copy(eng, res, rule="R-MATCH-COPY"):
    """Search states are independent: copy() is a plain deep copy (no memo that would share sub-objects), so the
    de-duplication by equality in get_prob can only ever merge a state with itself."""
    ci = eng.prog.cls("PossibleMatch")
    f = ci.method("copy")
    if f is None:
        raise AnalysisError("PossibleMatch.copy not found")
    res.unit(f)
    fl = eng.flow(f)
    dc = [c for c in calls(f) if callee_name(c) == "deepcopy"]
    ok = len(dc) == 1 and len(dc[0].args) == 1 and not dc[0].keywords and src(dc[0].args[0]) == f.params[0]
    res.ob(rule, f, "plain-deepcopy", "a search copy is copy.deepcopy(self) with nothing shared between the copies", dc[0] if dc else f.node, ok,
           f"deepcopy called as {src(dc[0])[:80] if dc else None}")
    rets = [r for r in own_nodes(f.node) if isinstance(r, ast.Return) and r.value is not None]
    ok = len(rets) == 1 and isinstance(rets[0].value, ast.Name) and dc and any(d.value is dc[0] for d in fl.reaching(rets[0].value.id, fl.cfg.node_of(rets[0])))
    res.ob(rule, f, "returns-the-copy", "the copy (with the adjusted probability) is what is returned", f.node, ok)
    adj = [n for n in own_nodes(f.node) if isinstance(n, ast.AugAssign) and src(n.target).endswith("._log_prob")]
    ok = len(adj) == 1 and isinstance(adj[0].op, ast.Add) and src(adj[0].value) == f"np.log({f.params[1]})"
    res.ob(rule, f, "probability-adjusted-once", "the copy's log-probability is increased by log(adjustment) exactly once", f.node, ok)
    dm = [m for m in ("__deepcopy__", "__copy__", "__reduce__", "__getstate__") if ci.method(m) is not None]
    res.ob(rule, ci.qualname, "no-custom-copy-protocol", "PossibleMatch defines no custom copy protocol", "-", not dm, f"{dm}")
    eq = ci.method("__eq__")
    if eq is not None:
        for n in own_nodes(eq.node):
            if isinstance(n, ast.Compare) and len(n.ops) == 1 and src(n.left) == src(n.comparators[0]):
                res.info(f"{eq.module.relpath}:{n.lineno} PossibleMatch.__eq__ compares `{src(n.left)}` with itself (always equal): the accumulated masses do not take part in equality. "
                         "Harmless while every copy owns its own `_big` (identity comparison fails first); it becomes a defect as soon as copies share it")


# ---------------------------------------------------------------------------------------------- R-REACTION-PROB
def _is_mark(t, name):
    return isinstance(t, ast.Call) and isinstance(t.func, ast.Name) and t.func.id == "§" + name


def _has_loop(t):
    return any(_is_mark(x, "loop") for x in ast.walk(t))


def _parse_accum(t):
    """§phi(init, §phi(init, §loop(..)) + addend)  ->  (init text, addend text); None when not an accumulation."""
    if not _is_mark(t, "phi") or len(t.args) != 2:
        return None
    init = [a for a in t.args if not _has_loop(a)]
    rec = [a for a in t.args if _has_loop(a)]
    if len(init) != 1 or len(rec) != 1 or not (isinstance(rec[0], ast.BinOp) and isinstance(rec[0].op, ast.Add)):
        return None
    l, r = rec[0].left, rec[0].right
    if _has_loop(r) and not _has_loop(l):
        l, r = r, l
    if not (_is_mark(l, "phi") and any(_is_mark(a, "loop") for a in l.args)):
        return None
    inner = [a for a in l.args if not _is_mark(a, "loop")]
    if len(inner) != 1 or src(inner[0]) != src(init[0]) or _has_loop(r):
        return None
    return src(init[0]), src(r)


def _quotient(t):
    """(numerator, denominator) of a plain quotient a / b"""
    if isinstance(t, ast.BinOp) and isinstance(t.op, ast.Div):
        return t.left, t.right
    return None


def _pool_argument_ok(eng, fi, coll) -> bool:
    """`coll` is a variable of (an enclosing function of) get_reaction_prob; follow it to the values the search hands in:
    each must be `<stochastic object>.repeat_bonds`, `<stochastic object>.end_bonds` or `<plain token>.bond_descriptors`,
    repeat tokens being paired with repeat_bonds and end tokens with end_bonds."""
    name = coll.split(".")[0].split("[")[0]
    f = fi
    while f is not None and name not in f.params:
        f = f.parent
    if f is None:
        return False
    # call sites of f inside its parent chain: tuples appended to a worklist and unpacked later are followed textually
    owner = f.parent or f
    texts = []
    for n in ast.walk(owner.node):
        if isinstance(n, ast.Call) and isinstance(n.func, ast.Attribute) and n.func.attr == "append" and n.args and isinstance(n.args[0], ast.Tuple) and len(n.args[0].elts) >= 3:
            texts.append((src(n.args[0].elts[-1]), n))
    if not texts:
        return False
    ok = True
    for t, n in texts:
        loops = []
        p_ = getattr(n, "_parent", None)
        while p_ is not None and p_ is not owner.node:
            if isinstance(p_, ast.For):
                loops.append(src(p_.iter))
            p_ = getattr(p_, "_parent", None)
        if t.endswith(".repeat_bonds"):
            ok = ok and any(l.endswith(".repeat_tokens") for l in loops)
        elif t.endswith(".end_bonds"):
            ok = ok and any(l.endswith(".end_tokens") for l in loops)
        elif t.endswith(".bond_descriptors"):
            ok = ok and not loops
        else:
            ok = False
    return ok


def reaction_prob(eng, res, rule="R-REACTION-PROB"):
    """The probability model mirrors the generator's choices: with a transition list the partner's entry over the
    list's total; otherwise the partner's weight over the summed weight of the token's compatible descriptors;
    the open atom is picked with its weight over the summed weight of all open atoms (1 when nothing has weight)."""
    from ..ctext import cconj

    fi = eng.prog.func_opt("mol_prob.PossibleMatch.react_open.react.get_reaction_prob")
    if fi is None:
        cands = [f for q, f in eng.prog.functions.items() if q.startswith("mol_prob.") and q.endswith("get_reaction_prob")]
        if len(cands) != 1:
            raise AnalysisError("mol_prob: get_reaction_prob not found")
        fi = cands[0]
    res.unit(fi)
    fl = eng.flow(fi)
    cfg = fl.cfg
    if len(fi.params) != 3:
        raise AnalysisError("get_reaction_prob: expected (open descriptor, partner descriptor, token)")
    O, B, T = fi.params
    rets = [r for r in own_nodes(fi.node) if isinstance(r, ast.Return) and r.value is not None]
    alts = []
    for r in rets:
        t = fl.expand(r.value, cfg.node_of(r))
        alts += list(t.args) if _is_mark(t, "phi") else [t]
    got_list = got_weight = None
    acc = None
    for a in alts:
        q = _quotient(a)
        if q is None:
            continue
        num, den = src(q[0]), q[1]
        if num == f"{O}.transitions[{B}.descriptor_num]" and src(den) == f"{O}.weight":
            got_list = a
        pa = _parse_accum(den)
        if num == f"{B}.weight" and pa is not None:
            got_weight, acc = a, pa
    ok = got_list is not None and len(alts) == 2
    res.ob(rule, fi, "list-law", "with a transition list: probability = list entry of the partner's descriptor number / the open descriptor's weight (= Σ list)", fi.node, ok,
           f"alternatives: {[src(a)[:90] for a in alts]}")
    import re as _re

    coll = None
    if acc is not None:
        m_ = _re.fullmatch(r"§elem\((.+)\)\.weight", acc[1])
        coll = m_.group(1) if m_ else None
    ok = got_weight is not None and acc is not None and acc[0] == "0" and coll is not None and len(alts) == 2
    res.ob(rule, fi, "weight-law", "without a list: probability = partner's weight / Σ weights of candidate descriptors (accumulated from 0)", fi.node, ok,
           f"alternatives: {[src(a)[:110] for a in alts]}")
    # which candidates?  The generator draws the partner among ALL repeat-unit descriptors of the object while it grows and
    # among ALL end-group descriptors when it caps (C08 R-POOLS: self.repeat_bonds / self.end_bonds); a plain token offers
    # its own descriptors.  The sum must run over that pool, not over the one token the partner happens to sit on.
    pool_ok, pool_why = False, f"the normalising sum runs over {coll}"
    if coll is not None:
        if coll == f"{T}.bond_descriptors":
            pool_why = (f"the normalising sum runs over `{coll}` — the descriptors of the partner's own token — while the generator draws the partner among all "
                        "repeat-unit (growing) / all end-group (capping) descriptors of the stochastic object: with two end groups of the same direction each is reported with probability 1")
        else:
            # a pool handed in by the caller: every call site must pass repeat_bonds / end_bonds of the active object (or a plain token's own list)
            pool_ok = _pool_argument_ok(eng, fi, coll)
            pool_why = f"pool `{coll}`: " + ("every call site hands in the object's repeat / end descriptors (or a plain token's own list)" if pool_ok else "not the generator's pool at every call site")
    res.ob(rule, fi, "weight-law-pool", "the normalising sum runs over the pool the generator draws the partner from (all repeat-unit descriptors when growing, all end-group descriptors when capping)", fi.node, pool_ok, pool_why)
    # which law under which condition, and the filter of the sum
    lst = [d for d in fl.defs if d.kind == "assign" and d.value is not None and src(d.value) == f"{O}.transitions[{B}.descriptor_num]"]
    ok = bool(lst) and all(f"{O}.transitions is not None" in {t for t, _ in _guards(fl, d.stmt)} for d in lst)
    res.ob(rule, fi, "list-law-guard", "the list law applies exactly when the open descriptor carries a transition list", lst[0].stmt if lst else fi.node, ok)
    augs = [d for d in fl.defs if d.kind == "aug" and isinstance(d.value, ast.Attribute) and d.value.attr == "weight" and cfg.enclosing_loops(d.stmt)]
    okf, whyf = False, f"{len(augs)} accumulation(s) in a loop"
    if len(augs) == 1:
        d = augs[0]
        loop = cfg.enclosing_loops(d.stmt)[0]
        e = loop.target.id if isinstance(loop, ast.For) and isinstance(loop.target, ast.Name) else None
        g = {t for t, _ in _guards(fl, d.stmt)}
        okf = e is not None and src(d.value) == f"{e}.weight" and bool(g & {f"{e}.is_compatible({O})", f"{O}.is_compatible({e})"}) and f"{O}.transitions is not None" not in g
        whyf = f"accumulates {src(d.value)} under {sorted(g)}"
    res.ob(rule, fi, "weight-law-filter", "the sum runs over the token's descriptors compatible with the open descriptor", augs[0].stmt if augs else fi.node, okf, whyf)
    # the open atom's pick probability
    ha = [f for q, f in eng.prog.functions.items() if q.startswith("mol_prob.") and q.endswith(".handle_atom")]
    if len(ha) != 1:
        raise AnalysisError("mol_prob: handle_atom not found")
    ha = ha[0]
    res.unit(ha)
    hf = eng.flow(ha)
    uses = [c for c in own_nodes(ha.node) if isinstance(c, ast.Call) and isinstance(c.func, ast.Attribute) and c.func.attr == "copy" and c.args]
    n_use = 0
    for c in uses:
        t = hf.expand(c.args[0], hf.cfg.node_of(c))
        al = list(t.args) if _is_mark(t, "phi") else [t]
        one = [a for a in al if isinstance(a, ast.Constant) and a.value == 1.0]
        quo = [a for a in al if _quotient(a) is not None]
        ok, why = False, f"alternatives {[src(a)[:100] for a in al]}"
        if len(al) == 2 and len(one) == 1 and len(quo) == 1:
            num, den = _quotient(quo[0])
            pa = _parse_accum(den)
            ns = src(num)
            if pa is not None and ns.endswith(".bond_descriptor.weight") and "pop_open_atom(" in ns:
                recv = ns[: ns.index(".pop_open_atom(")]
                ok = pa == (ns, f"§elem({recv}._open_atoms).bond_descriptor.weight")
                why = f"numerator {ns[-60:]}, sum starts at {pa[0][-50:]} and adds {pa[1][-70:]}"
        res.ob(rule, ha, f"atom-pick@{n_use}", "a branch of the search is weighted by the popped atom's descriptor weight / (that weight + Σ weights of the remaining open atoms); 1 when no atom carries weight",
               c, ok, why)
        n_use += 1
    # the value 1 applies exactly when the total is not positive
    ones = [d for d in hf.defs if d.kind == "assign" and isinstance(d.value, ast.Constant) and d.value.value == 1.0]
    divs = [d for d in hf.defs if d.kind == "assign" and _quotient(d.value) is not None and isinstance(d.value.right, ast.Name)]
    ok = len(ones) == 1 and len(divs) == 1 and ones[0].name == divs[0].name
    why = f"{len(ones)} constant-1 / {len(divs)} quotient definition(s)"
    if ok:
        tot = divs[0].value.right.id
        gd, go = {t for t, _ in _guards(hf, divs[0].stmt)}, {t for t, _ in _guards(hf, ones[0].stmt)}
        from ..ctext import ct

        ok = ct(f"{tot} > 0") in gd and ct(f"{tot} > 0", False) in go
        why = f"quotient under {sorted(gd)}, constant under {sorted(go)}"
    res.ob(rule, ha, "atom-pick-zero-total", "the quotient is used exactly when the total weight is positive (otherwise probability 1: the single weightless atom)", divs[0].stmt if divs else ha.node, ok, why)
    res.floor(rule, n_use, 3)


def match_dedup(eng, res, rule="R-MATCH-DEDUP"):
    """get_prob drops search states that compare equal to one already handled.  Two states that differ in their block
    masses (same atoms, different split between blocks) are different paths with their own probability: either the
    equality can never hold for two distinct states (it compares, by identity, a deep-copied notation object), or it
    must compare the block masses of the two states."""
    ci = eng.prog.cls("PossibleMatch")
    eq = ci.method("__eq__")
    users = [f for q, f in eng.prog.functions.items() if q.startswith("mol_prob.") and any(
        isinstance(n, ast.Compare) and isinstance(n.ops[0], (ast.In, ast.NotIn)) and "handled" in src(n.comparators[0]) for n in own_nodes(f.node))]
    if eq is None or not users:
        res.ob(rule, ci.qualname, "dedup-inert", "states are compared by identity (no __eq__) or never filtered", f"{ci.module.relpath}:{ci.node.lineno}", True)
        return
    res.unit(eq)
    o = eq.params[1]
    fields = []
    for n in own_nodes(eq.node):
        if isinstance(n, ast.Compare) and len(n.ops) == 1 and isinstance(n.left, ast.Attribute) and isinstance(n.comparators[0], ast.Attribute):
            l, r = n.left, n.comparators[0]
            if src(l.value) == "self" and src(r.value) == o and l.attr == r.attr:
                fields.append(l.attr)
            elif src(l.value) == o and src(r.value) == "self" and l.attr == r.attr:
                fields.append(l.attr)
    # fields holding a notation object whose class hierarchy defines no __eq__ (identity comparison)
    notation = {c.name for c in eng.prog.classes.values() if c.name == "BigSMILESbase" or "BigSMILESbase" in _mro_names(eng, c)}
    with_eq = sorted(c for c in notation if any(eng.prog.classes[k].method("__eq__") is not None for k in [c] + _mro_names(eng, eng.prog.classes[c]) if k in eng.prog.classes))
    init = ci.method("__init__")
    big_fields = [s.targets[0].attr for s in own_nodes(init.node) if isinstance(s, ast.Assign) and isinstance(s.targets[0], ast.Attribute) and isinstance(s.value, ast.Name)
                  and s.value.id in init.params and s.value.id in ("big", "big_mol", "bigsmiles", "molecule")]
    identity = [f for f in fields if f in big_fields] and not with_eq
    masses = "_element_weights" in fields
    res.ob(rule, eq, "distinguishes-block-masses", "two search states compare equal only if their block masses agree (or never: the notation object they carry is compared by identity)", eq.node,
           bool(identity) or masses,
           f"compared between the two states: {sorted(fields)}; notation classes with __eq__: {with_eq}; block masses compared: {masses}")


def _mro_names(eng, c, seen=None):
    seen = seen or set()
    out = []
    for b in c.base_names:
        b = b.split(".")[-1]
        if b in seen:
            continue
        seen.add(b)
        out.append(b)
        if b in eng.prog.classes:
            out += _mro_names(eng, eng.prog.classes[b], seen)
    return out


def match_unique(eng, res, rule="R-MATCH-UNIQUE"):
    """Each placement of a fragment on a set of atoms is one path of the search.  RDKit returns one match per atom set
    by default; with uniquify=False every automorphism of a symmetric fragment (isopropyl: 2, CF3: 6) becomes a path of
    its own and the reported probability is multiplied by that number."""
    res.doc(rule, "substructure matches are enumerated once per atom set (RDKit's default uniquify)")
    n = 0
    bad = []
    for q, fi in sorted(eng.prog.functions.items()):
        if fi.module.name != "mol_prob":
            continue
        for c in calls(fi, "GetSubstructMatches"):
            n += 1
            res.unit(fi)
            kw = [k for k in c.keywords if k.arg in ("uniquify", None)]
            okc = len(c.args) <= 1 or (len(c.args) >= 2 and False)
            if kw and not (isinstance(kw[0].value, ast.Constant) and kw[0].value.value is True and kw[0].arg == "uniquify"):
                okc = False
            if len(c.args) > 1:
                okc = False
            if not okc:
                bad.append(f"{fi.qualname} line {c.lineno}: {src(c)[:70]}")
    res.ob(rule, "package", "unique-matches", "every GetSubstructMatches call of the probability model uses the default (one match per atom set)", "-", n >= 3 and not bad, "; ".join(bad) or f"{n} call(s)")
    res.floor(rule, n, 3)


def check(eng, res):
    from . import c10 as _c10

    _c10.copy_plain(eng, res)
    from ..fresh import fresh_flags

    res.doc("R-FRESH-FLAG", "A-FRESH: no condition flag tested inside a loop keeps its value from a previous iteration")
    fresh_flags(eng, res, {'mol_prob'})
    res.doc("R-MATCH-COPY", "search copies are plain deep copies (independent states)")
    res.doc("R-DRAW-PARAMS", "prob_mw's cdf / pmf calls receive the family's own parameters (C11)")
    res.doc("R-MASS-ACCOUNT", "which masses are accumulated per element: plain tokens and repeat units only (cross-check with the generator's law, C07)")
    res.doc("R-PROB-PRODUCT", "final log-probability = path log-probability + Σ over stochastic elements of log prob_mw(interval accumulator)")
    res.doc("R-START-PROB", "start fragments' probabilities: 1 for a prefix token; end groups' descriptor weights / their sum")
    res.doc("R-INTERVAL", "interval probability = cdf(value) − cdf(previous), previous read before the addition (C11)")
    n = mass_account(eng, res)
    res.floor("R-MASS-ACCOUNT", n, 3)
    prob_product(eng, res)
    start_prob(eng, res)
    c11.interval(eng, res)
    c11.draw_params(eng, res)
    match_copy(eng, res)
    res.doc("R-REACTION-PROB", "per-step probabilities mirror the generator: list entry / list total; weight / Σ compatible weights; atom weight / Σ open atoms' weights")
    reaction_prob(eng, res)
    res.doc("R-MATCH-DEDUP", "the duplicate filter of the search cannot merge states with different block masses")
    match_dedup(eng, res)
    match_unique(eng, res)
    res.assumptions += ["RDKit substructure matching enumerates the embeddings of a fragment"]
    res.not_decided += ["equality of the two numbers for all molecules", "the sum over the ensemble being 1", "atom-order invariance (RDKit substructure matching)", "reaction probabilities for objects with several repeat units"]
