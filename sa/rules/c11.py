"""C11 — each molecular-weight distribution is one coherent probability law (coherence of the wiring)."""
from __future__ import annotations

import ast

from ..loader import AnalysisError, norm, own_nodes, src
from ..util import callee_name, calls, kwarg
from . import c09, c15

LEVEL = "other"


def _law_calls(fi):
    out = []
    if fi is None:
        return out
    for c in calls(fi):
        if callee_name(c) in ("rvs", "cdf", "pmf", "pdf", "sf", "ppf"):
            out.append(c)
    return out


def draw_params(eng, res, rule="R-DRAW-PARAMS"):
    n = 0
    for ci in c09.families(eng):
        dm = ci.method("draw_mw")
        pm = ci.method("prob_mw")
        cs = _law_calls(dm) + _law_calls(pm)
        if not cs:
            continue
        # families with a hand-written law pass shape parameters explicitly
        sets = {}
        for c in cs:
            kws = {k.arg: src(k.value) for k in c.keywords if k.arg != "random_state"}
            sets[(callee_name(c), (c.lineno, c.col_offset))] = (kws, src(c.func.value))
        ref = None
        for k, (kws, recv) in sets.items():
            if kws:
                ref = kws
                break
        if ref is None:
            continue  # frozen scipy object: parameters fixed at construction (R-PARAM-ROLE)
        n += 1
        if dm is not None:
            res.unit(dm)
        if pm is not None:
            res.unit(pm)
        for (nm, ln), (kws, recv) in sorted(sets.items()):
            res.ob(rule, ci.qualname, f"{ci.name}:{nm}:{_ordinal(sets, nm, ln)}", f"{nm}() receives the same shape parameters as every other law call of {ci.name}, on the same distribution object",
                   f"{ci.module.relpath}:{ln[0]}", kws == ref and recv == "self._distribution", f"{nm} gets {kws} on {recv}; reference {ref}")
        kinds = {nm for nm, _ in sets}
        res.ob(rule, ci.qualname, f"{ci.name}:complete", "the family wires draw (rvs), interval probability (two cdf calls) and point probability (pmf/pdf)",
               f"{ci.module.relpath}:{ci.node.lineno}", "rvs" in kinds and sum(1 for nm, _ in sets if nm == "cdf") == 2 and bool(kinds & {"pmf", "pdf"}), f"calls: {sorted(sets)}")
    return n


def _ordinal(sets, nm, ln):
    same = sorted(l for (n, l) in sets if n == nm)
    return same.index(ln)


def interval(eng, res, rule="R-INTERVAL"):
    n = 0
    for ci in [eng.prog.cls("Distribution")] + c09.families(eng):
        pm = ci.method("prob_mw")
        if pm is None:
            continue
        flow = eng.flow(pm)
        cfg = flow.cfg
        param = pm.params[1]
        for r in own_nodes(pm.node):
            if isinstance(r, ast.Return) and r.value is not None and any(callee_name(c) == "cdf" for c in ast.walk(r.value) if isinstance(c, ast.Call)):
                n += 1
                res.unit(pm)
                v = r.value
                ok = isinstance(v, ast.BinOp) and isinstance(v.op, ast.Sub) and isinstance(v.left, ast.Call) and isinstance(v.right, ast.Call) \
                    and callee_name(v.left) == "cdf" and callee_name(v.right) == "cdf" \
                    and v.left.args and v.right.args and src(v.left.args[0]) == f"{param}.value" and src(v.right.args[0]) == f"{param}.previous"
                res.ob(rule, pm, f"{ci.name}:orientation", "interval probability = cdf(arg.value) − cdf(arg.previous)", r, ok, f"returns {src(v)[:110]}")
                g = cfg.guard_exprs(cfg.node_of(r))
                ok = any(pol and src(t).startswith(f"isinstance({param},") and "RememberAdd" in src(t) for t, pol in g)
                res.ob(rule, pm, f"{ci.name}:guard", "the interval form is used exactly for interval arguments", r, ok, f"guards {[src(t) for t, _ in g]}")
        # no other formula answers an interval argument: every return on an interval path is the cdf difference
        # or hands the argument on to the base class
        for r in own_nodes(pm.node):
            if not (isinstance(r, ast.Return) and r.value is not None):
                continue
            g = cfg.guard_exprs(cfg.node_of(r))
            if not any(pol and src(t).startswith(f"isinstance({param},") and "RememberAdd" in src(t) for t, pol in g):
                continue
            v = r.value
            diff = isinstance(v, ast.BinOp) and isinstance(v.op, ast.Sub) and all(isinstance(x, ast.Call) and callee_name(x) == "cdf" for x in (v.left, v.right))
            sup = isinstance(v, ast.Call) and callee_name(v) == "prob_mw" and isinstance(v.func, ast.Attribute) and isinstance(v.func.value, ast.Call) and callee_name(v.func.value) == "super" \
                and len(v.args) == 1 and src(v.args[0]) == param
            res.ob(rule, pm, f"{ci.name}:interval-only-by-cdf@{'diff' if diff else 'super' if sup else 'other'}",
                   "an interval argument is answered only by the difference of the family's cdf (or by the base class)", r, diff or sup, f"returns {src(v)[:100]}")
    # RememberAdd.__iadd__
    ra = eng.prog.cls("RememberAdd")
    ia = ra.method("__iadd__")
    if ia is None:
        raise AnalysisError("RememberAdd.__iadd__ not found")
    res.unit(ia)
    flow = eng.flow(ia)
    cfg = flow.cfg
    prev = [s for s in own_nodes(ia.node) if isinstance(s, ast.Assign) and isinstance(s.targets[0], ast.Attribute) and s.targets[0].attr == "_previous"]
    add = [s for s in own_nodes(ia.node) if isinstance(s, ast.AugAssign) and isinstance(s.target, ast.Attribute) and s.target.attr == "_value" and isinstance(s.op, ast.Add)]
    ok = len(prev) == 1 and len(add) == 1
    why = f"{len(prev)} store(s) of previous, {len(add)} addition(s)"
    if ok:
        v = prev[0].value
        if isinstance(v, ast.Name):
            defs = flow.reaching(v.id, cfg.node_of(prev[0]))
            ok = len(defs) == 1 and src(defs[0].value) == "self._value" and cfg.must_pass(defs[0].nid, cfg.node_of(add[0])) and defs[0].nid not in cfg.reachable([cfg.node_of(add[0])])
            why = "previous receives the value read before the addition" if ok else "the value stored as previous is read after (or independently of) the addition"
        elif src(v) == "self._value":
            ok = cfg.node_of(add[0]) in cfg.reachable([cfg.node_of(prev[0])]) and cfg.node_of(prev[0]) not in cfg.reachable([cfg.node_of(add[0])])
            why = "previous stored before the addition" if ok else "previous is updated after the addition (interval collapses to zero width)"
        else:
            ok, why = False, f"previous = {src(v)}"
        val = add[0].value
        ok = ok and isinstance(val, ast.Name) and val.id == ia.params[1]
    res.ob(rule, ia, "previous-before-add", "`previous` receives the value held before the addition; the argument is added once", ia.node, ok, why)
    rets = [r for r in own_nodes(ia.node) if isinstance(r, ast.Return)]
    res.ob(rule, ia, "returns-self", "in-place addition returns the accumulator itself", ia.node, bool(rets) and all(src(r.value) == "self" for r in rets))
    # accessors
    for nm, at in (("value", "_value"), ("previous", "_previous")):
        f = ra.method(nm)
        ok = f is not None and [src(r.value) for r in own_nodes(f.node) if isinstance(r, ast.Return)] == [f"self.{at}"]
        res.ob(rule, f or ia, f"accessor:{nm}", f"`{nm}` reads {at}", (f or ia).node, ok)
    init = ra.method("__init__")
    st = {s.targets[0].attr: src(s.value) for s in own_nodes(init.node) if isinstance(s, ast.Assign) and isinstance(s.targets[0], ast.Attribute)}
    res.ob(rule, init, "initial-previous", "a fresh accumulator has previous = 0 (mass before the first unit)", init.node, st.get("_previous") in ("0.0", "0") and st.get("_value") == init.params[1], f"{st}")
    return n


LAWS = {
    # class of the scipy generator -> hook -> (parameter names in order, documented formula)
    "flory_schulz_gen": {"_pmf": (["k", "a"], "a**2 * k * (1 - a)**(k - 1)")},
    "schulz_zimm_gen": {"_pmf": (["M", "z", "Mn"], "z**(z + 1) / gamma(z + 1) * M**(z - 1) / Mn**z * exp(-z * M / Mn)")},
    "log_normal_gen": {
        "_pdf": (["m", "M", "D"], "1 / (m * sqrt(2 * pi * log(D))) * exp(-((log(m / M) + log(D) / 2)**2) / (2 * log(D)))"),
        "_get_support": (["M", "D"], "(0, inf)"),
        # derived from the density: log(m / M) + log(D) / 2 is normal with variance log(D)
        "_cdf": (["m", "M", "D"], "ndtr((log(m / M) + log(D) / 2) / sqrt(log(D)))"),
        "_ppf": (["q", "M", "D"], "M * exp(sqrt(log(D)) * ndtri(q) - log(D) / 2)"),
    },
}
REQUIRED_HOOKS = {"flory_schulz_gen": {"_pmf"}, "schulz_zimm_gen": {"_pmf"}, "log_normal_gen": {"_pdf", "_get_support"}}


def law_formulas(eng, res, rule="R-LAW-FORMULA"):
    """The hand-written laws are the documented formulas (compared modulo associativity / commutativity)."""
    from ..acnorm import canon, parse, show as ashow

    n = 0
    for gname, hooks in LAWS.items():
        ci = eng.prog.classes.get(gname)
        if ci is None:
            raise AnalysisError(f"law class {gname} not found")
        defined = {m for m in ci.methods if m.startswith("_") and not m.startswith("__")}
        miss = REQUIRED_HOOKS[gname] - defined
        res.ob(rule, ci.qualname, f"{gname}:hooks-present", f"{gname} defines its law through {sorted(REQUIRED_HOOKS[gname])}", f"{ci.module.relpath}:{ci.node.lineno}", not miss, f"missing {sorted(miss)}")
        unknown = defined - set(hooks)
        if unknown:
            raise AnalysisError(f"{gname} defines the additional law hook(s) {sorted(unknown)}: their agreement with the density is outside what this analysis decides")
        for h in sorted(defined):
            f = ci.method(h)
            pnames, formula = hooks[h]
            n += 1
            res.unit(f)
            params = f.params[1:]
            if len(params) != len(pnames):
                res.ob(rule, f, f"{gname}:{h}", f"{h} has the documented parameters {pnames}", f.node, False, f"parameters {params}")
                continue
            names = {p: f"p{i}" for i, p in enumerate(params)}
            exp_names = {p: f"p{i}" for i, p in enumerate(pnames)}
            # inline straight-line local assignments
            env = {}
            ret = None
            ok_shape = True
            for st in f.node.body:
                if isinstance(st, ast.Expr) and isinstance(st.value, ast.Constant):
                    continue
                if isinstance(st, ast.Assign) and len(st.targets) == 1 and isinstance(st.targets[0], ast.Name):
                    env[st.targets[0].id] = st.value
                elif isinstance(st, ast.Return) and st.value is not None:
                    ret = st.value
                else:
                    ok_shape = False
            if not ok_shape or ret is None:
                raise AnalysisError(f"{f.qualname}: body is not straight-line assignments followed by a return")
            try:
                got = canon(ret, names, env)
                want = parse(formula, exp_names)
            except AnalysisError as exc:
                res.ob(rule, f, f"{gname}:{h}", f"{h} is the documented formula {formula}", f.node, False, f"cannot be normalised: {exc}")
                continue
            res.ob(rule, f, f"{gname}:{h}", f"{h}({', '.join(pnames)}) = {formula}", f.node, got == want, f"code computes {ashow(got)[:200]}")
    # the scipy objects are built without altering the support (a / b) or anything but the name
    for ci in c09.families(eng):
        init = ci.method("__init__")
        for c in calls(init):
            tg = eng.resolve_call(init, c)
            if any(getattr(t, "name", "") in LAWS for t in tg):
                n += 1
                kws = sorted(k.arg or "**" for k in c.keywords)
                res.ob(rule, init, f"{ci.name}:law-object", "the law object is created with its name only: no shapes / values / increment override", c,
                       set(kws) <= {"name", "longname", "a", "b"} and not c.args, f"keywords {kws}")
                if set(kws) & {"a", "b"}:
                    # a bound on the support changes the law by the mass outside it — negligible far in the tail, ruinous close to the
                    # mean; which of the two is a numerical fact this analysis cannot decide: "cannot speak", not a violation
                    res.ob(rule, init, f"{ci.name}:law-support", "the law object keeps the support of its mass function (no bound cuts probability mass off)", c, False,
                           f"support bounds {sorted(set(kws) & {'a', 'b'})} given: the probability mass outside them is not decided statically", soft=True)
    # families without an own draw must not override it at all (their draw is the base class's rvs on the frozen object)
    for ci in c09.families(eng):
        own = ci.method("draw_mw")
        if own is None:
            continue
        rv = calls(own, "rvs")
        rets = [r for r in own_nodes(own.node) if isinstance(r, ast.Return) and r.value is not None]
        ok = len(rv) == 1 and len(rets) == 1 and rets[0].value is rv[0]
        n += 1
        res.ob(rule, own, f"{ci.name}:draw-is-sample", "a family's draw returns the sample of its law unchanged (no clamping, rounding or post-processing)", own.node, ok,
               f"returns {src(rets[0].value)[:80] if rets else None}")
    return n


INF = float("inf")


def _ival(e, env):
    """open-interval bounds (lo, hi) of an arithmetic expression over named quantities, or None when not evaluable"""
    if isinstance(e, ast.Constant) and isinstance(e.value, (int, float)) and not isinstance(e.value, bool):
        return float(e.value), float(e.value)
    if isinstance(e, ast.Name):
        return env.get(e.id)
    if isinstance(e, ast.UnaryOp) and isinstance(e.op, ast.USub):
        v = _ival(e.operand, env)
        return None if v is None else (-v[1], -v[0])
    if isinstance(e, ast.BinOp):
        a, b = _ival(e.left, env), _ival(e.right, env)
        if a is None or b is None:
            return None
        if isinstance(e.op, ast.Add):
            return a[0] + b[0], a[1] + b[1]
        if isinstance(e.op, ast.Sub):
            return a[0] - b[1], a[1] - b[0]
        if isinstance(e.op, ast.Mult):
            c = [x * y if not ((x in (INF, -INF) and y == 0) or (y in (INF, -INF) and x == 0)) else 0.0 for x in a for y in b]
            return min(c), max(c)
    return None


def law_finite(eng, res, rule="R-LAW-FINITE"):
    """A discrete law is evaluated by SciPy at every integer of its support, the lower end included.  With the support
    starting at 0 (rv_discrete's default when the law object is created without `a=`), a factor `M ** e` whose exponent
    can be negative for admissible shape parameters is 0 ** negative = inf at M = 0, a `log(M)` is -inf there, a division
    by M is a division by zero: the mass function is not finite on its support, the cumulative sums SciPy builds from it
    are inf / nan / clipped, and draws follow no law at all.  Shape parameters are taken as arbitrary positive reals
    (the constructors restrict them no further)."""
    res.doc(rule, "hand-written discrete mass functions are finite at the lower end of their support for all positive shape parameters (no 0 ** negative, log(0), x / 0 at M = 0)")
    n = 0
    for gname, hooks in LAWS.items():
        ci = eng.prog.classes.get(gname)
        if ci is None or not any(b.endswith("rv_discrete") for b in ci.base_names):
            continue
        f = ci.method("_pmf")
        if f is None:
            continue
        # lower end of the support: `a=` at the creation of the law object, else 0
        lo = 0.0
        for fam in c09.families(eng):
            init = fam.method("__init__")
            for c in calls(init):
                if any(getattr(t, "name", "") == gname for t in eng.resolve_call(init, c)):
                    for k in c.keywords:
                        if k.arg == "a" and isinstance(k.value, ast.Constant) and isinstance(k.value.value, (int, float)):
                            lo = float(k.value.value)
                        elif k.arg == "a":
                            lo = None
        res.unit(f)
        params = f.params[1:]
        if not params:
            continue
        sv = params[0]
        env = {p_: (0.0, INF) for p_ in params[1:]}  # positive shape parameters
        env[sv] = (lo if lo is not None else 0.0, INF)
        # straight-line local definitions are substituted (names defined once)
        defs = {}
        for st in ast.walk(f.node):
            if isinstance(st, ast.Assign) and len(st.targets) == 1 and isinstance(st.targets[0], ast.Name):
                defs.setdefault(st.targets[0].id, []).append(st.value)

        def is_support(e):
            return isinstance(e, ast.Name) and e.id == sv

        def may_be_zero(e):
            """the expression is the support variable itself (possibly scaled): zero exactly at the lower end 0"""
            if is_support(e):
                return env[sv][0] <= 0.0
            if isinstance(e, ast.BinOp) and isinstance(e.op, (ast.Mult, ast.Div)):
                return may_be_zero(e.left) or (isinstance(e.op, ast.Mult) and may_be_zero(e.right))
            return False

        bad = []
        for x in ast.walk(f.node):
            if isinstance(x, ast.BinOp) and isinstance(x.op, ast.Pow) and may_be_zero(x.left):
                iv = _ival(x.right, env)
                if iv is None:
                    raise AnalysisError(f"{f.qualname}: exponent {src(x.right)} of the support variable is outside the interval evaluator")
                if iv[0] < 0:
                    bad.append(("zero-power", x, f"`{src(x)}` is 0 ** negative = inf at {sv} = 0 whenever {src(x.right)} < 0 (exponent ranges over ({iv[0]:g}, {iv[1]:g}) for positive shape parameters)"))
            if isinstance(x, ast.Call) and callee_name(x) in ("log", "log10", "log2", "log1p") and x.args and may_be_zero(x.args[0]) and callee_name(x) != "log1p":
                bad.append(("log-at-zero", x, f"`{src(x)}` is -inf at {sv} = 0 (and 0 * -inf = nan when its factor vanishes)"))
            if isinstance(x, ast.BinOp) and isinstance(x.op, ast.Div) and may_be_zero(x.right):
                bad.append(("division-at-zero", x, f"`{src(x)[:60]}` divides by {sv} = 0"))
        n += 1
        roles = sorted({b[0] for b in bad}) or ["finite"]
        for role in roles:
            mine = [b for b in bad if b[0] == role]
            res.ob(rule, f, role if mine else "finite-on-support", f"{gname}._pmf is finite at the lower end of its support ({sv} = {lo if lo is not None else '?'}) for every positive shape parameter",
                   mine[0][1] if mine else f.node, not mine, "; ".join(m[2] for m in mine[:2]))
    return n


def check(eng, res):
    res.doc("R-LAW-FORMULA", "hand-written mass / density functions equal the documented formulas (AC normal form); law objects built with their name only; draws returned unchanged")
    res.doc("R-DRAW-PARAMS", "sibling agreement: rvs, both cdf calls and pmf/pdf receive identical shape parameters on the same object")
    res.doc("R-INTERVAL", "interval argument: cdf(value) − cdf(previous); RememberAdd.__iadd__ stores the value read before the addition")
    res.doc("R-UNKNOWN-REJECT", "unknown distribution names cannot fall through to a default")
    res.doc("R-DIST-TABLE", "text form: keyword agreement writer/reader/dispatch")
    res.doc("R-DIST-PARAM-ORDER", "text form: parameter order agreement")
    res.doc("R-PARAM-ROLE", "parameters reach the sampler in their documented roles")
    n = draw_params(eng, res)
    res.floor("R-DRAW-PARAMS", n, 3)
    n = interval(eng, res)
    res.floor("R-INTERVAL", n, 4)
    from . import c10 as _c10

    res.doc("R-NO-SHARED-MUTABLE", "each distribution object owns the law object it configures: nothing bound once per class is re-configured through an instance")
    _c10.shared_mutable(eng, res)
    _c10.shared_class_object(eng, res, only_classes=["Distribution", "rv_discrete", "rv_continuous"])
    nf = law_finite(eng, res)
    res.floor("R-LAW-FINITE", nf, 2)
    n = law_formulas(eng, res)
    res.floor("R-LAW-FORMULA", n, 7)
    c15.unknown_reject(eng, res)
    n = c09.dist_table(eng, res)
    res.floor("R-DIST-TABLE", n, 6)
    n = c09.param_order(eng, res)
    res.floor("R-DIST-PARAM-ORDER", n, 6)
    c09.param_role(eng, res)
    c09.base_draw(eng, res)
    roles = c15.dist_startswith_roles(eng)
    c15.check_roles(eng, res, roles)
    res.assumptions += ["SciPy implements rvs / cdf / pmf of one law for given parameters"]
    res.not_decided += [
        "normalisation, non-negativity, draws lying in the support, documented means (numerical facts about SciPy on runtime values)",
        "the quantiles at which SciPy's generic discrete sampler gives up (schulz_zimm 'updating stopped, endless loop')",
    ]
