"""C07 — a stochastic object stops growing at the first unit that exceeds its drawn mass."""
from __future__ import annotations

import ast

from ..cfg import within
from ..formula import linear
from ..loader import AnalysisError, FuncInfo, norm, own_nodes, src
from ..util import callee_name, calls, with_nested

LEVEL = "other"
ATTACH = "mol_gen.MolGen.attach_other"
MASS_FUNCS = {"HeavyAtomMolWt"}


class NoGrowthLoop(Exception):
    pass


def growth_or_violation(eng, res):
    """Growth(eng), or None after recording the violation 'no growth loop'."""
    try:
        return Growth(eng)
    except NoGrowthLoop as exc:
        gen = eng.prog.func("stochastic.Stochastic.generate")
        res.unit(gen)
        res.ob("R-DO-WHILE", gen, "growth-loop-present", "a stochastic object grows in a loop that adds one unit at a time and compares the added mass with the drawn target",
               gen.node, False, str(exc))
        return None


class Growth:
    """Locates the growth machinery inside Stochastic.generate by role."""

    def __init__(self, eng):
        self.eng = eng
        self.gen = eng.prog.func("stochastic.Stochastic.generate")
        from ..util import with_helpers

        self.funcs = with_helpers(eng, self.gen)
        g = eng.callgraph()
        # nested functions that reach attach_other
        self.reaches_attach = {f.qualname for f in self.funcs if ATTACH in eng.reachable_funcs([f.qualname])}
        self.draws = []  # (fi, call)
        for f in self.funcs:
            for c in calls(f, "draw_mw"):
                self.draws.append((f, c))
        self.loop = None
        self.fi = None
        self.step_call = None
        self.finalize_calls = []
        cands = []
        for f in self.funcs:
            for n in own_nodes(f.node):
                if isinstance(n, ast.While):
                    # body calls a nested step that reaches attach_other, and some exit test reads a mass
                    steps = []
                    for c in (x for x in own_nodes(n) if isinstance(x, ast.Call)):
                        for t in eng.repo_callees(f, c):
                            if t.qualname in self.reaches_attach and t.parent is not None:
                                steps.append((c, t))
                    has_mass = any(callee_name(c) in MASS_FUNCS for c in ast.walk(n) if isinstance(c, ast.Call))
                    has_mass = has_mass or any(
                        isinstance(x, ast.Name) and self._name_is_mass(f, x) for x in ast.walk(n.test)
                    )
                    if steps and has_mass:
                        cands.append((f, n, steps))
        if len(cands) == 0:
            raise NoGrowthLoop("no loop in Stochastic.generate both adds units (calls a step that attaches a fragment) and reads a heavy-atom mass")
        if len(cands) != 1:
            raise AnalysisError(f"growth loop of Stochastic.generate not identified by role ({len(cands)} candidates)")
        self.fi, self.loop, steps = cands[0]
        self.flow = eng.flow(self.fi)
        self.cfg = self.flow.cfg
        # the growth step: the step callee that itself picks descriptors (calls attach_other directly) and is not the finaliser
        direct = []
        for c, t in steps:
            cg = eng.callgraph().get(t.qualname, set())
            if ATTACH in cg:
                direct.append((c, t))
        self.steps = steps
        self.direct = direct

    def _name_is_mass(self, f, name_node) -> bool:
        fl = self.eng.flow(f)
        try:
            t = fl.expand_ssa(name_node, fl.cfg.node_of(name_node))
        except AnalysisError:
            return False
        return any(callee_name(c) in MASS_FUNCS for c in ast.walk(t) if isinstance(c, ast.Call))

    def classify_steps(self):
        """growth step = called with the loop-carried molecule and assigned back to it;
        finaliser = called on a copy."""
        grow, fin = [], []
        for c, t in self.steps:
            a0 = c.args[0] if c.args else None
            if isinstance(a0, ast.Call) and src(a0.func) in ("copy.deepcopy", "deepcopy"):
                fin.append((c, t))
            else:
                st = _stmt(c)
                if isinstance(st, ast.Assign) and isinstance(a0, ast.Name) and any(isinstance(x, ast.Name) and x.id == a0.id for x in st.targets):
                    grow.append((c, t))
                else:
                    fin.append((c, t))
        return grow, fin


def _stmt(n):
    while n is not None and not isinstance(n, ast.stmt):
        n = getattr(n, "_parent", None)
    return n


def loop_exits(cfg, loop):
    """[(node id, kind)] of the loop's exits: breaks inside the loop and the F edge of the test."""
    out = []
    for n in own_nodes(loop):
        if isinstance(n, ast.Break):
            # belongs to this loop (not to an inner loop)
            inner = cfg.enclosing_loops(n)
            if inner and inner[0] is loop:
                out.append((cfg.node_of(n), "break", n))
    head = cfg.node_of(loop)
    if any(l == "F" for _, l in cfg.succ[head]):
        out.append((head, "test", loop))
    for n in own_nodes(loop):
        if isinstance(n, ast.Return):
            out.append((cfg.node_of(n), "return", n))
    return out


def check_growth(eng, res, G: Growth):
    fi, flow, cfg, loop = G.fi, G.flow, G.cfg, G.loop
    res.unit(G.gen)
    res.unit(fi)
    head = cfg.node_of(loop)
    grow, fin = G.classify_steps()

    # ------------------------------------------------------------------ R-ONE-DRAW
    rule = "R-ONE-DRAW"
    ok = len(G.draws) == 1
    res.ob(rule, G.gen, "single-draw-site", "exactly one call to a draw_mw method in the whole generation of a stochastic object", G.gen.node, ok,
           f"{len(G.draws)} draw_mw call site(s)")
    target_name = None
    if G.draws:
        df, dc = G.draws[0]
        same = df is fi
        dnid = eng.flow(df).cfg.node_of(dc)
        in_loop = bool(eng.flow(df).cfg.enclosing_loops(dc)) or eng.flow(df).cfg.in_loop(dnid)
        res.ob(rule, df, "draw-outside-loops", "the draw is outside every loop", dc, not in_loop, "draw_mw is executed inside a loop (one draw per unit)")
        dom = same and cfg.must_pass(dnid, head) and dnid not in cfg.reachable([head])
        res.ob(rule, df, "draw-dominates-growth", "the draw happens once before the growth loop, in the same activation", dc, dom,
               "the draw does not dominate the growth loop" if same else "the draw is in another function than the growth loop")
        a = dc.args[0] if dc.args else None
        for k in dc.keywords:
            if k.arg == "rng":
                a = k.value
        at = eng.flow(df).expand_ssa(a, dnid) if a is not None else None
        res.ob(rule, df, "draw-uses-caller-rng", "the draw receives the caller's random generator", dc, at is not None and src(at) == "rng" and "rng" in G.gen.params,
               f"argument: {src(at) if at is not None else 'missing'}")
        recv = eng.flow(df).expand_ssa(dc.func.value, dnid)
        res.ob(rule, df, "draw-own-distribution", "the draw is made from this object's own distribution", dc, src(recv) == "self.distribution", f"receiver: {src(recv)}")
        st = _stmt(dc)
        if isinstance(st, ast.Assign) and len(st.targets) == 1 and isinstance(st.targets[0], ast.Name):
            target_name = st.targets[0].id
        # not stored anywhere shared
        leaks = []
        for f in G.funcs:
            for n in own_nodes(f.node):
                if isinstance(n, (ast.Assign, ast.AugAssign)):
                    tg = n.targets if isinstance(n, ast.Assign) else [n.target]
                    for t in tg:
                        if isinstance(t, (ast.Attribute, ast.Subscript)) and target_name and any(
                            isinstance(x, ast.Name) and x.id == target_name for x in ast.walk(n.value)
                        ):
                            leaks.append(f"line {n.lineno}: {src(t)}")
                if isinstance(n, (ast.Global, ast.Nonlocal)) and target_name in n.names:
                    leaks.append(f"line {n.lineno}: global/nonlocal {target_name}")
        res.ob(rule, df, "draw-kept-local", "the drawn target is held in a local: never stored on self, a module or a cache (no sharing between objects or generations)",
               dc, target_name is not None and not leaks, "; ".join(leaks) or "draw result not assigned to a local name")

    # ------------------------------------------------------------------ R-DO-WHILE
    rule = "R-DO-WHILE"
    if len(grow) != 1:
        res.ob(rule, fi, "growth-step", "exactly one growth step call in the loop body", loop, False, f"{len(grow)} growth step call(s) identified")
        return
    step_call, step_fi = grow[0]
    res.unit(step_fi)
    step_n = cfg.node_of(step_call)
    carried = step_call.args[0].id
    exits = loop_exits(cfg, loop)
    # a flag-driven loop (`flag = True` … `while flag:` / `done = False` … `while not done:`) is entered unconditionally: the
    # first evaluation of its test is true whenever every definition of the flag that reaches the loop from outside is a
    # constant of the right truth value; its test can then only fail after a full round
    first_true = False
    t0, pol0 = loop.test, True
    while isinstance(t0, ast.UnaryOp) and isinstance(t0.op, ast.Not):
        t0, pol0 = t0.operand, not pol0
    if isinstance(t0, ast.Name) and flow.is_local(t0.id):
        outside = [d for d in flow.reaching(t0.id, head) if d.stmt is None or not within(d.stmt, loop)]
        first_true = bool(outside) and all(d.kind == "assign" and isinstance(d.value, ast.Constant) and bool(d.value.value) is pol0 for d in outside)
    f_edges = {(head, b, l) for b, l in cfg.succ[head] if l == "F"} if first_true else set()
    body_starts = [b for b, l in cfg.succ[head] if l == "T"]
    for nid, kind, node in exits:
        ok = cfg.must_pass(step_n, nid) if kind != "test" else False
        if kind == "test":
            # leaving through the while test: the test is evaluated before any step on the first round
            ok = False
            why = "the loop condition is evaluated before the first unit is added (zero units possible)"
            # unless the F edge can only be taken after a step: head reachable only... (while cond) is entered from outside first
            r = cfg.reachable([cfg.entry], avoid_nodes={step_n})
            ok = head not in r
            if not ok and first_true:
                ok = head not in cfg.reachable(body_starts, avoid_nodes={step_n})
        else:
            why = "an exit of the growth loop can be taken before any unit was added"
        res.ob(rule, fi, f"exit:{kind}:{_exit_key(flow, cfg, node)}", "the growth step dominates every exit of the growth loop (at least one unit)", node, ok, why)

    for r in own_nodes(fi.node):
        if isinstance(r, ast.Return):
            ok = cfg.must_pass(step_n, cfg.node_of(r))
            if not ok and first_true:
                ok = cfg.node_of(r) not in cfg.reachable([cfg.entry], avoid_nodes={step_n}, avoid_edges=f_edges)
            res.ob(rule, fi, f"return:{'in-loop' if cfg.enclosing_loops(r) else 'after-loop' if head in cfg.reachable([cfg.entry], avoid_nodes=set()) and cfg.must_pass(head, cfg.node_of(r)) else 'before-loop'}",
                   "no return of the growth function can be reached without a growth step (no early exit that adds zero units)", r, ok,
                   "a return is reachable before any unit was added")
    # ------------------------------------------------------------------ R-STOP-TEST / R-START-MASS / R-CAP-NOT-COUNTED
    mass_exits = []
    other_exits = []
    for nid, kind, node in exits:
        if kind == "test":
            conds = [(loop.test, False)]
        else:
            conds = []
            for gn, label in sorted(cfg.guards(nid)):
                st = cfg.nodes[gn].stmt
                if isinstance(st, ast.If) and within(st, loop):
                    conds.append((st.test, label == "T"))
        has_mass = False
        for t, pol in conds:
            tt = flow.expand_ssa(t, cfg.node_of(t))
            if any(callee_name(c) in MASS_FUNCS for c in ast.walk(tt) if isinstance(c, ast.Call)):
                has_mass = True
        (mass_exits if has_mass else other_exits).append((nid, kind, node, conds))
    rule = "R-STOP-TEST"
    ok = len(mass_exits) == 1
    res.ob(rule, fi, "single-mass-exit", "exactly one exit of the growth loop compares masses", loop, ok, f"{len(mass_exits)} mass-comparing exit(s)")
    if not mass_exits:
        return
    nid, kind, node, conds = mass_exits[0]
    mconds = []
    for t, pol in conds:
        tt = flow.expand_ssa(t, cfg.node_of(t))
        if any(callee_name(c) in MASS_FUNCS for c in ast.walk(tt) if isinstance(c, ast.Call)):
            mconds.append((t, tt, pol))
    extra = [c for c in conds if not any(c[0] is m[0] for m in mconds)]
    # negations of the other exits' own conditions are context, not extra conditions
    other_conds = {(id(c[0]), c[1]) for e in other_exits for c in e[3]}
    extra = [c for c in extra if (id(c[0]), not c[1]) not in other_conds]
    res.ob(rule, fi, "no-extra-condition", "the mass exit depends on the mass comparison alone", node, not extra and len(mconds) == 1,
           f"additional conditions: {[src(c[0])[:50] for c in extra]}")
    t, tt, pol = mconds[0]
    verdict, detail, terms = stop_law(tt, pol)
    res.ob(rule, fi, "stop-law", "stop iff M(current molecule) − M(start) − target > 0 (strict, all three terms, nothing else)", t, verdict, detail)
    if terms is None:
        return
    cur_t, start_t, target_t = terms
    # target term is the single draw
    ok = target_t is not None and callee_name(target_t) == "draw_mw"
    res.ob(rule, fi, "target-is-draw", "the target term is the drawn molecular weight", t, ok, f"target term: {src(target_t) if target_t is not None else None}")

    rule = "R-START-MASS"
    s_ok, s_why = False, f"start term {src(start_t) if start_t is not None else None}"
    if start_t is not None and isinstance(start_t, ast.Call) and start_t.args:
        base = start_t.args[0]
        # <param>.mol  (the un-grown molecule: the parameter's entry definition)
        if isinstance(base, ast.Attribute) and base.attr in ("mol", "_mol") and isinstance(base.value, ast.Name) and base.value.id in fi.params:
            s_ok = True
        # must be computed before the loop: the original expression node defining it dominates the loop
    # find the defining statement of the start mass (a local assigned before the loop)
    start_defs = []
    for n in own_nodes(fi.node):
        if isinstance(n, ast.Assign) and any(callee_name(c) in MASS_FUNCS for c in ast.walk(n.value) if isinstance(c, ast.Call)):
            if not cfg.enclosing_loops(n):
                start_defs.append(n)
    pre = [n for n in start_defs if cfg.must_pass(cfg.node_of(n), head) and cfg.node_of(n) not in cfg.reachable([head])]
    res.ob(rule, fi, "start-mass-of-incoming", "the subtracted start mass is the heavy-atom weight of the incoming (un-grown) molecule", t, s_ok, s_why)
    res.ob(rule, fi, "start-mass-before-loop", "the start mass is computed once, before the first growth step", loop, len(pre) >= 1,
           "no mass measurement dominates the loop from outside")

    rule = "R-CAP-NOT-COUNTED"
    c_ok, c_why = False, f"current term {src(cur_t) if cur_t is not None else None}"
    if cur_t is not None and isinstance(cur_t, ast.Call) and cur_t.args:
        base = cur_t.args[0]
        if isinstance(base, ast.Attribute) and base.attr in ("mol", "_mol"):
            b = base.value
            # the loop-carried variable right after the growth step: the step's own result
            if isinstance(b, ast.Call) and callee_name(b) == step_fi.name:
                c_ok = True
            elif isinstance(b, ast.Name) and "#" in b.id:
                c_why = f"the measured molecule {b.id.split('#')[0]} has several reaching definitions at the test (it may be the finalised copy)"
            else:
                c_why = f"the measured molecule is {src(b)[:60]}, not the result of the growth step"
    res.ob(rule, fi, "measured-is-unfinalised", "the measured mass is that of the loop-carried, un-finalised molecule (capping end groups not counted)", t, c_ok, c_why)
    # finaliser runs on a deep copy
    f_ok = bool(fin) and all(
        isinstance(c.args[0], ast.Call) and src(c.args[0].func) in ("copy.deepcopy", "deepcopy") and src(c.args[0].args[0]) == carried for c, _ in fin if c.args
    )
    res.ob(rule, fi, "finalise-on-copy", "finalisation is applied to a deep copy of the growing molecule", fin[0][0] if fin else loop, f_ok,
           f"finaliser arguments: {[src(c.args[0]) for c, _ in fin if c.args]}")
    # loop-carried variable only assigned from the growth step inside the loop
    bad = []
    for n in own_nodes(loop):
        if isinstance(n, ast.Assign) and any(isinstance(x, ast.Name) and x.id == carried for x in n.targets):
            if not (isinstance(n.value, ast.Call) and n.value is step_call):
                bad.append(f"line {n.lineno}: {src(n)[:60]}")
    res.ob(rule, fi, "carried-only-from-step", "the growing molecule is never replaced by the finalised one", loop, not bad, "; ".join(bad))
    # returned value: finalisation made in the last iteration, or the molecule itself on the no-descriptor exit
    rets = [n for n in own_nodes(fi.node) if isinstance(n, ast.Return) and n.value is not None]
    r_ok = bool(rets)
    r_why = ""
    for r in rets:
        defs = flow.reaching(r.value.id, cfg.node_of(r)) if isinstance(r.value, ast.Name) else []
        if not defs:
            r_ok, r_why = False, f"returns {src(r.value)}"
            continue
        for d in defs:
            v = d.value
            if isinstance(v, ast.Call) and any(v is c for c, _ in fin):
                continue
            if isinstance(v, ast.Name) and v.id == carried:
                # allowed only on an exit that does not compare masses (no open descriptor left)
                dn = d.nid
                if any(cfg.must_pass(dn, e[0]) and e[0] != nid for e in other_exits):
                    continue
                r_ok, r_why = False, "the un-finalised molecule can be returned on the mass exit"
                continue
            r_ok, r_why = False, f"returned value defined by {src(v)[:50] if v is not None else d.kind}"
    res.ob(rule, fi, "returns-finalised", "the value returned is the finalisation made in the last iteration (or the molecule itself when no descriptor is left)",
           rets[0] if rets else fi.node, r_ok, r_why)
    # other exits: exactly "no open descriptor left"
    for e_nid, e_kind, e_node, e_conds in other_exits:
        from ..lits import lits

        txts = [src(flow.expand_ssa(c, cfg.node_of(c))) for c, _ in e_conds]
        L = set()
        for c, pol in e_conds:
            L |= lits(flow.expand_ssa(c, cfg.node_of(c)), pol)
        ok = len(L) == 1 and all(l[0] not in ("num", "complex", "opaque", "const") and l[0][0] == "truthy" and l[1] is False and l[0][1].endswith("'bond_descriptors')") for l in L)
        res.ob("R-STOP-TEST", fi, f"other-exit:{e_kind}", "the only other exit is 'no open descriptor left'", e_node, ok, f"exit under {txts}")


def _exit_key(flow, cfg, node) -> str:
    if isinstance(node, ast.While):
        return "while-test"
    g = cfg.guard_exprs(cfg.node_of(node))
    if g:
        t = g[-1][0]
        names = sorted({c.func.attr if isinstance(c.func, ast.Attribute) else getattr(c.func, "id", "?") for c in ast.walk(t) if isinstance(c, ast.Call)})
        return "+".join(names) or "cond"
    return "uncond"


def stop_law(tt, pol):
    """tt: expanded test; pol True = exit taken when test true. Returns (ok, detail, (cur, start, target))."""
    neg = 0
    e = tt
    while isinstance(e, ast.UnaryOp) and isinstance(e.op, ast.Not):
        e = e.operand
        neg += 1
    if not (isinstance(e, ast.Compare) and len(e.ops) == 1):
        return False, f"stop test is not a single comparison: {src(tt)[:80]}", None
    op = type(e.ops[0])
    stop_when_true = pol if neg % 2 == 0 else not pol
    diff = ast.BinOp(left=e.left, op=ast.Sub(), right=e.comparators[0])
    lin = linear(diff)
    if lin is None:
        return False, "comparison is not linear in the masses", None
    terms, const, nodes = lin
    cur = start = target = None
    others = []
    for k, coef in terms.items():
        n = nodes[k]
        nm = callee_name(n) if isinstance(n, ast.Call) else None
        if nm in MASS_FUNCS:
            arg = n.args[0] if n.args else None
            is_param_mol = (
                isinstance(arg, ast.Attribute) and isinstance(arg.value, ast.Name) and "#" not in arg.value.id and not arg.value.id.startswith("§")
            )
            if is_param_mol and start is None and not _mentions_def(arg):
                start = (n, coef)
            else:
                if cur is None:
                    cur = (n, coef)
                else:
                    others.append(src(n))
        elif nm == "draw_mw" or (isinstance(n, ast.Call) and "draw" in (nm or "")):
            target = (n, coef)
        else:
            others.append(src(n))
    if others:
        return False, f"extra term(s) in the stop test: {others}", (cur and cur[0], start and start[0], target and target[0])
    if cur is None or target is None:
        return False, f"stop test lacks the current mass or the target: {src(tt)[:100]}", (cur and cur[0], start and start[0], target and target[0])
    if start is None:
        return False, "the start mass is not subtracted (prefix and earlier elements would count)", (cur[0], None, target[0])
    c = cur[1]
    if abs(c) < 1e-12:
        return False, "current mass cancels out", None
    sgn = 1 if c > 0 else -1
    coefs = (cur[1] / c, start[1] / c, target[1] / c)
    const_n = const / c
    # normalised relation:  cur + a*start + b*target + const  OP  0   (OP flipped when c < 0)
    flip = {ast.Gt: ast.Lt, ast.Lt: ast.Gt, ast.GtE: ast.LtE, ast.LtE: ast.GtE}
    if sgn < 0:
        op = flip.get(op, op)
    if not stop_when_true:
        op = {ast.Gt: ast.LtE, ast.LtE: ast.Gt, ast.Lt: ast.GtE, ast.GtE: ast.Lt}.get(op, op)
    detail = f"stop when 1*M(cur) {coefs[1]:+g}*M(start) {coefs[2]:+g}*target {const_n:+g} {op.__name__} 0"
    ok = coefs[1] == -1 and coefs[2] == -1 and abs(const_n) < 1e-12 and op is ast.Gt
    return ok, detail, (cur[0], start[0], target[0])


def _mentions_def(e) -> bool:
    return any(isinstance(x, ast.Name) and x.id.startswith("§") for x in ast.walk(e))


def check(eng, res):
    res.doc("R-ONE-DRAW", "one draw per stochastic object per generation: outside loops, dominating the growth loop, caller's rng, own distribution, kept local")
    res.doc("R-DO-WHILE", "the growth step dominates every exit of the growth loop")
    res.doc("R-STOP-TEST", "the mass exit is exactly M(current) − M(start) − target > 0; the only other exit is 'no open descriptor'")
    res.doc("R-START-MASS", "start mass = heavy-atom weight of the incoming molecule, measured before the loop")
    res.doc("R-CAP-NOT-COUNTED", "the measured molecule is the un-finalised loop-carried one; finalisation on a deep copy; finalised value returned")
    G = growth_or_violation(eng, res)
    if G is None:
        return
    check_growth(eng, res, G)
    from ..memo import memo_rules

    memo_rules(eng, res, only_classes=["MolGen", "Distribution"])
    res.floor("R-STOP-TEST", sum(1 for o in res.obligations if o.rule == "R-STOP-TEST"), 4)
    res.floor("R-ONE-DRAW", sum(1 for o in res.obligations if o.rule == "R-ONE-DRAW"), 6)
    from ..fresh import fresh_results

    res.doc("R-FRESH-RESULT", "A-FRESH: what a loop hands on (the finalised molecule) is assigned in the iteration that leaves the loop")
    fresh_results(eng, res, {"stochastic"})
    res.assumptions += ["rdDescriptors.HeavyAtomMolWt is the heavy-atom mass; draw_mw returns the distribution's sample (C09/C11 wiring)"]
    res.not_decided += ["the numeric masses (RDKit)", "the distribution's values"]
