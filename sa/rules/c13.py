"""C13 — ensemble generation yields complete member molecules up to the system mass (structural part)."""
from __future__ import annotations

import ast

from ..formula import linear
from ..guards import Rejections
from ..loader import AnalysisError, norm, own_nodes, src
from ..util import callee_name, calls, kwarg, strip_attr
from . import c08

LEVEL = "other"


class Pick:
    """Anatomy of one component pick (rng.choice) and what is generated from it."""

    def __init__(self, eng, fi):
        self.eng = eng
        self.fi = fi
        self.flow = eng.flow(fi)
        self.cfg = self.flow.cfg
        ch = calls(fi, "choice")
        self.choice = ch[0] if len(ch) == 1 else None
        self.n_choice = len(ch)
        self.gens = calls(fi, "generate")


def gen_guard(eng, res, fi, rule="R-GEN-GUARD"):
    P = Pick(eng, fi)
    rej = Rejections(eng, fi)
    ok, binding, detail = rej.rejects("not G", {"G": lambda t: src(t) == "self.generable"})
    why = f"no raising test of the system's own generable flag: {detail}"
    if ok and P.choice is not None:
        cfg = P.cfg
        cn = cfg.node_of(P.choice)
        # the guard's test node dominates the pick, and the pick is only reachable on the generable edge
        tests = [cfg.node_of(s.node) for s in rej.sites]
        dom = False
        for s in rej.sites:
            for t, pol in s.conds:
                if src(t) in ("not self.generable", "self.generable"):
                    tn = cfg.node_of(getattr(t, "_parent"))
                    dom = dom or cfg.must_pass(tn, cn)
        ok = dom
        why = "the generable test does not dominate the first random pick"
    elif ok and P.choice is None:
        ok = False
        why = f"{P.n_choice} component pick(s) found"
    res.ob(rule, fi, "system-generable-guard", "a test of the system's own `generable` with a raising false branch dominates the first random pick",
           fi.node, ok, why)
    return P


def _plain_range(cand):
    """range(0, len(np.asarray(v))) is range(len(v)): an explicit start 0, and an array view of a list has the list's length"""
    import copy as _copy

    if not (isinstance(cand, ast.Call) and callee_name(cand) == "range" and not cand.keywords):
        return cand
    cand = _copy.deepcopy(cand)
    if len(cand.args) == 2 and isinstance(cand.args[0], ast.Constant) and cand.args[0].value == 0:
        cand.args = cand.args[1:]
    if len(cand.args) == 1 and isinstance(cand.args[0], ast.Call) and callee_name(cand.args[0]) == "len" and len(cand.args[0].args) == 1:
        inner = cand.args[0].args[0]
        while isinstance(inner, ast.Call) and callee_name(inner) in ("asarray", "array", "list", "tuple") and len(inner.args) >= 1 and isinstance(inner.args[0], (ast.ListComp, ast.List, ast.Call, ast.Name, ast.Attribute)):
            inner = inner.args[0]
        cand.args[0].args[0] = inner
    return cand


def member(eng, res, P: Pick, produce_node, produced, rule="R-MEMBER"):
    """The produced object is generate() on self._molecules[i], i drawn over range(len(v)), v one traversal of self._molecules."""
    fi, flow, cfg = P.fi, P.flow, P.cfg
    t = flow.expand_ssa(produced, cfg.node_of(produce_node))
    ok = isinstance(t, ast.Call) and callee_name(t) == "generate"
    why = f"produced value: {src(t)[:100]}"
    idx = None
    if ok:
        recv = t.func.value
        ok = isinstance(recv, ast.Subscript) and src(recv.value) == "self._molecules"
        why = f"generated from {src(recv)[:80]}"
        if ok:
            idx = recv.slice
            ok = isinstance(idx, ast.Call) and callee_name(idx) == "choice"
            why = f"component index {src(idx)[:80]}"
    res.ob(rule, fi, "generated-from-picked-component", "the produced molecule is the result of generate() on self._molecules[i] for the drawn i", produce_node, ok, why)
    if ok:
        cand = idx.args[0] if idx.args else None
        v = None
        cand = _plain_range(cand)
        ok2 = isinstance(cand, ast.Call) and callee_name(cand) in ("range",) and cand.args and isinstance(cand.args[0], ast.Call) and callee_name(cand.args[0]) == "len"
        if ok2:
            v = cand.args[0].args[0]
            ok2 = _one_traversal_of_molecules(v) or src(v) == "self._molecules"
        res.ob(rule, fi, "index-space", "i ranges over range(len(v)), v built by one traversal of self._molecules (index-aligned with the list that is indexed)",
               produce_node, ok2, f"candidates {src(cand)[:80] if cand is not None else None}")
        r = kwarg(t, "rng")
        if r is None and len(t.args) > 1:
            r = t.args[1]
        res.ob(rule, fi, "rng-forwarded", "the caller's generator is forwarded to the component's generate", produce_node, r is not None and src(r) == "rng",
               f"rng argument {src(r) if r is not None else 'missing (library global generator would be used)'}")
        rr = idx.func.value
        res.ob(rule, fi, "pick-uses-rng", "the component pick uses the caller's generator", produce_node, src(rr) == "rng", f"receiver {src(rr)}")
    return t


def _one_traversal_of_molecules(v) -> bool:
    return isinstance(v, ast.ListComp) and len(v.generators) == 1 and src(v.generators[0].iter) == "self._molecules" and not v.generators[0].ifs


def complete_guard(eng, res, P: Pick, produce_node, produced, rule):
    fi, flow, cfg = P.fi, P.flow, P.cfg
    pn = cfg.node_of(produce_node)
    pv = produced.id if isinstance(produced, ast.Name) else None
    ok = False
    why = "no test of fully_generated guards the produced molecule"
    for gn, label in cfg.guards(pn):
        st = cfg.nodes[gn].stmt
        if isinstance(st, ast.If):
            tst = st.test
            neg = isinstance(tst, ast.UnaryOp) and isinstance(tst.op, ast.Not)
            core = tst.operand if neg else tst
            if isinstance(core, ast.Attribute) and core.attr == "fully_generated" and isinstance(core.value, ast.Name) and core.value.id == pv:
                good_label = "F" if neg else "T"
                bad_label = "T" if neg else "F"
                if label == good_label and cfg.branch_raises(gn, bad_label):
                    # same definition of the variable at the test and at the production
                    if {id(d) for d in flow.reaching(pv, gn)} == {id(d) for d in flow.reaching(pv, pn)}:
                        ok = True
                    else:
                        why = "the tested molecule is not the produced one (re-assigned in between)"
    res.ob(rule, fi, "complete-before-produce", "a test of the produced molecule's fully_generated, raising otherwise, dominates its production", produce_node, ok, why)


def _func_of(n):
    p = getattr(n, "_parent", None)
    while p is not None and not isinstance(p, (ast.FunctionDef, ast.AsyncFunctionDef, ast.Lambda)):
        p = getattr(p, "_parent", None)
    return p


def accum(eng, res, P: Pick, rule="R-ACCUM"):
    fi, flow, cfg = P.fi, P.flow, P.cfg
    loops = [n for n in own_nodes(fi.node) if isinstance(n, ast.While)]
    ys = [n for n in own_nodes(fi.node) if isinstance(n, (ast.Yield, ast.YieldFrom))]
    if len(loops) != 1 or len(ys) != 1:
        res.ob(rule, fi, "ensemble-loop", "one ensemble loop with one yield", fi.node, False, f"{len(loops)} while loop(s), {len(ys)} yield(s)")
        return None, None
    lp, y = loops[0], ys[0]
    hn = cfg.node_of(lp)
    # loop test: continue iff acc - system_mass < 0
    e = lp.test
    neg = 0
    while isinstance(e, ast.UnaryOp) and isinstance(e.op, ast.Not):
        e = e.operand
        neg += 1
    ok, why = False, f"loop test {src(lp.test)}"
    acc = None
    if isinstance(e, ast.Compare) and len(e.ops) == 1:
        lin = linear(ast.BinOp(left=e.left, op=ast.Sub(), right=e.comparators[0]))
        if lin is not None:
            terms, const, nodes = lin
            sysm = [k for k, n in nodes.items() if src(n) in ("self.system_mass",)]
            accs = [k for k, n in nodes.items() if isinstance(n, ast.Name)]
            if len(terms) == 2 and len(sysm) == 1 and len(accs) == 1 and abs(const) < 1e-12:
                ca, cs = terms[accs[0]], terms[sysm[0]]
                op = type(e.ops[0])
                if ca < 0:
                    op = {ast.Lt: ast.Gt, ast.Gt: ast.Lt, ast.LtE: ast.GtE, ast.GtE: ast.LtE}.get(op, op)
                if neg % 2:
                    op = {ast.Lt: ast.GtE, ast.GtE: ast.Lt, ast.Gt: ast.LtE, ast.LtE: ast.Gt}.get(op, op)
                ok = abs(ca + cs) < 1e-12 and op is ast.Lt
                acc = nodes[accs[0]].id
                why = f"continue while {abs(ca):g}*{acc} − {abs(cs):g}*self.system_mass {op.__name__} 0"
    res.ob(rule, fi, "loop-law", "the loop continues iff accumulated − system_mass < 0 (stops at the first molecule that reaches the system mass)", lp, ok, why)
    if acc is None:
        return lp, y
    # accumulator initialised to zero before the loop
    init = [d for d in flow.reaching(acc, hn) if d.nid not in cfg.reachable([hn]) or d.kind == "assign"]
    init = [d for d in flow.defs if d.name == acc and d.kind == "assign"]
    ok = len(init) == 1 and isinstance(init[0].value, ast.Constant) and init[0].value.value == 0 and not cfg.enclosing_loops(init[0].stmt)
    res.ob(rule, fi, "accumulator-starts-at-zero", "the accumulator starts at 0 before the loop", lp, ok, f"initialisations: {[src(d.stmt) for d in init]}")
    augs = [d for d in flow.defs if d.name == acc and d.kind == "aug"]
    yv = y.value if isinstance(y, ast.Yield) else None
    yn = cfg.node_of(y)
    ok = len(augs) == 1
    why = f"{len(augs)} accumulation statement(s)"
    if ok:
        a = augs[0]
        in_loop = lp in cfg.enclosing_loops(a.stmt)
        av = a.value
        if isinstance(av, ast.Name) and flow.is_local(av.id):
            # a temporary holding the weight (`m = x.weight; acc += m`): follow its single definition
            ds = [d for d in flow.reaching(av.id, a.nid)]
            if len(ds) == 1 and ds[0].kind == "assign" and ds[0].value is not None:
                av = ds[0].value
        w = strip_attr(av, "weight")
        same = w is not None and isinstance(yv, ast.Name) and isinstance(w, ast.Name) and w.id == yv.id and {id(d) for d in flow.reaching(w.id, a.nid)} == {id(d) for d in flow.reaching(yv.id, yn)}
        every = cfg.must_pass(a.nid, yn)
        # once per iteration: from the aug, the aug is not reachable again without passing the loop head
        starts = [d for d, _ in cfg.succ[a.nid]]
        once = a.nid not in cfg.reachable(starts, avoid_nodes={hn})
        ok = in_loop and isinstance(a.extra, ast.Add) and same and every and once
        why = f"in-loop={in_loop} adds-weight-of-yielded={bool(same)} on-every-path-to-yield={every} once-per-iteration={once}"
    res.ob(rule, fi, "single-accumulation", "the accumulator grows exactly once per iteration, by the weight of the molecule yielded in that iteration, on every path to the yield",
           augs[0].stmt if augs else lp, ok, why)
    # the loop is left only through its test, and whatever was generated and accumulated is yielded
    early = [n for n in ast.walk(lp) if isinstance(n, (ast.Break, ast.Return)) and fi.node is _func_of(n)]
    res.ob(rule, fi, "only-exit-is-the-test", "the ensemble loop is left only through its test (no break / return drops or cuts the sequence)", early[0] if early else lp, not early,
           f"{len(early)} break/return statement(s) inside the loop")
    if augs:
        r = cfg.reachable([d for d, lab in cfg.succ[augs[0].nid] if lab != "exc"], avoid_nodes={yn})
        ok = hn not in r and cfg.exit not in r and yn not in {d for d, lab in cfg.succ[augs[0].nid] if False}
        res.ob(rule, fi, "accumulated-is-yielded", "a molecule whose weight was accumulated is yielded before the next test (none is dropped)", augs[0].stmt, ok,
               "a path from the accumulation reaches the loop test / the end without the yield")
    # yielded value defined in this iteration
    if isinstance(yv, ast.Name):
        defs = flow.reaching(yv.id, yn)
        ok = len(defs) == 1 and lp in cfg.enclosing_loops(defs[0].stmt)
        res.ob(rule, fi, "yield-fresh", "the yielded value is the molecule generated in this iteration", y, ok, f"{len(defs)} reaching definition(s)")
    return lp, y


def check(eng, res):
    res.doc("R-GEN-GUARD", "generator and generate each test the system's own generable (raising) before the first random pick")
    res.doc("R-ACCUM", "loop law acc − system_mass < 0; single accumulation of the yielded molecule's weight; completeness guard before the yield")
    res.doc("R-MEMBER", "produced molecule = generate() on self._molecules[i], i over range(len(one traversal of self._molecules)); rng forwarded")
    gen = eng.prog.func("system.System.generator")
    one = eng.prog.func("system.System.generate")
    res.unit(gen)
    res.unit(one)
    from ..memo import memo_rules

    memo_rules(eng, res, only_classes=["MolGen", "System"], only_modules=["system"])
    Pg = gen_guard(eng, res, gen)
    Po = gen_guard(eng, res, one)
    lp, y = accum(eng, res, Pg)
    if y is not None and isinstance(y, ast.Yield) and y.value is not None:
        member(eng, res, Pg, y, y.value)
        complete_guard(eng, res, Pg, y, y.value, "R-ACCUM")
    rets = [r for r in own_nodes(one.node) if isinstance(r, ast.Return) and r.value is not None]
    ok = len(rets) >= 1
    res.ob("R-MEMBER", one, "single-return", "single generation returns a molecule", one.node, ok, f"{len(rets)} return(s)")
    for r in rets:
        member(eng, res, Po, r, r.value)
        complete_guard(eng, res, Po, r, r.value, "R-MEMBER")
    # a component instance is the molecule with *all* its elements generated (shared with C06)
    from . import c06

    sub = type(res)(res.prop)
    c06.elem_order(eng, sub)
    for o in sub.obligations:
        o.rule = "R-MEMBER"
        res.obligations.append(o)
    # system_mass accessor: value of the components' system mass, refusing a non-generable system
    sm = eng.prog.cls("System").method("system_mass")
    if sm is not None:
        res.unit(sm)
        rej = Rejections(eng, sm)
        ok, _, detail = rej.rejects("not G", {"G": lambda t: src(t) == "self.generable"})
        res.ob("R-GEN-GUARD", sm, "system-mass-guard", "the system mass accessor refuses a non-generable system", sm.node, ok, detail)
        fl = eng.flow(sm)
        rets = [r for r in own_nodes(sm.node) if isinstance(r, ast.Return) and r.value is not None]
        t = [src(fl.expand_ssa(r.value, fl.cfg.node_of(r))) for r in rets]
        res.ob("R-ACCUM", sm, "system-mass-source", "the system mass is the system mass recorded on the components' mixtures", sm.node,
               bool(t) and all(x == "self._molecules[0].mixture.system_mass" for x in t), f"returns {t}")
    res.floor("R-GEN-GUARD", 3, 3)
    # the accumulated quantity is the heavy-atom mass, and fully_generated means "no open descriptor" (shared C05 / C06)
    from . import c05, c06

    sub = type(res)(res.prop)
    c05.accessors(eng, sub)
    c06.fully(eng, sub)
    for o in sub.obligations:
        if o.role in ("weight-own-heavy-atoms", "meaning") or o.role.startswith("stored-"):
            res.obligations.append(o)
    # what "generable" means for a system and its components (shared with C15): refusing relies on it
    from . import c15

    sub = type(res)(res.prop)
    c15.generable_conj(eng, sub)
    for o in sub.obligations:
        if o.function.startswith(("system.", "molecule.")):
            res.obligations.append(o)
    res.doc("R-GENERABLE-CONJ", "System / Molecule generable is the conjunction over children and the mass estimate (shared with C15)")
    res.doc("R-ACCESSORS", "MolGen.weight is the heavy-atom weight of the object's own molecule (shared with C05)")
    res.doc("R-FULLY", "fully_generated == no open descriptor (shared with C06)")
    res.assumptions += ["MolGen.weight is the heavy-atom mass of the generated molecule (C05 R-ACCESSORS)", "Python generator semantics: code after `yield` resumes on the next request"]
    res.not_decided += ["runtime membership of a molecule in a component's ensemble", "actual masses"]
