"""C09 — block sizes follow the declared distribution: declaration -> sampler wiring only.
Hosts the distribution rules shared with C01 and C11."""
from __future__ import annotations

import ast

from ..formula import rebuild
from ..loader import AnalysisError, ClassInfo, FuncInfo, norm, own_nodes, src
from ..util import callee_name, calls, kwarg
from . import c07, c15

LEVEL = "other"
FAMILIES = ["FlorySchulz", "SchulzZimm", "Gauss", "Uniform", "LogNormal", "Poisson"]
DOCUMENTED = {  # README / docstrings: name(parameters)
    "gauss": ("Gauss", 2), "uniform": ("Uniform", 2), "schulz_zimm": ("SchulzZimm", 2), "log_normal": ("LogNormal", 2),
    "poisson": ("Poisson", 1), "flory_schulz": ("FlorySchulz", 1),
}
SCIPY_SIG = {"norm": ["loc", "scale"], "uniform": ["loc", "scale"], "poisson": ["mu", "loc"]}


def families(eng):
    out = []
    for c in eng.prog.subclasses("Distribution", strict=True):
        out.append(c)
    return out


# ---------------------------------------------------------------------- reader facts


def dispatch_table(eng):
    """Ordered [(literal, class name)] of get_distribution's name tests."""
    fi = eng.prog.func("distribution.get_distribution")
    table = []
    param = fi.params[0]
    cfg_ = eng.flow(fi).cfg
    for st in fi.node.body:
        if isinstance(st, ast.Assign) and len(st.targets) == 1 and isinstance(st.targets[0], ast.Name) and isinstance(st.value, (ast.Compare, ast.BoolOp)):
            continue  # a hoisted condition: seen through by test_of below
        if isinstance(st, ast.If):
            t = cfg_.test_of(st)
            if (
                isinstance(t, ast.Compare) and len(t.ops) == 1 and isinstance(t.ops[0], ast.In)
                and isinstance(t.left, ast.Constant) and isinstance(t.left.value, str)
                and isinstance(t.comparators[0], ast.Name) and t.comparators[0].id == param
            ):
                ret = [s for s in st.body if isinstance(s, ast.Return)]
                if len(ret) == 1 and isinstance(ret[0].value, ast.Call):
                    tg = eng.resolve_call(fi, ret[0].value)
                    cls = [x.name for x in tg if isinstance(x, ClassInfo)]
                    arg_ok = len(ret[0].value.args) == 1 and src(ret[0].value.args[0]) == param
                    table.append((t.left.value, cls[0] if cls else None, arg_ok, st))
                    continue
            table.append((None, None, False, st))
        elif isinstance(st, ast.Expr) and isinstance(st.value, ast.Constant):
            continue
        elif isinstance(st, ast.Raise):
            continue
        else:
            table.append((None, None, False, st))
    return fi, table


def ctor_positions(eng, ci: ClassInfo):
    """Symbolic evaluation of the constructor's straight-line assignments.

    Returns (env, order, cut, init): env maps attribute names ('_mu') and local names to their
    value term over pos0, pos1 *including* numeric wrappers (float(pos0)); order lists the attributes
    in the order of the text positions they are filled from; cut is the keyword literal removed
    before the parameters."""
    init = ci.method("__init__")
    if init is None:
        raise AnalysisError(f"{ci.name}.__init__ not found")
    env = {}
    cut = None

    def key(t):
        if _self_attr(t):
            return t.attr
        if isinstance(t, ast.Name):
            return "local:" + t.id
        return None

    for st in own_nodes(init.node):
        if not isinstance(st, ast.Assign) or len(st.targets) != 1:
            continue
        tgt, val = st.targets[0], st.value
        if isinstance(tgt, ast.Tuple) and isinstance(val, ast.Call) and callee_name(val) in ("make_tuple", "literal_eval"):
            cut = _cut_literal(val.args[0]) or cut
            for i, t in enumerate(tgt.elts):
                k = key(t)
                if k:
                    env[k] = ast.Name(id=f"pos{i}", ctx=ast.Load())
            continue
        if isinstance(tgt, ast.Tuple) and isinstance(val, ast.Tuple) and len(tgt.elts) == len(val.elts):
            new = {}
            for t, v in zip(tgt.elts, val.elts):
                kk = key(t)
                if kk:
                    new[kk] = subst(v, env)
            env.update(new)
            continue
        k = key(tgt)
        if k is None or k in ("_distribution", "_raw_text"):
            continue
        has_text = any(callee_name(c) in ("make_tuple", "literal_eval") for c in ast.walk(val) if isinstance(c, ast.Call)) or any(
            isinstance(x, ast.Subscript) and "_raw_text" in src(x) for x in ast.walk(val))
        if has_text:
            cut = _cut_literal(val) or cut

            def fn(n):
                if isinstance(n, ast.Call) and callee_name(n) in ("make_tuple", "literal_eval"):
                    return ast.Name(id="pos0", ctx=ast.Load())
                if isinstance(n, ast.Subscript) and "_raw_text" in src(n):
                    return ast.Name(id="pos0", ctx=ast.Load())
                return None

            env[k] = rebuild(val, fn)
            continue
        env[k] = subst(val, env)
    order = []
    for k, v in env.items():
        if not k.startswith("local:"):
            core = _strip_num(v)
            if isinstance(core, ast.Name) and core.id.startswith("pos"):
                order.append((int(core.id[3:]), k))
    order = [k for _, k in sorted(order)]
    return env, order, cut, init


def _cut_literal(e):
    """text[len("kw"):] / text[len("kw")+1:-1] -> "kw" """
    for n in ast.walk(e):
        if isinstance(n, ast.Call) and callee_name(n) == "len" and n.args and isinstance(n.args[0], ast.Constant) and isinstance(n.args[0].value, str):
            return n.args[0].value
    return None


def _self_attr(t) -> bool:
    return isinstance(t, ast.Attribute) and isinstance(t.value, ast.Name) and t.value.id == "self"


def _strip_num(e):
    while isinstance(e, ast.Call) and callee_name(e) in ("float", "int") and len(e.args) == 1:
        e = e.args[0]
    return e


def subst(e, env):
    """Replace known attributes / locals by their value terms (wrappers kept)."""

    def fn(n):
        if _self_attr(n) and n.attr in env:
            return env[n.attr]
        if isinstance(n, ast.Name) and ("local:" + n.id) in env:
            return env["local:" + n.id]
        return None

    return rebuild(e, fn)


def printer_holes(eng, ci: ClassInfo):
    """(keyword, [attr...]) printed by generate_string(True)."""
    gs = ci.method("generate_string")
    if gs is None:
        raise AnalysisError(f"{ci.name}.generate_string not found")
    for n in own_nodes(gs.node):
        if isinstance(n, ast.JoinedStr) and n.values and isinstance(n.values[0], ast.Constant) and str(n.values[0].value).startswith("|"):
            kw = str(n.values[0].value)[1:].split("(")[0]
            holes = []
            for v in n.values:
                if isinstance(v, ast.FormattedValue):
                    if isinstance(v.value, ast.Tuple):
                        holes += [e.attr if _self_attr(e) else src(e) for e in v.value.elts]
                    else:
                        holes.append(v.value.attr if _self_attr(v.value) else src(v.value))
            return kw, holes, gs
    raise AnalysisError(f"{ci.name}.generate_string: no extension template found")


# ---------------------------------------------------------------------- rules


def dist_table(eng, res, rule="R-DIST-TABLE"):
    fi, table = dispatch_table(eng)
    res.unit(fi)
    shape_ok = all(l is not None and c is not None and a for l, c, a, _ in table)
    res.ob(rule, fi, "dispatch-shape", "get_distribution is an ordered table of name tests, each returning one family built from the same text", fi.node, shape_ok,
           f"{[(l, c) for l, c, _, _ in table]}")
    n = 0
    for ci in families(eng):
        n += 1
        kw, holes, gs = printer_holes(eng, ci)
        env, order, cut, init = ctor_positions(eng, ci)
        res.unit(gs)
        res.unit(init)
        # startswith guard literal (decided in C15 roles) and slice literal
        sw = None
        for c in calls(init, "startswith"):
            if c.args and isinstance(c.args[0], ast.Constant):
                sw = c.args[0].value
        res.ob(rule, ci.qualname, f"{ci.name}:writer-reader-keyword", "printed keyword == constructor's startswith literal == literal cut off before the parameters",
               f"{ci.module.relpath}:{ci.node.lineno}", kw == sw == cut, f"printed '{kw}', startswith '{sw}', cut '{cut}'")
        # first dispatch test satisfied by the printed text returns this class
        printed = f"{kw}("
        first = None
        for lit, cls, _, _ in table:
            if lit is not None and lit in printed:
                first = cls
                break
        res.ob(rule, ci.qualname, f"{ci.name}:dispatch", f"the first name test that the printed keyword '{kw}' satisfies returns {ci.name}",
               f"{ci.module.relpath}:{ci.node.lineno}", first == ci.name, f"dispatches to {first}")
        doc = DOCUMENTED.get(kw)
        res.ob(rule, ci.qualname, f"{ci.name}:documented-name", "the keyword is the documented name of this family", f"{ci.module.relpath}:{ci.node.lineno}",
               doc is not None and doc[0] == ci.name, f"'{kw}' documented for {doc[0] if doc else None}")
    return n


def _int_of(e):
    """integer value of a slice bound built from len(<literal>), integer constants, + and unary -; None for no bound."""
    if e is None:
        return None
    if isinstance(e, ast.Constant) and isinstance(e.value, int) and not isinstance(e.value, bool):
        return e.value
    if isinstance(e, ast.UnaryOp) and isinstance(e.op, ast.USub):
        v = _int_of(e.operand)
        return -v if isinstance(v, int) else "?"
    if isinstance(e, ast.Call) and callee_name(e) == "len" and len(e.args) == 1 and isinstance(e.args[0], ast.Constant) and isinstance(e.args[0].value, str):
        return len(e.args[0].value)
    if isinstance(e, ast.BinOp) and isinstance(e.op, (ast.Add, ast.Sub)):
        a, b = _int_of(e.left), _int_of(e.right)
        if isinstance(a, int) and isinstance(b, int):
            return a + b if isinstance(e.op, ast.Add) else a - b
    return "?"


def param_order(eng, res, rule="R-DIST-PARAM-ORDER"):
    n = 0
    for ci in families(eng):
        kw, holes, gs = printer_holes(eng, ci)
        env, order, cut, init = ctor_positions(eng, ci)
        n += 1
        doc = DOCUMENTED.get(kw, (None, None))
        ok = holes == order and len(order) == (doc[1] or len(order))
        res.ob(rule, ci.qualname, f"{ci.name}:positions", "attributes filled from text positions 0,1,… are printed in the same order (text form reproduces the parameters)",
               f"{ci.module.relpath}:{gs.node.lineno}", ok, f"constructor fills {order}, printer emits {holes}")
        # the window of the text handed to the reader: everything after the keyword for the tuple reader ("(a, b)"),
        # the keyword's parentheses stripped for a direct float()
        single = {}
        for st_ in own_nodes(init.node):
            if isinstance(st_, ast.Assign) and len(st_.targets) == 1 and isinstance(st_.targets[0], ast.Name):
                single.setdefault(st_.targets[0].id, []).append(st_.value)

        def _bound(e):
            # a bound held in a single-assignment temporary (`first = len("poisson") + 1`)
            if isinstance(e, ast.Name) and len(single.get(e.id, [])) == 1:
                return _int_of(single[e.id][0])
            return _int_of(e)

        for sub in [x for x in own_nodes(init.node) if isinstance(x, ast.Subscript) and "_raw_text" in src(x.value) and isinstance(x.slice, ast.Slice)]:
            par = getattr(sub, "_parent", None)
            if isinstance(par, ast.Assign) and len(par.targets) == 1 and isinstance(par.targets[0], ast.Name) and len(single.get(par.targets[0].id, [])) == 1:
                # the window is named first (`parameter_text = self._raw_text[len(kw):]`) and read afterwards
                tmp = par.targets[0].id
                uses = [c_ for c_ in own_nodes(init.node) if isinstance(c_, ast.Call) and any(isinstance(a_, ast.Name) and a_.id == tmp for a_ in c_.args)]
                if len(uses) == 1:
                    par = uses[0]
            if isinstance(par, ast.Subscript) and par.value is sub and isinstance(par.slice, ast.Slice):
                continue  # inner half of `raw[a:][b:c]`, judged with the outer subscript
            lo, hi = _bound(sub.slice.lower), _bound(sub.slice.upper)
            if isinstance(sub.value, ast.Subscript) and isinstance(sub.value.slice, ast.Slice):
                lo1, hi1 = _bound(sub.value.slice.lower), _bound(sub.value.slice.upper)
                if isinstance(lo1, int) and hi1 is None and (lo is None or (isinstance(lo, int) and lo >= 0)) and (hi is None or (isinstance(hi, int) and hi < 0)):
                    lo = lo1 + (lo or 0)  # raw[a:][b:c] = raw[a + b : c] for a, b >= 0 and c < 0 / absent
            # a window cut in two steps: `rest = raw[len(kw):]` … `float(rest[1:-1])` is raw[len(kw) + 1 : -1]
            if isinstance(par, ast.Assign) and len(par.targets) == 1 and isinstance(par.targets[0], ast.Name) and hi is None and isinstance(lo, int):
                tmp2 = par.targets[0].id
                outer = [x for x in own_nodes(init.node) if isinstance(x, ast.Subscript) and isinstance(x.value, ast.Name) and x.value.id == tmp2 and isinstance(x.slice, ast.Slice)]
                reads = [x for x in own_nodes(init.node) if isinstance(x, ast.Name) and x.id == tmp2 and isinstance(x.ctx, ast.Load)]
                if len(outer) == 1 and len(reads) == 1 and len(single.get(tmp2, [])) == 1:
                    lo2, hi2 = _bound(outer[0].slice.lower), _bound(outer[0].slice.upper)
                    if (lo2 is None or (isinstance(lo2, int) and lo2 >= 0)) and (hi2 is None or (isinstance(hi2, int) and hi2 < 0)):
                        lo, hi = lo + (lo2 or 0), hi2
                        par = getattr(outer[0], "_parent", None)
            reader = callee_name(par) if isinstance(par, ast.Call) else None
            imp = init.module.imports.get(reader) if reader else None
            if imp and imp[1]:
                reader = imp[1]  # `from ast import literal_eval as <alias>`
            if reader in ("make_tuple", "literal_eval"):
                okw, want = (lo, hi) == (len(kw), None), f"[{len(kw)}:]"
            elif reader == "float":
                okw, want = (lo, hi) == (len(kw) + 1, -1), f"[{len(kw) + 1}:-1]"
            else:
                okw, want = False, "a slice read by make_tuple / float"
            res.ob(rule, ci.qualname, f"{ci.name}:text-window", "the reader gets exactly the text after the keyword (tuple reader: with its parentheses; float(): without them)",
                   f"{ci.module.relpath}:{sub.lineno}", okw, f"reader {reader} gets [{lo}:{hi}], expected {want} for keyword {kw!r}")
    return n


EXPECTED_ROLES = {  # over h0, h1 = the values printed at text positions 0, 1
    "Gauss": {"loc": "h0", "scale": "h1"},
    "Uniform": {"loc": "h0", "scale": "h1 - h0"},
    "Poisson": {"mu": "h0"},
    "SchulzZimm": {"z": "h1 / (h0 - h1)", "Mn": "h1"},
    "LogNormal": {"M": "h0", "D": "h1"},
    "FlorySchulz": {"a": "h0"},
}


def sampler_args(eng, ci: ClassInfo, env):
    """keyword -> symbolic expression (over pos0, pos1) reaching the sampler (frozen scipy object or rvs call)."""
    out = {}
    init = ci.method("__init__")
    site = None
    # frozen scipy distribution built in the constructor
    for st in own_nodes(init.node):
        if isinstance(st, ast.Assign) and _self_attr(st.targets[0]) and st.targets[0].attr == "_distribution" and isinstance(st.value, ast.Call):
            c = st.value
            d = src(c.func)
            if d.startswith("stats."):
                fam = d.split(".")[1]
                sig = SCIPY_SIG.get(fam)
                if sig is None:
                    raise AnalysisError(f"{ci.name}: scipy distribution {fam} not in the signature table")
                for i, a in enumerate(c.args):
                    out[sig[i]] = src(subst(a, env))
                for k in c.keywords:
                    out[k.arg] = src(subst(k.value, env))
                site = c
                out["__family__"] = fam
            elif isinstance(c.func, ast.Call) and src(c.func.func).startswith("self.") and src(c.func.func).endswith("_gen") and not c.args:
                # the family's own law object, frozen with its shape parameters at construction: self.x_gen(name=…)(a=…)
                for k in c.keywords:
                    out[k.arg] = src(subst(k.value, env))
                site = c
                out["__frozen_own__"] = src(c.func.func)
    dm = ci.method("draw_mw")
    if dm is not None:
        for c in calls(dm, "rvs"):
            for k in c.keywords:
                if k.arg != "random_state":
                    out[k.arg] = src(subst(k.value, env))
            site = c
    return out, site


def param_role(eng, res, rule="R-PARAM-ROLE"):
    n = 0
    for ci in families(eng):
        env, order, cut, init = ctor_positions(eng, ci)
        got, site = sampler_args(eng, ci, env)
        want = EXPECTED_ROLES.get(ci.name)
        n += 1
        if want is None:
            res.ob(rule, ci.qualname, f"{ci.name}:roles", "family has a documented parameter-role table", f"{ci.module.relpath}:{ci.node.lineno}", False, "unknown family")
            continue
        kw, holes, gs = printer_holes(eng, ci)
        hterms = {f"h{i}": env.get(h) for i, h in enumerate(holes)}
        if any(v is None for v in hterms.values()):
            res.ob(rule, ci.qualname, f"{ci.name}:roles", "printed parameters are constructor-established attributes", f"{ci.module.relpath}:{ci.node.lineno}", False,
                   f"printed holes {holes} not all assigned in the constructor")
            continue
        g = {k: _canon(v) for k, v in got.items() if not k.startswith("__")}
        w = {k: norm(rebuild(ast.parse(v, mode="eval").body, lambda n: hterms.get(n.id) if isinstance(n, ast.Name) else None)) for k, v in want.items()}
        res.ob(rule, ci.qualname, f"{ci.name}:roles", f"text positions reach the sampler in their documented roles {want}",
               f"{ci.module.relpath}:{site.lineno if site is not None else ci.node.lineno}", g == w, f"sampler receives {got}")
    # which scipy family
    fams = {"Gauss": "norm", "Uniform": "uniform", "Poisson": "poisson"}
    for ci in families(eng):
        if ci.name in fams:
            env, order, cut, init = ctor_positions(eng, ci)
            got, site = sampler_args(eng, ci, env)
            res.ob(rule, ci.qualname, f"{ci.name}:scipy-family", f"{ci.name} samples scipy.stats.{fams[ci.name]}", f"{ci.module.relpath}:{ci.node.lineno}",
                   got.get("__family__") == fams[ci.name], f"uses {got.get('__family__')}")
    return n


def _canon(s: str) -> str:
    return norm(ast.parse(s, mode="eval").body)


def base_draw(eng, res, rule="R-PARAM-ROLE"):
    """Families without their own draw use the base class: rvs on the frozen object with the caller's rng."""
    base = eng.prog.cls("Distribution")
    dm = base.method("draw_mw")
    res.unit(dm)
    rv = calls(dm, "rvs")
    ok = len(rv) == 1 and src(rv[0].func.value) == "self._distribution" and not [k for k in rv[0].keywords if k.arg != "random_state"] and not rv[0].args
    res.ob(rule, dm, "base-draw", "the base draw samples the family's frozen distribution object, with no extra parameters", dm.node, ok)
    for ci in families(eng):
        own = ci.method("draw_mw")
        if own is None:
            continue
        res.unit(own)
        rv = calls(own, "rvs")
        ok = len(rv) == 1 and src(rv[0].func.value) == "self._distribution"
        rets = [r for r in own_nodes(own.node) if isinstance(r, ast.Return) and r.value is not None]
        ok = ok and all(r.value is rv[0] for r in rets) and len(rets) == 1
        res.ob(rule, own, f"{ci.name}:own-draw", "the family's draw returns the sample of its own distribution object", own.node, ok)


def check(eng, res):
    res.doc("R-DIST-TABLE", "written name selects the class of that name (writer keyword == reader literals; first matching dispatch test)")
    res.doc("R-PARAM-ROLE", "dataflow from text position to sampler role, independent of attribute names")
    res.doc("R-DIST-PARAM-ORDER", "text positions 0, 1 fill the attributes that are printed at positions 0, 1")
    res.doc("R-ONE-DRAW", "one unshared draw per object per generation (from C07)")
    res.doc("R-DO-WHILE", "at least one unit (from C07)")
    res.doc("R-STOP-TEST", "stop at the first unit beyond the drawn target (from C07)")
    res.doc("R-LAW-FORMULA", "the hand-written laws are the documented formulas; law objects untruncated; draws unchanged (from C11)")
    res.doc("R-INTERVAL", "interval probability = cdf difference (from C11)")
    res.doc("R-DRAW-PARAMS", "rvs / cdf / pmf receive the same parameters (from C11)")
    n = dist_table(eng, res)
    res.floor("R-DIST-TABLE", n, 6)
    n = param_role(eng, res)
    res.floor("R-PARAM-ROLE", n, 6)
    n = param_order(eng, res)
    res.floor("R-DIST-PARAM-ORDER", n, 6)
    base_draw(eng, res)
    from . import c11

    c11.draw_params(eng, res)
    c11.law_finite(eng, res)
    c11.law_formulas(eng, res)
    from . import c10 as _c10

    res.doc("R-NO-SHARED-MUTABLE", "each distribution object owns the law object it configures: nothing bound once per class is re-configured through an instance")
    _c10.shared_mutable(eng, res)
    _c10.shared_class_object(eng, res, only_classes=["Distribution", "rv_discrete", "rv_continuous"])
    c11.interval(eng, res)
    # the loop law links the draw to the block size: one draw, at least one unit, stop at the first unit beyond the target (from C07)
    sub = type(res)(res.prop)
    G = c07.growth_or_violation(eng, sub)
    if G is not None:
        c07.check_growth(eng, sub, G)
    for o in sub.obligations:
        res.obligations.append(o)
    res.assumptions += ["SciPy's norm/uniform/poisson/rv_discrete/rv_continuous sample the law their parameters describe", "documented roles: gauss(mean, sigma), uniform(low, high), schulz_zimm(Mw, Mn), log_normal(Mn, dispersity), poisson(mean), flory_schulz(a)"]
    res.not_decided += ["the statistical law of block sizes (convergence of frequencies)", "numerical behaviour of the samplers"]
