"""C03 — bond-descriptor compatibility is exactly the BigSMILES conjugation rule (decided in full)."""
from __future__ import annotations

import ast
import itertools

from ..formula import Canon, atoms_of, equivalent, evaluate, show
from ..guards import returns_true_formula
from ..loader import AnalysisError, norm, own_nodes, src

LEVEL = "proof"
_CELLS = 0

SYMBOLS = ["", "$", "<", ">"]
ALLOWED_READS = {"descriptor", "descriptor_id", "bond_type"}
PREFIXES = {"none": "", "-": "-", "=": "=", "#": "#", ":": ":"}


def _is_compat_env(params):
    me, other = params[0], params[1]

    def term(name, attr):
        return norm(ast.Attribute(value=ast.Name(id=name, ctx=ast.Load()), attr=attr, ctx=ast.Load()))

    return {
        "sd": term(me, "descriptor"),
        "od": term(other, "descriptor"),
        "sid": term(me, "descriptor_id"),
        "oid": term(other, "descriptor_id"),
        "sb": term(me, "bond_type"),
        "ob": term(other, "bond_type"),
    }


IDS = [""] + list(range(13))
ORDERS = ["SINGLE", "DOUBLE", "TRIPLE", "ONEANDAHALF"]


class _Ret(Exception):
    def __init__(self, v):
        self.v = v


def _ev(e, env):
    """Tiny pure evaluator (A-FINITE): attribute reads of the two operands, constants, ==/!=/in/not in/is,
    and/or/not with Python value semantics, tuples, conditional expressions."""
    if isinstance(e, ast.Constant):
        return e.value
    if isinstance(e, ast.Name):
        if e.id in env:
            return env[e.id]
        raise AnalysisError(f"name {e.id} outside the abstract domain")
    if isinstance(e, ast.Attribute) and isinstance(e.value, ast.Name) and isinstance(env.get(e.value.id), dict):
        obj = env[e.value.id]
        if e.attr in obj:
            return obj[e.attr]
        raise AnalysisError(f"attribute {e.attr} outside the abstract domain (symbol / id / order)")
    if isinstance(e, ast.Tuple):
        return tuple(_ev(x, env) for x in e.elts)
    if isinstance(e, ast.List):
        return [_ev(x, env) for x in e.elts]
    if isinstance(e, ast.Set):
        return {_ev(x, env) for x in e.elts}
    if isinstance(e, ast.UnaryOp) and isinstance(e.op, ast.Not):
        return not _ev(e.operand, env)
    if isinstance(e, ast.UnaryOp) and isinstance(e.op, (ast.USub, ast.UAdd)):
        v = _ev(e.operand, env)
        if isinstance(v, (int, float)) and not isinstance(v, bool):
            return -v if isinstance(e.op, ast.USub) else v
        raise AnalysisError("unary minus on a non-number")
    if isinstance(e, ast.BoolOp):
        v = None
        for x in e.values:
            v = _ev(x, env)
            if isinstance(e.op, ast.And) and not v:
                return v
            if isinstance(e.op, ast.Or) and v:
                return v
        return v
    if isinstance(e, ast.IfExp):
        return _ev(e.body, env) if _ev(e.test, env) else _ev(e.orelse, env)
    if isinstance(e, ast.Compare):
        left = _ev(e.left, env)
        for op, r in zip(e.ops, e.comparators):
            right = _ev(r, env)
            if isinstance(op, ast.Eq):
                ok = left == right
            elif isinstance(op, ast.NotEq):
                ok = left != right
            elif isinstance(op, ast.In):
                ok = left in right
            elif isinstance(op, ast.NotIn):
                ok = left not in right
            elif isinstance(op, ast.Is):
                ok = left is right
            elif isinstance(op, ast.IsNot):
                ok = left is not right
            elif isinstance(op, (ast.Lt, ast.LtE, ast.Gt, ast.GtE)) and isinstance(left, int) and isinstance(right, int) and not isinstance(left, bool):
                ok = {ast.Lt: left < right, ast.LtE: left <= right, ast.Gt: left > right, ast.GtE: left >= right}[type(op)]
            else:
                raise AnalysisError(f"comparison {type(op).__name__} on {left!r}, {right!r} outside the abstract domain")
            if not ok:
                return False
            left = right
        return True
    if isinstance(e, ast.Call) and isinstance(e.func, ast.Name) and e.func.id in ("bool", "str", "int") and len(e.args) == 1:
        v = _ev(e.args[0], env)
        return {"bool": bool, "str": str, "int": int}[e.func.id](v)
    raise AnalysisError(f"expression {src(e)[:50]} outside the abstract domain")


def _run(stmts, env):
    for s in stmts:
        if isinstance(s, ast.Return):
            raise _Ret(_ev(s.value, env) if s.value is not None else None)
        if isinstance(s, ast.If):
            _run(s.body if _ev(s.test, env) else s.orelse, env)
        elif isinstance(s, ast.Assign) and len(s.targets) == 1 and isinstance(s.targets[0], ast.Name):
            env[s.targets[0].id] = _ev(s.value, env)
        elif isinstance(s, (ast.Pass,)) or (isinstance(s, ast.Expr) and isinstance(s.value, ast.Constant)):
            continue
        else:
            raise AnalysisError(f"statement {src(s)[:50]} outside the loop-free fragment A-FINITE evaluates")


def decide_table(eng, fi, res=None):
    """Evaluate is_compatible on the property's whole universe: symbols x ids {none,0..12} x four bond orders."""
    me, other = fi.params[0], fi.params[1]
    table = {}
    cells = 0
    for sd, od in itertools.product(SYMBOLS, SYMBOLS):
        bad = []
        for si, oi, so, oo in itertools.product(IDS, IDS, ORDERS, ORDERS):
            env = {me: {"descriptor": sd, "descriptor_id": si, "bond_type": "BondType." + so},
                   other: {"descriptor": od, "descriptor_id": oi, "bond_type": "BondType." + oo}}
            try:
                _run(fi.node.body, env)
                r = None
            except _Ret as ret:
                r = ret.v
            cells += 1
            want = (si == oi and type(si) is type(oi)) and so == oo and (sd, od) in {("$", "$"), ("<", ">"), (">", "<")}
            if bool(r) != want:
                bad.append(((si, oi, so, oo), r))
        table[(sd, od)] = bad
    return table, cells


def expected(cell) -> bool:
    sd, od, id_eq, ord_eq = cell
    return id_eq and ord_eq and (sd, od) in {("$", "$"), ("<", ">"), (">", "<")}


def _id_text_complete(eng, init, flow, arg, at):
    import re as _re

    t = flow.expand(arg, at, depth=6)
    txt = src(t)
    core = txt[:-len(".strip()")] if txt.endswith(".strip()") else txt
    if _re.fullmatch(r"self\._raw_text\[2:(-1|§phi\((self\._raw_text\.find\('\|'\), -1|-1, self\._raw_text\.find\('\|'\))\))\]", core):
        return True, f"id text = {core}"
    # regular-expression spelling: the group that yields the id must take every digit
    calls_ = [c for c in ast.walk(t) if isinstance(c, ast.Call) and isinstance(c.func, ast.Attribute) and c.func.attr == "group"]
    m = gi = None
    if calls_:
        g = calls_[0]
        gi = g.args[0].value if g.args and isinstance(g.args[0], ast.Constant) else 0
        m = g.func.value
    else:
        # `a, b = m.groups()` (unpacking position i is group i + 1) and `m.groups()[i]`
        for c in ast.walk(t):
            if isinstance(c, ast.Call) and isinstance(c.func, ast.Name) and c.func.id == "§unpack" and len(c.args) == 2 and isinstance(c.args[0], ast.Call) \
                    and isinstance(c.args[0].func, ast.Attribute) and c.args[0].func.attr == "groups" and isinstance(c.args[1], ast.Constant) and isinstance(c.args[1].value, tuple) \
                    and len(c.args[1].value) == 1:
                m, gi = c.args[0].func.value, c.args[1].value[0] + 1
                break
            if isinstance(c, ast.Subscript) and isinstance(c.value, ast.Call) and isinstance(c.value.func, ast.Attribute) and c.value.func.attr == "groups" \
                    and isinstance(c.slice, ast.Constant) and isinstance(c.slice.value, int) and c.slice.value >= 0:
                m, gi = c.value.func.value, c.slice.value + 1
                break
    if m is not None:
        if isinstance(m, ast.Name):  # the match object held in a local
            ds = flow.reaching(m.id, at)
            if len(ds) == 1 and ds[0].value is not None:
                m = ds[0].value
        pat = None
        if isinstance(m, ast.Call) and isinstance(m.func, ast.Attribute) and m.func.attr in ("match", "search", "fullmatch"):
            recv = m.func.value
            if isinstance(recv, ast.Name) and recv.id == "re" and m.args and isinstance(m.args[0], ast.Constant):
                pat = m.args[0].value
            elif isinstance(recv, ast.Name):
                for st in init.module.tree.body:
                    if isinstance(st, ast.Assign) and any(isinstance(x, ast.Name) and x.id == recv.id for x in st.targets) and isinstance(st.value, ast.Call) \
                            and src(st.value.func) == "re.compile" and st.value.args and isinstance(st.value.args[0], ast.Constant):
                        pat = st.value.args[0].value
        if pat is None:
            raise AnalysisError("descriptor id is parsed with a regular expression whose pattern cannot be located")
        try:
            import re._parser as sp
            import re._constants as sc
        except ImportError:  # pragma: no cover
            import sre_parse as sp
            import sre_constants as sc
        tree = sp.parse(pat)

        def find_group(items, idx):
            for op, av in items:
                if op is sc.SUBPATTERN:
                    if av[0] == idx:
                        return list(av[3])
                    r = find_group(av[3], idx)
                    if r is not None:
                        return r
                elif op in (sc.MAX_REPEAT, sc.MIN_REPEAT):
                    r = find_group(av[2], idx)
                    if r is not None:
                        return r
                elif op is sc.BRANCH:
                    for alt in av[1]:
                        r = find_group(alt, idx)
                        if r is not None:
                            return r
            return None

        grp = list(tree) if gi == 0 else find_group(tree, gi)
        if grp is None:
            raise AnalysisError(f"group {gi} not found in pattern {pat!r}")
        digit_reps = []
        for op, av in grp:
            if op in (sc.MAX_REPEAT, sc.MIN_REPEAT):
                inner = list(av[2])
                is_digit = len(inner) == 1 and (
                    (inner[0][0] is sc.IN and any(x == (sc.CATEGORY, sc.CATEGORY_DIGIT) or (x[0] is sc.RANGE and x[1] == (48, 57)) for x in inner[0][1]))
                    or inner[0] == (sc.CATEGORY, sc.CATEGORY_DIGIT))
                if is_digit:
                    digit_reps.append((av[0], av[1]))
        if len(digit_reps) == 1:
            lo, hi = digit_reps[0]
            if hi == sc.MAXREPEAT:
                return True, f"regular expression {pat!r}: group {gi} takes every digit"
            return False, f"regular expression {pat!r}: group {gi} takes at most {hi} digit(s): ids with more digits are truncated (e.g. [$12] is read as id {'1' * int(hi)})"
        raise AnalysisError(f"descriptor id is parsed with regular expression {pat!r}, whose group {gi} is outside what the analysis decides")
    # a single character can never be a complete id text
    if isinstance(t, ast.Subscript) and not isinstance(t.slice, ast.Slice):
        core_t = t
        return False, f"id text = {txt[:90]}: one character of the descriptor text — an id of several digits is truncated (e.g. [$12] is read as id 1)"
    if isinstance(t, ast.Call) and isinstance(t.func, ast.Attribute) and t.func.attr == "strip" and isinstance(t.func.value, ast.Subscript) and not isinstance(t.func.value.slice, ast.Slice):
        return False, f"id text = {txt[:90]}: one character of the descriptor text — an id of several digits is truncated"
    raise AnalysisError(f"the text of the descriptor id ({txt[:80]}) is obtained in a way the analysis does not recognise")


def bond_order_table(eng, res, fi):
    """R-BONDORDER-TABLE: the ladder `if "<ch>" in preceding: bond_type = X` read as an ordered table."""
    ladder = []  # (char, value-norm)
    default = None
    # the ladder may fill a local that is stored into self.bond_type once, afterwards
    stores = [n for n in own_nodes(fi.node) if isinstance(n, ast.Assign) and len(n.targets) == 1 and isinstance(n.targets[0], ast.Attribute)
              and n.targets[0].attr == "bond_type" and isinstance(n.targets[0].value, ast.Name) and n.targets[0].value.id == "self"]
    named = [n for n in stores if isinstance(n.value, ast.Name)]
    via = named[0].value.id if len(named) == 1 else None

    def _is_target(t):
        if via is not None and isinstance(t, ast.Name) and t.id == via:
            return True
        return isinstance(t, ast.Attribute) and t.attr == "bond_type" and isinstance(t.value, ast.Name) and t.value.id == "self"

    def _is_preceding(e):
        """the text in front of the descriptor: the parameter / field itself or a local alias of it"""
        if "preceding_characters" in src(e):
            return True
        if isinstance(e, ast.Name):
            defs = [a for a in own_nodes(fi.node) if isinstance(a, ast.Assign) and len(a.targets) == 1 and isinstance(a.targets[0], ast.Name) and a.targets[0].id == e.id]
            return len(defs) == 1 and isinstance(defs[0].value, (ast.Name, ast.Attribute)) and "preceding_characters" in src(defs[0].value)
        return False

    for n in own_nodes(fi.node):
        if isinstance(n, ast.Assign) and len(n.targets) == 1:
            t = n.targets[0]
            if via is not None and n is named[0]:
                continue  # the single hand-over of the local to the field
            if _is_target(t):
                p = getattr(n, "_parent", None)
                if isinstance(p, ast.If) and n in p.body and len(p.body) == 1 and not p.orelse:
                    tst = eng.flow(fi).cfg.test_of(p)
                    if (
                        isinstance(tst, ast.Compare)
                        and len(tst.ops) == 1
                        and isinstance(tst.ops[0], ast.In)
                        and isinstance(tst.left, ast.Constant)
                        and isinstance(tst.left.value, str)
                        and _is_preceding(tst.comparators[0])
                    ):
                        ladder.append((tst.left.value, src(n.value), n))
                        continue
                ladder.append((None, src(n.value), n))
    # the default is the last unconditional assignment before the first conditional one
    seq = []
    for ch, v, node in ladder:
        seq.append((ch, v, node))
    # evaluate for each prefix
    out = {}
    last_uncond_idx = max((i for i, (ch, _, _) in enumerate(seq) if ch is None), default=None)
    if last_uncond_idx is None:
        raise AnalysisError("no unconditional bond_type default found in BondDescriptor.__init__")
    for name, text in PREFIXES.items():
        val = seq[last_uncond_idx][1]
        for ch, v, node in seq[last_uncond_idx + 1 :]:
            if ch is not None and ch in text:
                val = v
        out[name] = val
    return out, seq


def check(eng, res):
    from . import c10 as _c10

    _c10.copy_plain(eng, res)
    prog = eng.prog
    res.doc("R-COMPAT-UNIQUE", "exactly one is_compatible; no subclass of BondDescriptor; filter appends i under `bond is None or bond.is_compatible(other_i)`")
    res.doc("R-COMPAT-READSET", "is_compatible reads only descriptor, descriptor_id, bond_type of its two operands; no call, no global")
    res.doc("R-COMPAT-TABLE", "A-FINITE: is_compatible evaluated on all 64 cells symbol x symbol x id-equal x order-equal equals the conjugation rule")
    res.doc("R-COMPAT-ABSTRACTION", "constructor facts that justify the abstraction ([] -> '', no id -> '', bond-order table)")
    res.doc("R-BONDORDER-TABLE", "prefix characters map none/- to one order and = # : to three further distinct orders")
    defs = [f for f in prog.all_functions() if f.name == "is_compatible"]
    res.ob("R-COMPAT-UNIQUE", "package", "single-definition", f"exactly one definition of is_compatible ({len(defs)} found)", "-", len(defs) == 1)
    if len(defs) < 1:
        raise AnalysisError("anchor is_compatible not found")
    fi = [f for f in defs if f.cls is not None and f.cls.name == "BondDescriptor"]
    if not fi:
        raise AnalysisError("anchor BondDescriptor.is_compatible not found")
    fi = fi[0]
    res.unit(fi)
    subs = prog.subclasses("BondDescriptor", strict=True)
    res.ob("R-COMPAT-UNIQUE", "package", "no-subclass", "BondDescriptor has no subclass (no override of the relation)", "-", not subs,
           f"subclasses: {[c.name for c in subs]}")
    # no __eq__ tampering on BondDescriptor (attribute comparisons are on plain values)
    # ---- read set
    params = fi.params
    bad = []
    for n in own_nodes(fi.node):
        if isinstance(n, ast.Attribute):
            if isinstance(n.value, ast.Name) and n.value.id in params[:2]:
                if n.attr not in ALLOWED_READS:
                    bad.append(f"{src(n)} (line {n.lineno})")
            else:
                bad.append(f"{src(n)} (line {n.lineno})")
        elif isinstance(n, ast.Call):
            bad.append(f"call {src(n)[:40]} (line {n.lineno})")
        elif isinstance(n, ast.Name) and n.id not in params[:2] and isinstance(n.ctx, ast.Load):
            flow = eng.flow(fi)
            if not flow.is_local(n.id) and n.id not in ("True", "False", "None"):
                bad.append(f"global {n.id} (line {n.lineno})")
    res.ob("R-COMPAT-READSET", fi, "read-set", "reads ⊆ {descriptor, descriptor_id, bond_type} of self/other; no call, no global",
           fi.node, not bad, "; ".join(bad))
    # ---- table
    global _CELLS
    table = {}
    try:
        table, _CELLS = decide_table(eng, fi)
    except AnalysisError as exc:
        res.ob("R-COMPAT-TABLE", fi, "evaluable", "is_compatible is a function of symbol / id / order only, built from equality tests", fi.node, False,
               f"cannot be evaluated on the universe: {exc}")
    for (sd, od), bad in sorted(table.items()):
        res.ob(
            "R-COMPAT-TABLE",
            fi,
            f"symbols:{sd or '[]'}:{od or '[]'}",
            f"[{sd}] with [{od}]: compatible iff ids equal (none is an id of its own), orders equal and symbols conjugate — all 14x14 ids x 4x4 orders",
            fi.node,
            not bad,
            f"{len(bad)} cell(s) differ, e.g. ids {bad[0][0][0]!r}/{bad[0][0][1]!r} orders {bad[0][0][2]}/{bad[0][0][3]} -> {bad[0][1]!r}" if bad else "",
        )
    # the same object on both sides (a descriptor stands for every copy of its unit): same verdict as for an equal copy
    if table:
        me_, other_ = fi.params[0], fi.params[1]
        bad_same = []
        for sd in SYMBOLS:
            for si, so in itertools.product(IDS, ORDERS):
                d = {"descriptor": sd, "descriptor_id": si, "bond_type": "BondType." + so}
                try:
                    _run(fi.node.body, {me_: d, other_: d})
                    r = None
                except _Ret as ret:
                    r = ret.v
                except AnalysisError:
                    r = "?"
                if bool(r) != (sd == "$") or r == "?":
                    bad_same.append((sd, si, so, r))
        res.ob("R-COMPAT-TABLE", fi, "same-object", "a descriptor compared with itself (one object on both sides) gets the verdict of an equal copy: compatible iff its symbol is $", fi.node,
               not bad_same, f"{len(bad_same)} descriptor(s) differ, e.g. [{bad_same[0][0]}{bad_same[0][1]}] order {bad_same[0][2]} -> {bad_same[0][3]!r}" if bad_same else "")
    if table:
        asym = [k for k in table if {c for c, _ in table[k]} != {(c[1], c[0], c[3], c[2]) for c, _ in table[(k[1], k[0])]}]
        res.ob("R-COMPAT-TABLE", fi, "symmetry", "relation symmetric on the whole universe", fi.node, not asym and not any(table.values()) or not asym, f"asymmetric symbol pairs {asym[:3]}")
    # ---- abstraction facts in the constructor
    init = prog.func("bond.BondDescriptor.__init__")
    res.unit(init)
    flow = eng.flow(init)
    cfg = flow.cfg
    # (a) early return on "[]" before any assignment of a symbol: descriptor == "" at that exit
    early = None
    for n in own_nodes(init.node):
        if isinstance(n, ast.Return):
            g = cfg.guard_exprs(cfg.node_of(n))
            for t, pol in g:
                tt = flow.expand(t, cfg.node_of(getattr(t, "_parent", n)) if False else None) if False else t
                if pol and "[]" in [c.value for c in ast.walk(t) if isinstance(c, ast.Constant)]:
                    early = n
    ok_a = False
    why = "no early return guarded by == '[]'"
    if early is not None:
        # descriptor attribute stores reaching the early return: only constant ""
        nid = cfg.node_of(early)
        stores = _attr_stores(init, "descriptor")
        before = [s for s in stores if cfg.node_of(s) in cfg.reachable([nid], backward=True)]
        vals = {src(s.value) for s in before}
        ok_a = bool(before) and all(isinstance(s.value, ast.Constant) and s.value.value == "" for s in before)
        why = f"descriptor stores reaching the '[]' exit: {sorted(vals)}"
    res.ob("R-COMPAT-ABSTRACTION", init, "empty-descriptor", "'[]' leaves descriptor == '' (early return before any symbol assignment)",
           early or init.node, ok_a, why)
    # (b) symbol store after the early return is the character validated against ($,<,>)
    stores = _attr_stores(init, "descriptor")
    sym_stores = [s for s in stores if not (isinstance(s.value, ast.Constant))]
    ok_b = False
    why_b = "no non-constant store to descriptor"
    if sym_stores:
        from ..guards import Rejections

        rej = Rejections(eng, init)
        okr, binding, detail = rej.rejects(
            "S != '[]' and X not in ('$', '<', '>')",
            {"S": lambda t: isinstance(t, ast.Attribute), "X": lambda t: isinstance(t, ast.Subscript)},
        )
        if okr:
            xs = binding["X"]
            ok_b = all(src(flow.expand(s.value, cfg.node_of(s))) == xs for s in sym_stores)
            why_b = f"validated term {xs}; stored {[src(flow.expand(s.value, cfg.node_of(s))) for s in sym_stores]}"
        else:
            why_b = f"no guard rejects symbols outside $ < >: {detail}"
    res.ob("R-COMPAT-ABSTRACTION", init, "symbol-domain", "stored symbol is the character checked to be one of $ < >", init.node, ok_b, why_b)
    # (c) ids: "" or int(...)
    id_stores = _attr_stores(init, "descriptor_id")
    kinds = set()
    for s in id_stores:
        v = s.value
        if isinstance(v, ast.Constant) and v.value == "":
            kinds.add("empty")
        elif isinstance(v, ast.Call) and isinstance(v.func, ast.Name) and v.func.id == "int":
            kinds.add("int")
        else:
            kinds.add("other:" + src(v))
    res.ob("R-COMPAT-ABSTRACTION", init, "id-domain", "descriptor_id is '' (no id: one value of its own) or int(text)", init.node,
           kinds == {"empty", "int"}, f"stores: {sorted(kinds)}")
    # the text handed to int() is the whole id text (everything between the symbol and the first '|' or the closing bracket)
    for s_ in id_stores:
        v = s_.value
        if isinstance(v, ast.Call) and isinstance(v.func, ast.Name) and v.func.id == "int" and v.args:
            ok_t, why_t = _id_text_complete(eng, init, flow, v.args[0], cfg.node_of(s_))
            res.ob("R-COMPAT-ABSTRACTION", init, "id-text-complete", "the id is read from the complete id text (all digits between the symbol and the first '|' or ']')", s_, ok_t, why_t)
    # (d) bond-order table
    tab, seq = bond_order_table(eng, res, init)
    res.unit(init)
    ok_d = tab["none"] == tab["-"] and len({tab["none"], tab["="], tab["#"], tab[":"]}) == 4
    res.ob("R-BONDORDER-TABLE", init, "prefix-table", "none and '-' give one order; '=', '#', ':' three further pairwise different orders",
           init.node, ok_d, f"table {tab}")
    expected_tab = {"none": "SINGLE", "-": "SINGLE", "=": "DOUBLE", "#": "TRIPLE", ":": "ONEANDAHALF"}
    for k, want in expected_tab.items():
        res.ob("R-BONDORDER-TABLE", init, f"prefix:{k}", f"prefix {k!r} -> BondType.{want}", init.node, tab[k].endswith("." + want), f"got {tab[k]}")
    # ---- filter function
    g = prog.func("core.get_compatible_bond_descriptor_ids")
    res.unit(g)
    gflow = eng.flow(g)
    # A-NORM writes the append loop as the comprehension [i for i, other in enumerate(descriptors) if <filter>]
    comps = [c for c in own_nodes(g.node) if isinstance(c, ast.ListComp)]
    ok_f = False
    why_f = f"{len(comps)} comprehension(s) / append loop(s) building the index list"
    if len(comps) == 1 and len(comps[0].generators) == 1:
        c = comps[0]
        gen = c.generators[0]
        it_ok = isinstance(gen.iter, ast.Call) and isinstance(gen.iter.func, ast.Name) and gen.iter.func.id == "enumerate" and len(gen.iter.args) == 1 and src(gen.iter.args[0]) == g.params[0] \
            and isinstance(gen.target, ast.Tuple) and len(gen.target.elts) == 2 and all(isinstance(x, ast.Name) for x in gen.target.elts)
        if it_ok:
            iv, ev = gen.target.elts[0].id, gen.target.elts[1].id
            can = Canon()
            got = ("and", [can.formula(t) for t in gen.ifs]) if gen.ifs else ("const", True)
            b = g.params[1]
            exp = can.formula(ast.parse(f"{b} is None or {b}.is_compatible({ev})", mode="eval").body)
            ok_f = isinstance(c.elt, ast.Name) and c.elt.id == iv and equivalent(got, exp)[0]
            why_f = f"collects {src(c.elt)} under {[src(t) for t in gen.ifs]}; expected {iv} under {b} is None or {b}.is_compatible({ev})"
        else:
            why_f = f"iterates {src(gen.iter)[:60]}"
    res.ob("R-COMPAT-UNIQUE", g, "filter-predicate", "index i appended exactly under `bond is None or bond.is_compatible(other_i)`", g.node, ok_f, why_f)
    ret_ok = False
    for n in own_nodes(g.node):
        if isinstance(n, ast.Return) and n.value is not None:
            t = src(gflow.expand(n.value, gflow.cfg.node_of(n)))
            ret_ok = "asarray" in t or t.startswith("[")
    res.ob("R-COMPAT-UNIQUE", g, "filter-return", "the collected index list is what is returned", g.node, ret_ok)
    if table:
        res.floor("R-COMPAT-TABLE", sum(1 for o in res.obligations if o.rule == "R-COMPAT-TABLE"), 17)
    res.assumptions += [
        "Python == on str / int / RDKit BondType enum values is an equivalence relation",
        "A-FINITE evaluator (sa/formula.py, sa/guards.py) is correct (self-tested on equivalent and non-equivalent variants)",
        "weights / transitions / positions cannot influence the relation because they are not read (R-COMPAT-READSET)",
    ]
    res.not_decided += []


def extra_coverage(eng, res):
    n = sum(1 for o in res.obligations)
    d = sum(1 for o in res.obligations if o.ok)
    return {
        "obligations": n,
        "discharged": d,
        "checker_cmd": "/venv/bin/python sa/check.py C03",
        "trusted_base": ["python ast module", "sa/formula.py (A-FINITE evaluator)", "sa/guards.py returns_true_formula", "sa/cfg.py"],
        "exhaustive": True,
        "evaluations": _CELLS,
        "explanation": "the property's universe is enumerated completely: 4x4 symbols x 14x14 ids (none, 0..12) x 4x4 bond orders = 50176 ordered pairs, is_compatible evaluated on each by a pure finite-domain evaluator of its source; the five prefixes map onto the four orders by R-BONDORDER-TABLE, weight forms are excluded by R-COMPAT-READSET, constructor facts by R-COMPAT-ABSTRACTION",
    }


def _attr_stores(fi, attr):
    out = []
    for n in own_nodes(fi.node):
        if isinstance(n, ast.Assign):
            for t in n.targets:
                if isinstance(t, ast.Attribute) and t.attr == attr and isinstance(t.value, ast.Name) and t.value.id == "self":
                    out.append(n)
    return out
