"""C12 — mixture bookkeeping: algebra of the linked setters, remainder rule, propagation, guards."""
from __future__ import annotations

import ast
from fractions import Fraction

from ..formula import Canon, equivalent, parse_expr
from ..loader import AnalysisError, norm, own_nodes, src
from ..util import callee_name, calls
from . import c15

LEVEL = "other"

SYM = {
    "absolute_mass": "A", "_absolute_mass": "A",
    "relative_mass": "R", "_relative_mass": "R",
    "system_mass": "S", "_system_mass": "S",
}


def monomial(e, env):
    """(coef: Fraction, {sym: exp}) for products / quotients of mass symbols and numbers, else None."""
    if isinstance(e, ast.Constant) and isinstance(e.value, (int, float)) and not isinstance(e.value, bool):
        return Fraction(e.value).limit_denominator(10**9), {}
    if isinstance(e, ast.Attribute) and isinstance(e.value, ast.Name) and e.value.id == "self" and e.attr in SYM:
        return Fraction(1), {SYM[e.attr]: 1}
    if isinstance(e, ast.Name) and e.id in env:
        return Fraction(1), {env[e.id]: 1}
    if isinstance(e, ast.BinOp) and isinstance(e.op, (ast.Mult, ast.Div)):
        a = monomial(e.left, env)
        b = monomial(e.right, env)
        if a is None or b is None:
            return None
        sign = 1 if isinstance(e.op, ast.Mult) else -1
        coef = a[0] * (b[0] if sign == 1 else 1 / b[0])
        exps = dict(a[1])
        for k, v in b[1].items():
            exps[k] = exps.get(k, 0) + sign * v
        return coef, {k: v for k, v in exps.items() if v != 0}
    if isinstance(e, ast.UnaryOp) and isinstance(e.op, ast.UAdd):
        return monomial(e.operand, env)
    return None


def mass_algebra(eng, res, rule="R-MASS-ALGEBRA"):
    ci = eng.prog.cls("Mixture")
    found = []
    for name in ("relative_mass", "system_mass", "absolute_mass"):
        fi = ci.method(name, setter=True)
        if fi is None:
            continue
        res.unit(fi)
        param = fi.params[1] if len(fi.params) > 1 else None
        env = {}
        # the setter's parameter is the quantity it sets (after `self._x = param`)
        def _is_param(v):
            if isinstance(v, ast.Call) and callee_name(v) == "float" and len(v.args) == 1 and not v.keywords:
                v = v.args[0]
            return isinstance(v, ast.Name) and v.id == param

        stores_param = [n for n in own_nodes(fi.node) if isinstance(n, ast.Assign) and _is_param(n.value)
                        and isinstance(n.targets[0], ast.Attribute) and n.targets[0].attr in SYM]
        if stores_param:
            env[param] = SYM[stores_param[0].targets[0].attr]
        res.ob(rule, fi, "param-is-quantity", f"the setter stores its argument as the quantity it sets", fi.node, len(stores_param) == 1, f"{len(stores_param)} plain store(s) of the argument")
        flow = eng.flow(fi)
        cfg = flow.cfg
        for sp in stores_param:
            # ... and stores it as given: the value written is the caller's value (at most converted with float()), on every path
            t = flow.expand(sp.value, cfg.node_of(sp), depth=6)
            tt = src(t)
            ok = tt in (param, f"float({param})")
            res.ob(rule, fi, "argument-stored-verbatim", "the value a setter stores is the caller's value itself (no re-scaling, no case distinction on its size)", sp, ok, f"stores {tt[:120]}")
        for n in own_nodes(fi.node):
            if isinstance(n, ast.Assign) and len(n.targets) == 1 and isinstance(n.targets[0], ast.Attribute) and n.targets[0].attr in SYM:
                if n in stores_param:
                    continue
                tsym = SYM[n.targets[0].attr]
                m = monomial(n.value, env)
                if m is None:
                    # the expression may be spread over single-assignment temporaries (`share = self.relative_mass / 100`)
                    m = monomial(flow.expand_names(n.value, cfg.node_of(n)), env)
                role = f"{name}.setter:{tsym}"
                if m is None:
                    res.ob(rule, fi, role, "derived mass is a product/quotient of the two other quantities", n, False, f"not a monomial: {src(n.value)}")
                    continue
                coef, exps = m
                # relation: target / expr == 1
                rel = dict((k, -v) for k, v in exps.items())
                rel[tsym] = rel.get(tsym, 0) + 1
                c = 1 / coef
                if rel.get("A", 0) < 0:
                    rel = {k: -v for k, v in rel.items()}
                    c = 1 / c
                ok = rel == {"A": 1, "R": -1, "S": -1} and c == Fraction(100)
                found.append(tsym)
                res.ob(rule, fi, role, "the assignment is the one relation 100 · absolute = relative · system", n, ok,
                       f"normal form: {c} · " + " · ".join(f"{k}^{v}" for k, v in sorted(rel.items())) + " = 1")
                # guard: the quantities read are known on that path
                reads = {SYM[x.attr] for x in ast.walk(flow.expand_names(n.value, cfg.node_of(n))) if isinstance(x, ast.Attribute) and x.attr in SYM}
                conds = cfg.guard_exprs(cfg.node_of(n))
                known = set()
                for t, pol in conds:
                    s_ = src(t)
                    for a, sym in SYM.items():
                        if pol and (s_ == f"self.{a}" or s_ == f"self.{a} is not None"):
                            known.add(sym)
                        if not pol and s_ in (f"self.{a} is None", f"not self.{a}"):
                            known.add(sym)
                        if pol and s_ in (f"not self.{a} is None", f"not (self.{a} is None)"):
                            known.add(sym)
                res.ob(rule, fi, role + ":guard", "it is applied only when the quantities it reads are known", n, reads <= known | set(env.values()),
                       f"reads {sorted(reads)}, known on this path {sorted(known | set(env.values()))}")
    res.ob(rule, "mixture.Mixture", "all-three", "the three derived assignments (absolute, relative, system) exist", "-", sorted(found) == ["A", "R", "S"], f"found {sorted(found)}")
    # percentages given by the user win: in the system-mass setter the relative branch comes first and returns
    fi = ci.method("system_mass", setter=True)
    if fi is not None:
        flow = eng.flow(fi)
        cfg = flow.cfg
        a_store = [n for n in own_nodes(fi.node) if isinstance(n, ast.Assign) and isinstance(n.targets[0], ast.Attribute) and n.targets[0].attr == "_absolute_mass"]
        r_store = [n for n in own_nodes(fi.node) if isinstance(n, ast.Assign) and isinstance(n.targets[0], ast.Attribute) and n.targets[0].attr == "_relative_mass"]
        ok = len(a_store) == 1 and len(r_store) == 1 and cfg.node_of(r_store[0]) not in cfg.reachable([cfg.node_of(a_store[0])])
        # in this setter "known" means "not None": the remainder fill legitimately produces 0.0 %, which must still get its mass
        tests = []
        for st in own_nodes(fi.node):
            if isinstance(st, ast.Assign) and isinstance(st.targets[0], ast.Attribute) and st.targets[0].attr in ("_absolute_mass", "_relative_mass"):
                for t, pol in cfg.guard_exprs(cfg.node_of(st)):
                    if any(isinstance(x, ast.Attribute) and x.attr in ("_relative_mass", "_absolute_mass") for x in ast.walk(t)):
                        tests.append((src(t), pol))
        okn = bool(tests) and all(" is not None" in t or " is None" in t for t, _ in tests)
        res.ob(rule, fi, "zero-is-known", "when the system mass arrives, a component's percentage / mass counts as known iff it is not None (0 % is a percentage)", fi.node, okn,
               f"tests {sorted(set(tests))}")
        res.ob(rule, fi, "user-values-preserved", "never both derived in one call: a written percentage is kept and only the absolute mass derived (else the percentage is derived)",
               fi.node, ok)
    return len(found)


def remainder(eng, res, rule="R-REMAINDER"):
    fi = eng.prog.func("system._estimate_system_molecular_weight")
    res.unit(fi)
    flow = eng.flow(fi)
    cfg = flow.cfg
    M = fi.params[0]
    # the remainder definition: w = 100 - total
    cand = [d for d in flow.defs if d.kind == "assign" and isinstance(d.value, ast.BinOp) and isinstance(d.value.op, ast.Sub)
            and isinstance(d.value.left, ast.Constant) and d.value.left.value in (100, 100.0)]
    if len(cand) != 1:
        res.ob(rule, fi, "remainder-definition", "the inferred percentage is 100 − Σ given", fi.node, False, f"{len(cand)} candidate definition(s)")
        return
    d = cand[0]
    w = d.name
    total = d.value.right
    # total = sum of relative masses of the components that have one
    tname = total.id if isinstance(total, ast.Name) else None
    augs = [x for x in flow.defs if x.name == tname and x.kind == "aug"]
    ok = bool(augs) and any(src(x.value).endswith(".mixture.relative_mass") and isinstance(x.extra, ast.Add) for x in augs)
    res.ob(rule, fi, "remainder-definition", "the inferred percentage is 100 − Σ of the percentages given", d.stmt, ok, f"{w} = {src(d.value)}; Σ accumulated from {[src(x.value) for x in augs]}")
    # branch: exactly one component lacks a percentage
    conds = cfg.guard_exprs(d.nid)
    can = Canon()
    f = ("and", [can.formula(t, pol) for t, pol in conds])
    # counter name
    cnt = None
    for t, _ in conds:
        for nme in ast.walk(t):
            if isinstance(nme, ast.Name) and nme.id not in (M,) and flow.is_local(nme.id):
                cnt = nme.id
    want = can.formula(parse_expr(f"{cnt} == len({M}) - 1")) if cnt else None
    ok = want is not None and equivalent(f, want)[0]
    res.ob(rule, fi, "remainder-branch", "the remainder is inferred exactly when one component lacks a percentage", d.stmt, ok, f"guard {[src(t) for t, _ in conds]}")
    # counter counts the components that have a percentage
    caugs = [x for x in flow.defs if x.name == cnt and x.kind == "aug"]
    ok = False
    for x in caugs:
        g = [src(t) for t, pol in cfg.guard_exprs(x.nid) if pol]
        if any("relative_mass is not None" in s_ for s_ in g) and isinstance(x.value, ast.Constant) and x.value.value == 1:
            ok = True
    res.ob(rule, fi, "percentage-counter", "the counter counts the components whose percentage is given", fi.node, ok, f"{len(caugs)} increment(s)")
    # assignment of the remainder to the components lacking one
    sets = [n for n in own_nodes(fi.node) if isinstance(n, ast.Assign) and isinstance(n.targets[0], ast.Attribute) and n.targets[0].attr == "relative_mass"
            and isinstance(n.value, ast.Name) and n.value.id == w]
    ok = len(sets) == 1
    why = f"{len(sets)} assignment(s) of the remainder"
    if ok:
        n = sets[0]
        g = cfg.guard_exprs(cfg.node_of(n))
        inner = [src(t) for t, pol in g if pol]
        ok = any(s_.endswith(".mixture.relative_mass is None") for s_ in inner) and any(isinstance(l, ast.For) and src(l.iter) == M for l in cfg.enclosing_loops(n))
        why = f"guards {inner}"
        ok = ok and cfg.must_pass(d.nid, cfg.node_of(n))
    res.ob(rule, fi, "remainder-applied", "the remainder is given to exactly the components without a percentage (all components visited)", sets[0] if sets else fi.node, ok, why)
    mk = [c for c in calls(fi, "Mixture")]
    ok = len(mk) == 1 and w in src(mk[0]) and "%" in src(mk[0])
    if ok:
        g = [src(t) for t, pol in cfg.guard_exprs(cfg.node_of(mk[0])) if pol]
        ok = any(s_.endswith(".mixture is None") for s_ in g)
    res.ob(rule, fi, "remainder-creates-mixture", "a component without any specifier receives a percentage specifier with the remainder", mk[0] if mk else fi.node, ok)


def propagate(eng, res, rule="R-SYSMASS-PROPAGATE"):
    fi = eng.prog.func("system._estimate_system_molecular_weight")
    flow = eng.flow(fi)
    cfg = flow.cfg
    M = fi.params[0]
    rets = [n for n in own_nodes(fi.node) if isinstance(n, ast.Return)]
    true_rets = [r for r in rets if isinstance(r.value, ast.Constant) and r.value.value is True]
    false_rets = [r for r in rets if isinstance(r.value, ast.Constant) and r.value.value is False]
    res.ob(rule, fi, "return-shape", "the inference returns True (generable) or False (under-determined), nothing else", fi.node,
           len(true_rets) == 1 and len(false_rets) >= 1 and len(true_rets) + len(false_rets) == len(rets), f"{len(true_rets)} True / {len(false_rets)} False / {len(rets)} total")
    stores = [n for n in own_nodes(fi.node) if isinstance(n, ast.Assign) and isinstance(n.targets[0], ast.Attribute) and n.targets[0].attr == "system_mass"]
    ok = len(stores) == 1 and len(true_rets) == 1
    why = f"{len(stores)} store(s) of system_mass"
    if ok:
        st = stores[0]
        loops = [l for l in cfg.enclosing_loops(st) if isinstance(l, ast.For)]
        ok = bool(loops) and src(loops[0].iter) == M and isinstance(loops[0].target, ast.Name) and src(st.targets[0]) == f"{loops[0].target.id}.mixture.system_mass"
        why = f"store {src(st)[:60]} in loop over {src(loops[0].iter) if loops else None}"
        if ok:
            lp = loops[0]
            hn = cfg.node_of(lp)
            sn = cfg.node_of(st)
            rn = cfg.node_of(true_rets[0])
            # the True return is reached only through the loop's exhaustion; every completed iteration stores
            ok = cfg.must_pass(hn, rn) and not cfg.enclosing_loops(true_rets[0])
            starts = [d for d, l in cfg.succ[hn] if l == "T"]
            r = cfg.reachable(starts, avoid_nodes={sn})
            if hn in r:
                ok = False
                why = "an iteration can complete without assigning the system mass (some component skipped)"
            # same value for all: a single definition outside the loop
            v = st.value
            if ok and isinstance(v, ast.Name):
                defs = flow.reaching(v.id, sn)
                ok = len(defs) == 1 and not cfg.enclosing_loops(defs[0].stmt)
                why = f"value {v.id} has {len(defs)} definition(s)"
                if ok:
                    t = src(flow.expand_ssa(v, sn))
                    ok = t.endswith("[0]")
                    why = f"system mass = {t}"
    res.ob(rule, fi, "propagate-to-all", "on the generable path every component's mixture receives the same estimated system mass before True is returned", stores[0] if stores else fi.node, ok, why)
    # False returns: no estimate at all / a component without specifier
    kinds = []
    for r in false_rets:
        rn = cfg.node_of(r)
        in_handler = any(isinstance(p, ast.ExceptHandler) for p in _ancestors(r))
        g = [src(t) for t, pol in cfg.guard_exprs(rn) if pol]
        if in_handler:
            kinds.append("no-estimate")
        elif any(s_.endswith(".mixture is None") for s_ in g):
            kinds.append("component-unspecified")
        else:
            kinds.append("other:" + ";".join(g))
    res.ob(rule, fi, "underdetermined-paths", "not generable exactly when no system mass can be estimated or a component has no specifier", fi.node,
           sorted(kinds) == ["component-unspecified", "no-estimate"], f"False returned under: {kinds}")
    # sources of estimates
    apps = [c for c in calls(fi, "append")]
    from ..lits import guard_lits

    srcs = {}
    for c in apps:
        srcs[src(c.args[0])] = guard_lits(flow, c)
    ok = any(k == fi.params[1] for k in srcs) and any(k.endswith(".mixture.system_mass") for k in srcs)
    # whether a source counts as an estimate never depends on the estimates collected so far (each is cross-checked)
    lst = {src(c.func.value) for c in apps}
    dep = [k for k, L in srcs.items() if any(any(f"Name('{x}')" in str(l) for x in lst) for l in L)]
    ok = ok and len(lst) == 1 and not dep
    tm = [k for k in srcs if not k.endswith("system_mass") and k != fi.params[1]]
    ok2 = len(tm) == 1 and any(l[0] == "num" and l[2] == "==" and l[3] == 0 and "Name('len')" in l[1] and f"Name('{M}')" in l[1] for l in srcs[tm[0]])
    res.ob(rule, fi, "estimate-sources", "estimates: the caller's system mass, each component's system mass, and the sum of absolute masses only when every component has one",
           fi.node, ok and ok2, f"sources {sorted(srcs)}" + (f"; inclusion of {dep} depends on the estimates already collected" if dep else ""))


def _ancestors(n):
    n = getattr(n, "_parent", None)
    while n is not None:
        yield n
        n = getattr(n, "_parent", None)


def check(eng, res):
    res.doc("R-MASS-ALGEBRA", "A-ALG: the three derived assignments of the linked setters are the one relation 100·absolute = relative·system")
    res.doc("R-REMAINDER", "remainder = 100 − Σ given, inferred exactly when one component lacks a percentage, given to exactly those components")
    res.doc("R-SYSMASS-PROPAGATE", "generable path assigns the same system mass to every component; the two under-determined paths return False")
    res.doc("R-GUARD-INVENTORY", "range / consistency guards of Mixture and of the system-mass inference (decided as in C15)")
    n = mass_algebra(eng, res)
    res.floor("R-MASS-ALGEBRA", n, 3)
    remainder(eng, res)
    propagate(eng, res)
    from ..memo import memo_rules

    memo_rules(eng, res, only_classes=["Mixture", "System", "Molecule"], only_modules=["mixture", "system", "molecule"])
    roles = [r for r in c15.ROLES if r[0].startswith(("mix-", "sys-remainder", "sys-sum", "sys-inconsistent"))]
    k = c15.check_roles(eng, res, roles)
    res.floor("R-GUARD-INVENTORY", k, 8)
    from . import c01 as _c01

    res.doc("R-PRINT-EXACT", "mixture numbers are written into notation text with full precision (shared with C01)")
    _c01.print_exact(eng, res)
    res.assumptions += ["float arithmetic is treated as exact field arithmetic in the algebraic normal form"]
    res.not_decided += ["the values for all assignments of {absolute, percent, unspecified}", "preservation of the user's numbers on every path", "re-parse of printed masses (C01)"]
