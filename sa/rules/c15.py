"""C15 — ill-formed notation and misuse are rejected; parsing terminates (structural part)."""
from __future__ import annotations

import ast

from ..formula import Canon, equivalent, implies, parse_expr, satisfiable
from ..guards import Rejections, returns_true_formula
from ..loader import AnalysisError, norm, own_nodes, src
from .. import stridx
from ..util import calls

LEVEL = "other"


def S(*needles):
    """placeholder constraint: printed term contains all needles"""
    return lambda t: all(n in src(t) for n in needles)


def attr(name):
    return lambda t: isinstance(t, ast.Attribute) and t.attr == name


def name(n=None):
    return lambda t: isinstance(t, ast.Name) and (n is None or t.id == n)


def call(fn, nargs=None):
    def p(t):
        if not isinstance(t, ast.Call):
            return False
        f = t.func
        nm = f.attr if isinstance(f, ast.Attribute) else getattr(f, "id", None)
        return nm == fn and (nargs is None or len(t.args) == nargs)

    return p


def eps(t):
    return isinstance(t, ast.Constant) and isinstance(t.value, float) and 0 < t.value <= 1e-3


RAW = attr("_raw_text")
# the remainder after the *first* bar that closes the specifier opened by '.|' (forward search, never rfind)
AFTER_FIRST_BAR = __import__("re").compile(r"^(?P<T>.+)\[(?P=T)\.find\('\|', (?P=T)\.find\('\.\|'\) \+ [23]\) \+ 1:\]\.strip\(\)$")

# (role id, function, mode, expected rejection predicate, placeholders, what is rejected)
ROLES = [
    # ---- bond descriptor syntax
    ("bd-outer-brackets", "bond.BondDescriptor.__init__", "implies",
     "S != '[]' and (S[0] != '[' or S[-1] != ']')", {"S": RAW}, "descriptor text not enclosed in [ ]"),
    ("bd-symbol", "bond.BondDescriptor.__init__", "implies",
     "S != '[]' and S[1] not in ('$', '<', '>')", {"S": RAW}, "descriptor symbol not one of $ < >"),
    ("bd-nested-bracket", "bond.BondDescriptor.__init__", "implies",
     "S != '[]' and ('[' in I or ']' in I)", {"S": RAW, "I": lambda t: isinstance(t, ast.Subscript) and isinstance(t.slice, ast.Slice)},
     "bracket inside the id part"),
    ("bd-bar-count", "bond.BondDescriptor.__init__", "implies",
     "S != '[]' and '|' in S and S.count('|') != 2", {"S": RAW}, "number of '|' different from 2"),
    ("bd-stereo", "bond.BondDescriptor.__init__", "implies",
     "S != '[]' and ('@' in P or '/' in P or '\\\\' in P)", {"S": RAW, "P": attr("preceding_characters")},
     "stereo characters in front of a descriptor"),
    # ---- token
    ("tok-negative-offset", "token.SmilesToken.__init__", "implies", "int(B) < 0", {"B": name()}, "negative bond id offset"),
    ("tok-unbalanced", "token.SmilesToken.__init__", "implies", "T.count('(') != T.count(')')", {"T": name()},
     "unbalanced branch parentheses"),
    ("tok-unclosed-bracket", "token.SmilesToken.__init__", "site", "C[0] == '[' and C.find(']') < 0", {"C": name()},
     "'[' without closing ']'"),
    ("tok-descr-no-open", "token.SmilesToken.__init__", "site",
     "('$' in E or '<' in E or '>' in E) and E.find('[') < 0", {"E": None}, "descriptor symbol outside brackets"),
    ("tok-descr-no-close", "token.SmilesToken.__init__", "site",
     "('$' in E or '<' in E or '>' in E) and E.find('[') >= 0 and E.find(']') <= 0", {"E": None},
     "descriptor without closing bracket"),
    ("tok-dot-before-descr", "token.SmilesToken.__init__", "site", "'.' in A", {"A": S("[:", "find('[')")},
     "'.' directly before a bond descriptor"),
    ("tok-two-atoms", "token.SmilesToken.__init__", "site",
     "I != 0 and I != len(L) - 1 and ')' not in B and '.' not in B", {"I": name(), "L": name(), "B": S("find(']') + 1:")},
     "bond descriptor between two atoms (would bond to both)"),
    # ---- atom
    ("atom-unparsable", "atom.Atom.__init__", "implies", "M is None", {"M": S("MolFromSmiles")}, "atom text RDKit cannot parse"),
    ("atom-not-single", "atom.Atom.__init__", "implies", "len(G) != 1", {"G": S("GetAtoms")}, "text with other than one atom"),
    # ---- stochastic object
    ("sto-open-brace", "stochastic.Stochastic.__init__", "implies", "S[0] != '{'", {"S": RAW}, "no leading '{'"),
    ("sto-close-brace", "stochastic.Stochastic.__init__", "implies", "S.rfind('}') < 0", {"S": RAW}, "no '}'"),
    ("sto-single-terminal", "stochastic.Stochastic.__init__", "implies", "X == '}'", {"X": S("find(']') + 1]")},
    "only a single terminal descriptor"),
    ("sto-left-terminal", "stochastic.Stochastic.__init__", "implies", "F <= 0", {"F": lambda t: call("find", 2)(t) and "']'" in src(t)},
     "unterminated left terminal descriptor"),
    ("sto-transition-length", "stochastic.Stochastic._validate", "implies",
     "T is not None and len(T) != len(D)",
     {"T": lambda t: src(t) == "§elem(self.bond_descriptors).transitions", "D": lambda t: src(t) == "self.bond_descriptors"},
     "transition list length differs from the number of descriptors of the object"),
    ("sto-bookkeeping", "stochastic.Stochastic._validate", "implies",
     "len(D) != len(E) + len(R)", {"D": attr("bond_descriptors"), "E": attr("end_bonds"), "R": attr("repeat_bonds")},
     "descriptor bookkeeping mismatch"),
    # ---- molecule
    ("mol-text-after-mixture", "molecule.Molecule.__init__", "implies",
     ("T.find('.|') >= 0 and len(E) > 0", "T.find('.|') >= 0 and E != ''", "'.|' in T and len(E) > 0", "'.|' in T and E != ''"), {"T": None, "E": lambda t: AFTER_FIRST_BAR.match(src(t)) is not None}, "text after the mixture specifier"),
    ("mol-connector-descriptor", "molecule.Molecule.__init__", "site",
     "A.descriptor != O.descriptor or A.descriptor_id != O.descriptor_id or A.bond_type != O.bond_type",
     {"A": S("bond_descriptors[0]"), "O": name()},
     "connector token whose first descriptor does not continue the previous terminal"),
    # ---- mixture
    ("mix-leading-dot", "mixture.Mixture.__init__", "implies", "S[0] != '.'", {"S": RAW}, "no leading '.'"),
    ("mix-percent-range", "mixture.Mixture.__init__", "implies", "'%' in S and (V < 0 or V > 100)",
     {"S": RAW, "V": S("float(", "%")}, "percentage outside 0-100"),
    ("mix-negative-mass", "mixture.Mixture.__init__", "implies", "'%' not in S and V < 0",
     {"S": RAW, "V": lambda t: call("float")(t) and "%" not in src(t)}, "negative absolute mass"),
    ("mix-set-percent-range", "mixture.Mixture.relative_mass.setter", "implies", "F < 0 or F > 100", {"F": name()},
     "setter: percentage outside 0-100"),
    ("mix-set-negative-system", "mixture.Mixture.system_mass.setter", "implies", "M < 0", {"M": name()}, "setter: negative system mass"),
    # ---- system
    ("sys-remainder-range", "system._estimate_system_molecular_weight", "implies",
     "N == len(M) - 1 and (100.0 - T < 0 or 100.0 - T > 100.0)", {"N": name(), "M": name(), "T": name()},
     "inferred remaining percentage outside 0-100"),
    ("sys-sum-100", "system._estimate_system_molecular_weight", "implies",
     "N == len(M) and abs(T - 100) > K_eps", {"N": name(), "M": name(), "T": name(), "K_eps": eps},
     "complete percentages not summing to 100"),
    ("sys-inconsistent-mass", "system._estimate_system_molecular_weight", "site",
     # the pairwise loop over range(len(W) - 1) is empty for fewer than two estimates: the explicit length test is optional
     ("len(W) > 1 and abs(W[i] - W[i + 1]) > K_eps", "abs(W[i] - W[i + 1]) > K_eps",
      "len(W) > 1 and abs(W[i - 1] - W[i]) > K_eps", "abs(W[i - 1] - W[i]) > K_eps"), {"W": name(), "i": lambda t: "§idx" in src(t) or isinstance(t, ast.Name), "K_eps": eps},
     "inconsistent system mass estimates"),
    ("sys-unclosed-mixture", "system.System.__init__", "implies", "T.find('.|') >= 0 and F < 0",
     {"T": name(), "F": lambda t: call("find", 2)(t) and "'|'" in src(t)}, "'.|' without closing '|'"),
    # ---- generation guards
    ("gen-not-generable", "core.BigSMILESbase.generate", "implies", "not G", {"G": attr("generable")}, "generating something not generable"),
    ("gen-prefix-single", "core.BigSMILESbase.generate", "implies", "P and len(P.bond_descriptors) != 1", {"P": name()},
     "prefix with other than one open descriptor"),
    ("sto-missing-prefix", "stochastic.Stochastic.generate.get_start", "implies", "P is None and str(L) != '[]'",
     {"P": name(), "L": attr("left_terminal")}, "no prefix although the left terminal is not []"),
    ("sto-start-group-single", "stochastic.Stochastic.generate.get_start", "implies", "P is None and len(X) != 1",
     {"P": name(), "X": S("end_tokens", ".bond_descriptors")}, "start end group with other than one descriptor"),
    ("sto-prefix-single", "stochastic.Stochastic.generate.get_start", "implies", "P is not None and len(P.bond_descriptors) != 1",
     {"P": name()}, "prefix with other than one descriptor"),
    ("sto-prefix-terminal", "stochastic.Stochastic.generate.get_start", "implies",
     "P is not None and P.bond_descriptors[0].generate_string(False) != L.generate_string(False)",
     {"P": name(), "L": attr("left_terminal")}, "prefix whose open descriptor differs from the left terminal"),
    ("molgen-not-generable", "mol_gen.MolGen.__init__", "implies", "not G", {"G": attr("generable")}, "fragment of a non-generable token"),
    ("attach-self-index", "mol_gen.MolGen.attach_other", "implies", "I >= len(S.bond_descriptors)", {"I": name(), "S": name("self")},
     "invalid descriptor index (self)"),
    ("attach-other-index", "mol_gen.MolGen.attach_other", "implies", "I >= len(O.bond_descriptors)",
     {"I": name(), "O": lambda t: isinstance(t, ast.Name) and t.id != "self"}, "invalid descriptor index (other)"),
    ("attach-incompatible", "mol_gen.MolGen.attach_other", "implies", "not C", {"C": call("is_compatible")}, "incompatible descriptor pair"),
    ("sys-generator-generable", "system.System.generator", "implies", "not G", {"G": lambda t: src(t) == "self.generable"},
     "ensemble from a non-generable system"),
    ("sys-generator-complete", "system.System.generator", "site", "not G", {"G": attr("fully_generated")}, "incomplete molecule in an ensemble"),
    ("sys-generate-generable", "system.System.generate", "implies", "not G", {"G": lambda t: src(t) == "self.generable"},
     "single generation from a non-generable system"),
    ("sys-generate-complete", "system.System.generate", "site", "not G", {"G": attr("fully_generated")}, "incomplete molecule returned"),
    ("ff-partial-molecule", "mol_gen.MolGen.get_forcefield_types", "implies", "not G", {"G": attr("fully_generated")},
     "typing a partially generated molecule"),
    ("ff-incomplete-assignment", "forcefield_helper.SMARTS_ASSIGNMENTS.get_type_assignments", "implies",
     "len(D) != M.GetNumAtoms()", {"D": name(), "M": name()}, "not every atom typed"),
]

DIST_FAMILIES = ["FlorySchulz", "SchulzZimm", "Gauss", "Uniform", "LogNormal", "Poisson"]


def check_roles(eng, res, roles, rule="R-GUARD-INVENTORY"):
    cache = {}
    n = 0
    for rid, fq, mode, expected, ph, what in roles:
        fi = eng.prog.func(fq)
        res.unit(fi)
        rej = cache.get(fq)
        if rej is None:
            rej = cache[fq] = Rejections(eng, fi)
        alts = expected if isinstance(expected, tuple) else (expected,)
        for expected in alts:
            if mode == "implies":
                ok, binding, detail = rej.rejects(expected, ph)
                node = fi.node
            else:
                ok, binding, detail, site = rej.site_match(expected, ph)
                node = site.node if site is not None else fi.node
            if ok:
                break
        expected = alts[0]
        n += 1
        res.ob(rule, fi, f"role:{rid}", f"rejects: {what} [{expected}]", node, ok,
               f"no live raising guard with this meaning: {detail}" if not ok else "")
    return n


def dist_startswith_roles(eng):
    roles = []
    for cname in DIST_FAMILIES:
        ci = eng.prog.cls(cname)
        init = ci.method("__init__")
        if init is None:
            raise AnalysisError(f"{cname}.__init__ not found")
        kw = family_keyword(eng, ci)
        roles.append((f"dist-startswith-{kw}", init.qualname, "implies", f"not S.startswith({kw!r})", {"S": RAW},
                      f"{cname} built from text not starting with '{kw}'"))
    return roles


def family_keyword(eng, ci) -> str:
    """keyword printed by the family's generate_string (head of its extension template)."""
    gs = ci.method("generate_string")
    if gs is None:
        raise AnalysisError(f"{ci.name}.generate_string not found")
    for n in own_nodes(gs.node):
        if isinstance(n, ast.JoinedStr) and n.values and isinstance(n.values[0], ast.Constant):
            head = str(n.values[0].value)
            if head.startswith("|"):
                kw = head[1:].split("(")[0].split("{")[0]
                if kw:
                    return kw
        if isinstance(n, ast.Constant) and isinstance(n.value, str) and n.value.startswith("|") and len(n.value) > 2:
            return n.value[1:].split("(")[0]
    raise AnalysisError(f"cannot read the keyword printed by {ci.name}.generate_string")


def unknown_reject(eng, res, rule="R-UNKNOWN-REJECT"):
    fi = eng.prog.func("distribution.get_distribution")
    res.unit(fi)
    flow = eng.flow(fi)
    cfg = flow.cfg
    bad = []
    n = 0
    for p, _ in cfg.pred[cfg.exit]:
        st = cfg.nodes[p].stmt
        n += 1
        if not (isinstance(st, ast.Return) and st.value is not None):
            bad.append(f"line {getattr(st, 'lineno', '?')}: function can end without returning a distribution")
            continue
        v = flow.expand(st.value, p)
        tg = eng.resolve_call(fi, v) if isinstance(v, ast.Call) else []
        if not any(hasattr(t, "name") and t.name in eng.prog.classes and eng.prog.is_subclass(eng.prog.classes[t.name], "Distribution") for t in tg):
            bad.append(f"line {st.lineno}: returns {src(st.value)[:40]}, not a Distribution family instance")
    res.ob(rule, fi, "fallthrough-raises", "every normal exit returns a family instance selected by a name test; otherwise it raises",
           fi.node, not bad and n >= 1, "; ".join(bad))
    # every return is control dependent on at least one name test
    for p, _ in cfg.pred[cfg.exit]:
        st = cfg.nodes[p].stmt
        g = cfg.guard_exprs(p)
        pos = [t for t, pol in g if pol]
        res.ob(rule, fi, f"return-guarded:{src(st.value)[:30] if getattr(st, 'value', None) is not None else 'none'}",
               "a family is returned only under a positive name test", st, bool(pos), "unconditional return (default family)")


# ---------------------------------------------------------------------- termination of cursor loops

PARSER_FUNCS = [
    "system.System.__init__",
    "molecule.Molecule.__init__",
    "token.SmilesToken.__init__",
    "stochastic.Stochastic.__init__",
    "bond.BondDescriptor.__init__",
    "mixture.Mixture.__init__",
    "token._push_pop_atom_branch",
    "distribution.get_distribution",
    "atom.Atom.__init__",
]


def cursor_progress(eng, res, rule="R-CURSOR-PROGRESS"):
    n_loops = 0
    for fq in PARSER_FUNCS:
        fi = eng.prog.func_opt(fq)
        if fi is None:
            continue
        res.unit(fi)
        for node in own_nodes(fi.node):
            if isinstance(node, ast.While):
                n_loops += 1
                ok, why, kind = stridx.loop_progress(eng, fi, node)
                res.ob(rule, fi, f"while:{kind}:{stridx.loop_key(node)}", f"every path through the loop body makes progress ({kind})",
                       node, ok, why)
    # all Distribution constructors have no loops at all
    return n_loops


# ---------------------------------------------------------------------- generable conjunction


def _returns_false_when_child_not_generable(eng, fi, child_pred, what):
    """A loop `for x in <coll>` (coll satisfying child_pred) whose body returns False when
    `not x.generable`, and which dominates every non-False return."""
    flow = eng.flow(fi)
    cfg = flow.cfg
    loops = []
    for n in own_nodes(fi.node):
        if isinstance(n, ast.For) and child_pred(n.iter):
            # body: if not x.generable: return False
            tgt = n.target.id if isinstance(n.target, ast.Name) else None
            for b in own_nodes(n):
                if isinstance(b, ast.Return) and isinstance(b.value, ast.Constant) and b.value.value is False:
                    conds = cfg.guard_exprs(cfg.node_of(b))
                    for t, pol in conds:
                        c = Canon()
                        try:
                            f = c.formula(t, pol)
                        except AnalysisError:
                            continue
                        want = c.formula(parse_expr(f"not {tgt}.generable"))
                        if tgt and equivalent(f, want)[0]:
                            loops.append(n)
    if not loops:
        return False, f"no loop over {what} that returns False for a non-generable child"
    head = cfg.node_of(loops[0])
    for n in own_nodes(fi.node):
        if isinstance(n, ast.Return) and not (isinstance(n.value, ast.Constant) and n.value.value is False):
            if not cfg.must_pass(head, cfg.node_of(n)):
                return False, f"return at line {n.lineno} can be reached without visiting {what}"
    return True, ""


def _attr_guard_false(eng, fi, expected_src, placeholders, what):
    """`if <expected>: return False` dominating every non-False return."""
    flow = eng.flow(fi)
    cfg = flow.cfg
    exp = parse_expr(expected_src)
    found = None
    for n in own_nodes(fi.node):
        if isinstance(n, ast.Return) and isinstance(n.value, ast.Constant) and n.value.value is False:
            conds = cfg.guard_exprs(cfg.node_of(n))
            if not conds:
                continue
            c = Canon()
            try:
                f = ("and", [c.formula(flow.expand_shallow(t, cfg.node_of(getattr(t, "_parent"))), pol) for t, pol in conds])
                want = c.formula(exp)
            except AnalysisError:
                continue
            if equivalent(f, want)[0]:
                found = n
            elif found is None and satisfiable(want) and implies(want, f)[0]:
                # the role's case is one of several that share this `return False` (`if A or B: return False`)
                found = n
    if found is None:
        return False, f"no `return False` under {expected_src} ({what})"
    # the outermost test guarding that return must dominate every non-False return
    tn = min(g for g, _ in cfg.guards(cfg.node_of(found)) if isinstance(cfg.nodes[g].stmt, ast.If))
    for n in own_nodes(fi.node):
        if isinstance(n, ast.Return) and not (isinstance(n.value, ast.Constant) and n.value.value is False):
            if not cfg.must_pass(tn, cfg.node_of(n)):
                return False, f"return at line {n.lineno} bypasses the test of {what}"
    return True, ""


def generable_conj(eng, res, rule="R-GENERABLE-CONJ"):
    prog = eng.prog
    # BondDescriptor.generable == weight >= 0
    fi = prog.cls("BondDescriptor").method("generable")
    if fi is None:
        raise AnalysisError("BondDescriptor.generable not found")
    res.unit(fi)
    c = Canon()
    f = returns_true_formula(eng, fi, c)
    want = c.formula(parse_expr("self.weight >= 0"))
    ok = equivalent(f, want)[0]
    res.ob(rule, fi, "descriptor-weight", "a bond descriptor is generable iff its weight is >= 0 (negative weight = not generable)", fi.node, ok,
           "returned expression is not equivalent to `self.weight >= 0`")

    def coll(*names):
        def p(it):
            t = src(it)
            return all(f"self.{nm}" in t for nm in names)

        return p

    spec = [
        ("SmilesToken", [("loop", coll("bond_descriptors"), "its bond descriptors")]),
        ("Stochastic", [
            ("loop", coll("bond_descriptors"), "its bond descriptors"),
            ("loop", coll("repeat_tokens", "end_tokens"), "its repeat and end tokens"),
            ("guard", "self.distribution is None", "missing distribution"),
            ("guard", "self.distribution is not None and not self.distribution.generable", "distribution not generable"),
        ]),
        ("Molecule", [
            ("loop", coll("_elements"), "its elements"),
            ("guard", "self.mixture is not None and not self.mixture.generable", "mixture not generable"),
        ]),
        ("System", [
            ("loop", coll("_molecules"), "its molecules"),
            ("guard", "not self._generable", "system mass not determined"),
        ]),
    ]
    for cname, items in spec:
        fi = prog.cls(cname).method("generable")
        if fi is None:
            raise AnalysisError(f"{cname}.generable not found")
        res.unit(fi)
        for it in items:
            if it[0] == "loop":
                ok, why = _returns_false_when_child_not_generable(eng, fi, it[1], it[2])
                res.ob(rule, fi, f"children:{it[2]}", f"{cname} is not generable as soon as one of {it[2]} is not", fi.node, ok, why)
            else:
                ok, why = _attr_guard_false(eng, fi, it[1], {}, it[2])
                res.ob(rule, fi, f"guard:{it[2]}", f"{cname} is not generable when: {it[2]}", fi.node, ok, why)
    # System._generable holds the result of the system-mass inference
    init = prog.func("system.System.__init__")
    stores = [n for n in own_nodes(init.node) if isinstance(n, ast.Assign) and any(
        isinstance(t, ast.Attribute) and t.attr == "_generable" for t in n.targets)]
    ok = len(stores) == 1 and isinstance(stores[0].value, ast.Call) and any(
        getattr(t, "name", "") == "_estimate_system_molecular_weight" for t in eng.resolve_call(init, stores[0].value))
    res.ob(rule, init, "system-flag-source", "the system's own flag is the result of the system-mass inference", init.node, ok,
           f"{len(stores)} store(s) to _generable")


# validations that live in a helper are worth something only if the helper runs: (helper, the function that must run it, how)
REACHED = [
    ("stochastic.Stochastic._validate", "stochastic.Stochastic.__init__", "every normal exit of the constructor"),
    ("system._estimate_system_molecular_weight", "system.System.__init__", "every normal exit of the constructor"),
    ("stochastic.Stochastic.generate.get_start", "stochastic.Stochastic.generate", "every normal exit of generate"),
    ("core.BigSMILESbase.generate", "stochastic.Stochastic.generate", "every normal exit of generate"),
    ("core.BigSMILESbase.generate", "token.SmilesToken.generate", "every normal exit of generate"),
]


def guards_reached(eng, res, rule="R-GUARD-REACHED"):
    """A rejection role held by a helper (R-GUARD-INVENTORY looks inside the helper) rejects anything only if the helper is
    executed: every path from the entry of the owning constructor / generate to a normal exit passes a call of it."""
    res.doc(rule, "helpers that hold rejection roles are called on every path to a normal exit of the constructor / generate that relies on them")
    n = 0
    for helper_q, owner_q, what in REACHED:
        owner = eng.prog.func(owner_q)
        helper = eng.prog.func(helper_q)
        res.unit(owner)
        fl = eng.flow(owner)
        cfg = fl.cfg
        sites = set()
        for c in calls(owner):
            if any(t is helper for t in eng.repo_callees(owner, c)):
                try:
                    sites.add(cfg.node_of(c))
                except AnalysisError:
                    pass
        ok = bool(sites) and cfg.must_pass_any(sites, cfg.exit)
        n += 1
        res.ob(rule, owner, f"reached:{helper_q.split('.', 1)[-1]}<-{owner_q.split('.', 1)[-1]}", f"{helper.name} (holds rejection roles) runs before {what}", owner.node, ok,
               ("no call of the helper" if not sites else "a normal exit is reachable without passing the call") + f": the rejections it holds never happen")
    return n


def check(eng, res):
    res.doc("R-GUARD-INVENTORY", "each rejection role: a live raising guard whose path condition is implied by (implies) / equal to (site) the role's predicate, decided by exhaustive valuation of canonical atoms")
    res.doc("R-UNKNOWN-REJECT", "get_distribution cannot end without returning a family instance chosen by a positive name test")
    res.doc("R-CURSOR-PROGRESS", "every while loop of the parser makes progress on every path through its body (cursor strictly shrinks / counter moves)")
    res.doc("R-GENERABLE-CONJ", "generable is the conjunction over children; negative weight => not generable")
    roles = list(ROLES) + dist_startswith_roles(eng)
    n = check_roles(eng, res, roles)
    res.floor("R-GUARD-INVENTORY", n, 50)
    ng = guards_reached(eng, res)
    res.floor("R-GUARD-REACHED", ng, 5)
    unknown_reject(eng, res)
    # an unknown name that merely *begins* like a known one (`gaussian(…)`) is rejected only because the parameter reader is
    # handed everything that follows the keyword: a reader that searches for the parenthesis accepts it (shared with C09)
    from . import c09 as _c09

    res.doc("R-DIST-NAME", "the parameter reader of every family gets the text directly after the keyword (nothing between name and parameters is skipped)")
    _sub = type(res)(res.prop)
    _c09.param_order(eng, _sub, rule="R-DIST-NAME")
    nw = 0
    for _o in _sub.obligations:
        if _o.role.endswith(":text-window"):
            res.obligations.append(_o)
            nw += 1
    res.floor("R-DIST-NAME", nw, 6)
    nl = cursor_progress(eng, res)
    res.floor("R-CURSOR-PROGRESS", nl, 5)
    generable_conj(eng, res)
    # information: dead guard whose case is rejected by the callee
    mol = eng.prog.func("molecule.Molecule.__init__")
    rej = Rejections(eng, mol)
    from ..formula import satisfiable

    for s in rej.sites:
        if not satisfiable(s.formula):
            res.info(f"{mol.module.relpath}:{s.node.lineno} raise is unreachable (dead guard); the case it was written for "
                     f"(missing '}}') is still rejected because Stochastic('') must raise on its first subscript — see R-CURSOR-PROGRESS")
    res.assumptions += [
        "an explicit `raise` reached under the role's predicate is the rejection (exception type not constrained)",
        "site-mode roles (deep scanner states) trust the outer path conditions as context; their satisfiability is checked",
    ]
    res.not_decided += [
        "that every ill-formed string is caught (acceptance set of the hand-written scanner is not characterised)",
        "termination of the token constructor's element-rewriting loop beyond 'the counter advances on every path'",
        "wall-clock bounds",
    ]
