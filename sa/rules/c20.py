"""C20 — force-field typing: cache / argument roles, refusal of partial molecules, hydrogens, dedicated error, defaults."""
from __future__ import annotations

import ast
import os

from ..effects import Effects
from ..guards import Rejections
from ..loader import AnalysisError, norm, own_nodes, src
from ..util import callee_name, calls, kwarg

LEVEL = "other"


def ff_role(eng, res, rule="R-FF-ROLE"):
    f = eng.prog.func("forcefield_helper.get_assignment_class")
    res.unit(f)
    flow = eng.flow(f)
    cfg = flow.cfg
    p_rules, p_nb = f.params[0], f.params[1]
    # assignments of module variables on the miss path
    assigns = {}
    for n in own_nodes(f.node):
        if isinstance(n, ast.Assign) and len(n.targets) == 1 and isinstance(n.targets[0], ast.Name) and n.targets[0].id in flow.globals_declared:
            assigns.setdefault(n.targets[0].id, []).append(n)
    # which global holds which parameter (last assignment wins)
    holds = {}
    for g, ns in assigns.items():
        last = ns[-1]
        if isinstance(last.value, ast.Name) and last.value.id in (p_rules, p_nb):
            holds[g] = last.value.id
    # the constructor call
    ctor = [c for c in calls(f) if any(getattr(t, "name", "") == "SMARTS_ASSIGNMENTS" for t in eng.resolve_call(f, c))]
    ok = len(ctor) == 1
    why = f"{len(ctor)} constructor call(s)"
    if ok:
        c = ctor[0]
        at = cfg.node_of(c)
        roles = []
        for a in c.args[:2]:
            t = flow.expand_names(a, at)
            s_ = src(t)
            if isinstance(t, ast.Name) and t.id in (p_rules, p_nb):
                roles.append(t.id)
            elif isinstance(a, ast.Name) and a.id in holds and _assigned_before(cfg, assigns[a.id][-1], c):
                roles.append(holds[a.id])
            else:
                roles.append(f"?{s_}")
        ok = roles == [p_rules, p_nb]
        why = f"constructor receives (rule file ← {roles[0] if roles else None}, parameter file ← {roles[1] if len(roles) > 1 else None})"
    res.ob(rule, f, "constructor-roles", "the assignment class is built with the rule file name first and the parameter file name second, each from its own parameter", ctor[0] if ctor else f.node, ok, why)
    # cache key comparisons
    cmps = []
    for n in own_nodes(f.node):
        if isinstance(n, ast.Compare) and len(n.ops) == 1 and isinstance(n.ops[0], (ast.NotEq, ast.Eq)):
            l, r = n.left, n.comparators[0]
            names = {x.id for x in (l, r) if isinstance(x, ast.Name)}
            if names & {p_rules, p_nb} and names & flow.globals_declared:
                prm = (names & {p_rules, p_nb}).pop()
                glb = (names & flow.globals_declared).pop()
                cmps.append((prm, glb, n))
    seen_params = set()
    for prm, glb, n in cmps:
        seen_params.add(prm)
        ok = holds.get(glb) == prm
        res.ob(rule, f, f"cache-key:{prm}", "a cache-key comparison pairs a parameter with the module variable that is assigned from that very parameter on the miss path", n, ok,
               f"{prm} is compared with {glb}, which " + (f"is assigned from {holds[glb]}" if glb in holds else "is never assigned"))
    for prm, glb, n in cmps:
        stale = []
        for d in flow.reaching(prm, cfg.node_of(n)):
            if d.kind == "param":
                continue
            reads = {x.id for x in ast.walk(d.value) if isinstance(x, ast.Name)} if d.value is not None else {"?"}
            if reads & flow.globals_declared or d.value is None:
                stale.append(f"line {d.stmt.lineno}: {src(d.stmt)[:60]}")
        res.ob(rule, f, f"cache-key-own-argument:{prm}", "what is compared with the cached name is the caller's argument, not a value taken from the cache's own state (earlier calls)", n, not stale,
               "; ".join(stale))
    res.ob(rule, f, "cache-key-complete", "both file names are part of the cache key", f.node, seen_params == {p_rules, p_nb}, f"compared parameters: {sorted(seen_params)}")
    # the miss path stores the new object and it is what is returned
    obj = [g for g, ns in assigns.items() if any(isinstance(x.value, ast.Call) for x in ns)]
    rets = [r for r in own_nodes(f.node) if isinstance(r, ast.Return)]
    ok = len(obj) == 1 and len(rets) == 1 and src(rets[0].value) == obj[0]
    res.ob(rule, f, "returns-cached-object", "the (re)built object is stored in the cache variable that is returned", f.node, ok)
    # the test `is None` covers the first call
    ok = any(isinstance(n, ast.Compare) and isinstance(n.ops[0], ast.Is) and isinstance(n.left, ast.Name) and obj and n.left.id == obj[0] for n in own_nodes(f.node))
    res.ob(rule, f, "first-call", "the first call (empty cache) builds the object", f.node, ok)
    # constructor of the assignment class: each reader gets its own file name
    init = eng.prog.func("forcefield_helper.SMARTS_ASSIGNMENTS.__init__")
    res.unit(init)
    cs = {callee_name(c): [src(a) for a in c.args] for c in calls(init)}
    ok = cs.get("_read_smarts_rules") == [init.params[1]] and cs.get("_read_nb_param") == [init.params[2]]
    fl = eng.flow(init)
    order = [callee_name(c) for c in calls(init)]
    ok = ok and order.index("_read_smarts_rules") < order.index("_read_nb_param") if ok else False
    res.ob(rule, init, "readers-roles", "the rule reader gets the rule file name, the parameter reader the parameter file name (rules first: parameters are filtered by the known types)", init.node, ok, f"{cs}")


def _assigned_before(cfg, assign_stmt, call) -> bool:
    return cfg.must_pass(cfg.node_of(assign_stmt), cfg.node_of(call))


def ff_guards(eng, res, rule="R-FF-GUARDS"):
    f = eng.prog.func("mol_gen.MolGen.get_forcefield_types")
    res.unit(f)
    flow = eng.flow(f)
    cfg = flow.cfg
    rej = Rejections(eng, f)
    ok, _, detail = rej.rejects("not G", {"G": lambda t: src(t) == "self.fully_generated"})
    typing = calls(f, "get_type_assignments")
    dom = False
    if ok and len(typing) == 1:
        for s in rej.sites:
            for t, pol in s.conds:
                if "fully_generated" in src(t):
                    dom = cfg.must_pass(cfg.node_of(getattr(t, "_parent")), cfg.node_of(typing[0]))
    res.ob(rule, f, "partial-refused", "a partially generated molecule is refused before any typing happens", f.node, ok and dom, detail)
    okh = False
    why = f"{len(typing)} typing call(s)"
    if len(typing) == 1:
        a = flow.expand_names(typing[0].args[0], cfg.node_of(typing[0]))
        okh = src(a) == "Chem.AddHs(self.mol)"
        why = f"typed molecule: {src(a)}"
        recv = flow.expand_names(typing[0].func.value, cfg.node_of(typing[0]))
        okh = okh and src(recv).startswith("get_assignment_class(") and [src(x) for x in recv.args] == [f.params[1], f.params[2]]
        why += f"; assigner {src(recv)[:70]}"
    res.ob(rule, f, "hydrogens-added", "the molecule typed is the sanitised copy with hydrogens added, typed by the assigner for the given file names", typing[0] if typing else f.node, okh, why)
    hs = [h for h in own_nodes(f.node) if isinstance(h, ast.ExceptHandler)]
    ok = len(hs) == 1 and src(hs[0].type) == "FfAssignmentError" and any(isinstance(x, ast.Raise) for x in ast.walk(hs[0])) and any(
        isinstance(c, ast.Call) and callee_name(c) == "attach_mol" for c in ast.walk(hs[0]))
    res.ob(rule, f, "error-carries-molecule", "the dedicated error gets the molecule attached and is re-raised", hs[0] if hs else f.node, ok)
    rets = [r for r in own_nodes(f.node) if isinstance(r, ast.Return)]
    ok = len(rets) == 1 and isinstance(rets[0].value, ast.Tuple) and len(rets[0].value.elts) == 2
    res.ob(rule, f, "returns-assignment-and-mol", "the assignment is returned together with the typed molecule", f.node, ok)
    # default entry point
    p = eng.prog.cls("MolGen").method("forcefield_types")
    ok = p is not None and [src(r.value) for r in own_nodes(p.node) if isinstance(r, ast.Return)] in (
        ["self.get_forcefield_types(smarts_filename=None, nb_filename=None)"], ["self.get_forcefield_types(None, None)"], ["self.get_forcefield_types()"])
    res.ob(rule, p or f, "default-entry", "the property uses the bundled files (both names None)", (p or f).node, ok)
    # assignment routine
    g = eng.prog.func("forcefield_helper.SMARTS_ASSIGNMENTS.get_type_assignments")
    res.unit(g)
    rej = Rejections(eng, g)
    ok, _, detail = rej.rejects("len(D) != M.GetNumAtoms()", {"D": lambda t: isinstance(t, ast.Name), "M": lambda t: isinstance(t, ast.Name)})
    exc = [s.exc for s in rej.sites]
    raise_ok = False
    for n in own_nodes(g.node):
        if isinstance(n, ast.Raise) and isinstance(n.exc, ast.Call) and callee_name(n.exc) == "FfAssignmentError":
            raise_ok = len(n.exc.args) >= 1 and isinstance(n.exc.args[0], ast.Name)
            d_name = n.exc.args[0].id if raise_ok else None
    res.ob(rule, g, "incomplete-raises-dedicated-error", "when not every atom got a type the dedicated error is raised, constructed from the partial assignment", g.node, ok and raise_ok, f"{detail}; raises {exc}")
    fl = eng.flow(g)
    rets = [r for r in own_nodes(g.node) if isinstance(r, ast.Return) and r.value is not None]
    ok = len(rets) == 1 and isinstance(rets[0].value, ast.Name) and raise_ok and rets[0].value.id == d_name
    res.ob(rule, g, "returns-complete-assignment", "the dictionary returned is the one whose size was compared with the number of atoms", g.node, ok)
    st = [s for s in own_nodes(g.node) if isinstance(s, ast.Assign) and isinstance(s.targets[0], ast.Subscript) and isinstance(s.targets[0].value, ast.Name) and raise_ok and s.targets[0].value.id == d_name]
    from ..pat import unify as _u

    ok = len(st) == 1 and _u("$F[$A] = self.get_ffparam(self.get_type(self._rule_dict[$M[$A]]))", src(st[0])) is not None
    res.ob(rule, g, "one-parameter-set-per-atom", "each matched atom index receives exactly one parameter set: that of the type of its selected rule", st[0] if st else g.node, ok)
    # history-free: typing does not modify the assigner
    E = Effects(eng)
    eff = [e for e in E.mut.get(g.qualname, set()) if e[0] == "self"]
    res.ob(rule, g, "typing-is-read-only", "a typing call does not modify the assigner (no dependence on earlier typing calls)", g.node, not eff, f"stores: {eff[:3]}")
    for q in ("forcefield_helper.SMARTS_ASSIGNMENTS.get_type", "forcefield_helper.SMARTS_ASSIGNMENTS.get_ffparam"):
        eff = [e for e in E.mut.get(q, set()) if e[0] == "self"]
        res.ob(rule, q, "lookup-is-read-only", "type / parameter look-ups do not modify the assigner", "-", not eff, f"stores: {eff[:3]}")


def ff_defaults(eng, res, rule="R-FF-DEFAULTS"):
    want = {"_read_smarts_rules": "opls.par", "_read_nb_param": "ffnonbonded.itp"}
    for name, fn in want.items():
        f = eng.prog.func(f"forcefield_helper.SMARTS_ASSIGNMENTS.{name}")
        res.unit(f)
        flow = eng.flow(f)
        cfg = flow.cfg
        p = f.params[1]
        st = [n for n in own_nodes(f.node) if isinstance(n, ast.Assign) and isinstance(n.targets[0], ast.Name) and n.targets[0].id == p]
        ok = len(st) == 1 and src(st[0].value) == f"files('gbigsmiles').joinpath('data', '{fn}')" and [(src(t), pol) for t, pol in cfg.guard_exprs(cfg.node_of(st[0]))] == [(f"{p} is None", True)]
        opens = [c for c in calls(f, "open")]
        ok = ok and len(opens) == 1 and src(opens[0].args[0]) == p and cfg.must_pass(cfg.node_of(getattr(st[0], "_parent")), cfg.node_of(opens[0])) if ok else False
        res.ob(rule, f, f"default:{fn}", f"None resolves to the bundled {fn}; an explicit name is opened as given", f.node, ok)
    # package data
    pp = os.path.join(eng.prog.root, "pyproject.toml")
    ok = False
    why = "pyproject.toml not found"
    if os.path.exists(pp):
        txt = open(pp).read()
        ok = "data/opls.par" in txt and "data/ffnonbonded.itp" in txt
        why = "package-data lists both files" if ok else "package-data does not list both bundled files"
    res.ob(rule, "pyproject.toml", "package-data", "both bundled files are shipped as package data", "pyproject.toml", ok, why)
    for fn in want.values():
        ok = os.path.exists(os.path.join(eng.prog.pkgdir, "data", fn)) or not os.path.isdir(os.path.join(eng.prog.pkgdir, "data"))
        res.ob(rule, "package", f"file:{fn}", f"the bundled {fn} exists", f"src/gbigsmiles/data/{fn}", ok)


def ff_type_ids(eng, res, rule="R-FF-TYPE-ID"):
    """rule -> type -> id -> type -> parameters: ids must be injective over types and the two dictionaries inverse."""
    from ..pat import unify
    from .c17 import locate

    f = eng.prog.func("forcefield_helper.SMARTS_ASSIGNMENTS._read_smarts_rules")
    res.unit(f)
    flow = eng.flow(f)
    cfg = flow.cfg
    e, nd = locate(f, ["self._type_dict[$T] = $ID", "self._type_dict_rev[$ID] = $T", "self._rule_dict[$R] = $T"])
    if e is None:
        # setdefault spelling: injective iff the default is the size of the very table being keyed
        sds = [n for n in own_nodes(f.node) if isinstance(n, ast.Assign) and isinstance(n.targets[0], ast.Name) and isinstance(n.value, ast.Call)
               and callee_name(n.value) == "setdefault" and src(n.value.func.value) == "self._type_dict" and len(n.value.args) == 2]
        if len(sds) == 1:
            sdn = sds[0]
            idn, tn = sdn.targets[0].id, src(sdn.value.args[0])
            e_sd, _ = locate(f, [f"self._type_dict_rev[{idn}] = {tn}", f"self._rule_dict[$R] = {tn}"])
            fresh = src(sdn.value.args[1])
            res.ob(rule, f, "tables", "every rule line records type -> id, id -> type (inverse) and rule -> type for the same type", f.node, e_sd is not None)
            res.ob(rule, f, "ids-injective", "a new type gets a fresh id: the size of the very table being keyed (two types never share an id)", sdn, fresh == "len(self._type_dict)",
                   f"fresh ids come from {fresh}, which does not grow with every new type: two types can share an id and the id -> type table is overwritten")
            return
    res.ob(rule, f, "tables", "every rule line records type -> id, id -> type (inverse) and rule -> type for the same type", f.node, e is not None, "statement pattern not found")
    if e is None:
        return
    st = nd["self._type_dict[$T] = $ID"]
    blk = getattr(st, "_parent")
    same_block = all(getattr(nd[p], "_parent") is blk for p in nd)
    res.ob(rule, f, "tables-lockstep", "the three tables are updated together, for every accepted line", st, same_block)
    defs = flow.reaching(e["ID"], cfg.node_of(st))
    kinds = []
    ok = True
    why = ""
    for d in defs:
        v = src(d.value) if d.value is not None else d.kind
        if v == f"self._type_dict[{e['T']}]":
            kinds.append("existing")
        elif v == "len(self._type_dict)":
            kinds.append("fresh:size-of-same-table")
        elif isinstance(d.value, ast.Name) and flow.is_local(d.value.id):
            c = d.value.id
            cdefs = [x for x in flow.defs if x.name == c]
            inits = [x for x in cdefs if x.kind == "assign"]
            incs = [x for x in cdefs if x.kind == "aug"]
            good = len(inits) == 1 and isinstance(inits[0].value, ast.Constant) and not cfg.enclosing_loops(inits[0].stmt) \
                and len(incs) == 1 and isinstance(incs[0].extra, ast.Add) and src(incs[0].value) == "1" \
                and getattr(incs[0].stmt, "_parent") is getattr(d.stmt, "_parent") and cfg.node_of(incs[0].stmt) in cfg.reachable([d.nid])
            kinds.append("fresh:counter" if good else f"counter-not-in-lockstep:{c}")
            ok = ok and good
        else:
            kinds.append(f"other:{v[:40]}")
            ok = False
    ok = ok and "existing" in kinds and any(k.startswith("fresh") for k in kinds) and len(kinds) == 2
    res.ob(rule, f, "ids-injective", "a type keeps its id; a new type gets a fresh id from a counter advanced exactly when it is handed out (or the size of the same table) — two types never share an id",
           st, ok, f"id sources: {kinds}")
    # look-up chain
    g = eng.prog.func("forcefield_helper.SMARTS_ASSIGNMENTS.get_ffparam")
    res.unit(g)
    rets = [src(r.value) for r in own_nodes(g.node) if isinstance(r, ast.Return)]
    res.ob(rule, g, "param-lookup", "parameters are looked up by the type name resolved from the id", g.node, rets == [f"self._type_param[self.get_type({g.params[1]})]"], f"{rets}")
    h = eng.prog.func("forcefield_helper.SMARTS_ASSIGNMENTS.get_type")
    res.unit(h)
    rets = [src(r.value) for r in own_nodes(h.node) if isinstance(r, ast.Return)]
    p1 = h.params[1]
    res.ob(rule, h, "type-lookup", "get_type maps an id to its type name (reverse table first) and a name to its id", h.node,
           rets[:2] == [f"self._type_dict_rev[{p1}]", f"self._type_dict[{p1}]"], f"{rets}")
    # parameter table keyed by type name, only for known types, one record per name with the element's mass column
    nb = eng.prog.func("forcefield_helper.SMARTS_ASSIGNMENTS._read_nb_param")
    res.unit(nb)
    e2, nd2 = locate(nb, ["self._type_param[$L[0]] = FFParam(mass=$M, charge=$C, sigma=$S, epsilon=$E, bond_type_name=$B)", "$M = float($L[3])", "if $L[0] in self._type_dict"])
    res.ob(rule, nb, "param-table", "one parameter record per known type name, its mass read from the mass column of that type's own line", nb.node, e2 is not None)


def ff_rule_verbatim(eng, res, rule="R-FF-RULE-VERBATIM"):
    """The matcher types the atom a rule's pattern matches.  The bundled rules are single-atom recursive environments
    `[$(...)]`, which is what makes the typed atom independent of the numbering; so the pattern text must reach RDKit
    as it stands in the file (field 4, stripped of blanks only) and every stored rule must be tried."""
    rd = eng.prog.func("forcefield_helper.SMARTS_ASSIGNMENTS._read_smarts_rules")
    res.unit(rd)
    fl = eng.flow(rd)
    stores = [n for n in own_nodes(rd.node) if isinstance(n, ast.Subscript) and isinstance(n.ctx, ast.Store) and src(n.value) == "self._rule_dict"]
    ok = len(stores) == 1
    why = f"{len(stores)} store(s) into the rule table"
    if ok:
        k = fl.expand(stores[0].slice, fl.cfg.node_of(stores[0]))
        t = src(k)
        import re

        ok = re.fullmatch(r"§unpack\((.+)\.split\('\|'\), \(3,\)\)\.strip\(\)", t) is not None and "[" not in t.split(".split(")[0].replace("§elem(", "")
        why = f"rule key = {t[:120]}"
    res.ob(rule, rd, "rule-text-verbatim", "a rule's pattern is stored as written in the file (4th field, blanks stripped, nothing cut or rewritten)", stores[0] if stores else rd.node, ok, why)
    g = eng.prog.func("forcefield_helper.SMARTS_ASSIGNMENTS.get_type_assignments")
    res.unit(g)
    gf = eng.flow(g)
    ms = calls(g, "MolFromSmarts")
    ok = len(ms) == 1 and ms[0].args and src(gf.expand(ms[0].args[0], gf.cfg.node_of(ms[0]))) == "§elem(self._rule_dict)"
    res.ob(rule, g, "pattern-is-stored-rule", "every stored rule text, unchanged, is the pattern handed to RDKit", ms[0] if ms else g.node, ok,
           f"{[src(gf.expand(c.args[0], gf.cfg.node_of(c)))[:80] for c in ms if c.args]}")


def check(eng, res):
    res.doc("R-FF-TYPE-ID", "type ids are injective (counter in lockstep with new types), the id and name tables are inverse, parameters are looked up through them")
    res.doc("R-FF-ROLE", "argument-role dataflow in get_assignment_class: constructor roles, cache key pairs, every compared variable assigned")
    res.doc("R-FF-GUARDS", "partial molecules refused before typing; hydrogens added; dedicated error from the partial dictionary, molecule attached, re-raised; typing read-only")
    res.doc("R-FF-DEFAULTS", "None resolves to the bundled files, which are package data")
    ff_role(eng, res)
    ff_guards(eng, res)
    ff_defaults(eng, res)
    ff_type_ids(eng, res)
    from . import c06

    res.doc("R-FULLY", "fully_generated == no open descriptor (what 'partially generated' means; shared with C06)")
    c06.fully(eng, res)
    res.doc("R-FF-RULE-VERBATIM", "rule patterns reach the matcher exactly as written in the rule file")
    ff_rule_verbatim(eng, res)
    g = eng.prog.func("forcefield_helper.SMARTS_ASSIGNMENTS.get_type_assignments")
    for n in own_nodes(g.node):
        if isinstance(n, ast.Expr) and isinstance(n.value, ast.Call) and callee_name(n.value) in ("RuntimeError", "ValueError", "Exception"):
            res.info(f"{g.module.relpath}:{n.lineno} an exception object is constructed but not raised in the rule matcher")
    res.floor("R-FF-ROLE", sum(1 for o in res.obligations if o.rule == "R-FF-ROLE"), 6)
    # history-free: no table of the assignment class is shared between instances (shared with C10)
    from . import c10 as _c10

    _sub = type(res)(res.prop)
    _c10.shared_mutable(eng, _sub)
    for _o in _sub.obligations:
        if "forcefield" in _o.function or "SMARTS" in _o.function:
            res.obligations.append(_o)
    res.doc("R-NO-SHARED-MUTABLE", "no lookup table of the assignment class lives in the class body (one set of tables per instance; shared with C10)")
    cls_tables = [st for st in eng.prog.cls("SMARTS_ASSIGNMENTS").node.body if isinstance(st, ast.Assign)]
    res.ob("R-NO-SHARED-MUTABLE", "forcefield_helper.SMARTS_ASSIGNMENTS", "no-class-level-tables", "the assignment class binds no table in its class body", "-", not [st for st in cls_tables if isinstance(st.value, (ast.Dict, ast.List, ast.Set, ast.Call))],
           f"{[src(st)[:40] for st in cls_tables]}")
    res.assumptions += ["the bundled data files are those of the pinned tree (content not analysed)"]
    res.not_decided += ["element-consistent masses (content of the data files)", "independence of atom numbering (RDKit substructure matching)", "totality on typable chemistry"]
