"""C18 — atom-graph generation yields trees of whole residues joined along graph edges (structural part)."""
from __future__ import annotations

import ast

from ..loader import AnalysisError, FuncInfo, norm, own_nodes, src
from ..util import callee_name, calls, kwarg, with_nested
from . import c08

LEVEL = "other"
CLS = "graph_generate.AtomGraph"
FILL = f"{CLS}._fill_static_edges"


def methods(eng):
    ci = eng.prog.cls("AtomGraph")
    out = []
    for fs in ci.methods.values():
        for f in fs:
            out += with_nested(f)
    return out


# ---------------------------------------------------------------------- R-AG-FILL (flow of node ids into the static completion)


def _carriers(fi: FuncInfo, seeds):
    """Names that carry the value of any seed name through plain assignments `x = y`."""
    S = set(seeds)
    changed = True
    while changed:
        changed = False
        for n in own_nodes(fi.node):
            if isinstance(n, ast.Assign) and len(n.targets) == 1 and isinstance(n.targets[0], ast.Name) and isinstance(n.value, ast.Name) and n.value.id in S:
                if n.targets[0].id not in S:
                    S.add(n.targets[0].id)
                    changed = True
    return S


def fillers(eng):
    """{qualname: set(param names)} — parameters whose value reaches an argument of _fill_static_edges."""
    F = {FILL: {eng.prog.func(FILL).params[1]}}
    ms = methods(eng)
    changed = True
    while changed:
        changed = False
        for f in ms:
            if f.qualname == FILL:
                continue
            for p in f.params[1:]:
                if p in F.get(f.qualname, set()):
                    continue
                S = _carriers(f, {p})
                if _flows_to_filler(eng, f, S, F):
                    F.setdefault(f.qualname, set()).add(p)
                    changed = True
    return F


def _truthy_value(eng, f, v, depth=2) -> bool:
    """the expression is always truthy: a true constant, a non-empty display, or a call of a repository function all of
    whose returns are such values"""
    if isinstance(v, ast.Constant):
        return bool(v.value)
    if isinstance(v, (ast.Dict,)):
        return len(v.keys) > 0
    if isinstance(v, (ast.List, ast.Tuple, ast.Set)):
        return len(v.elts) > 0 and not any(isinstance(e, ast.Starred) for e in v.elts)
    if isinstance(v, ast.Call) and depth > 0:
        ts = eng.repo_callees(f, v)
        if len(ts) != 1:
            return False
        t = ts[0]
        rets = [r for r in own_nodes(t.node) if isinstance(r, ast.Return)]
        if not rets or any(r.value is None for r in rets):
            return False
        tf = eng.flow(t)
        for r in rets:
            rv = r.value
            if isinstance(rv, ast.Name):
                ds = tf.reaching(rv.id, tf.cfg.node_of(r))
                if not ds or not all(d.kind == "assign" and d.value is not None and _truthy_value(eng, t, d.value, depth - 1) for d in ds):
                    return False
            elif not _truthy_value(eng, t, rv, depth - 1):
                return False
        # falling off the end returns None
        last = t.node.body[-1]
        return isinstance(last, (ast.Return, ast.Raise))
    return False


def _keyed_before(f, cfg, d, name, test_nid) -> bool:
    """between the definition d of `name` and the loop test, every path reads `name["<key>"]`: the read succeeds only on
    a mapping that has the key, i.e. on a non-empty (truthy) one — otherwise the path ends in an exception"""
    keyed = set()
    for n in own_nodes(f.node):
        if isinstance(n, ast.Subscript) and isinstance(n.ctx, ast.Load) and isinstance(n.value, ast.Name) and n.value.id == name \
                and isinstance(n.slice, ast.Constant) and isinstance(n.slice.value, str) and cfg.has(n):
            keyed.add(cfg.node_of(n))
    keyed.discard(d.nid)
    if not keyed:
        return False
    starts = [x for x, lab in cfg.succ[d.nid] if lab != "exc"]
    return test_nid not in cfg.reachable(starts, avoid_nodes=keyed, skip_exc=True)


def _never_false_loop_tests(eng, f):
    """F-edges of `while <name>:` tests whose every reaching definition is always truthy (the loop ends by break only)."""
    fl = eng.flow(f)
    cfg = fl.cfg
    out = set()
    for w in own_nodes(f.node):
        if isinstance(w, ast.While) and isinstance(w.test, ast.Name):
            nid = cfg.node_of(w)
            ds = fl.reaching(w.test.id, nid)
            if ds and all(d.kind == "assign" and d.value is not None and (_truthy_value(eng, f, d.value) or _keyed_before(f, cfg, d, w.test.id, nid)) for d in ds):
                for dst, lab in cfg.succ[nid]:
                    if lab == "F":
                        out.add((nid, dst, lab))
    return frozenset(out)


def _flows_to_filler(eng, f, S, F, site=None):
    """True when a carrier of the id is an argument of a completing call; with `site` given that call must lie on every
    path from the site to the function's normal exit (None: it flows there, but only on some paths)."""
    cfg = eng.flow(f).cfg if site is not None else None
    dead = _never_false_loop_tests(eng, f) if site is not None else frozenset()
    some = False
    for c in calls(f):
        for t in eng.repo_callees(f, c):
            ps = F.get(t.qualname)
            if not ps:
                continue
            for i, a in enumerate(c.args):
                idx = i + 1  # bound method: skip self
                if idx < len(t.params) and t.params[idx] in ps and isinstance(a, ast.Name) and a.id in S:
                    if site is None or cfg.must_follow(cfg.node_of(site), cfg.node_of(c), avoid_edges=dead):
                        return True
                    some = True
    return None if some else False


def ag_fill(eng, res, rule="R-AG-FILL"):
    F = fillers(eng)
    ms = methods(eng)
    add_node = f"{CLS}._add_node"
    n = 0
    returns_id = {}  # function -> True if it returns an id obtained from _add_node without completing it

    def check_site(f, var, site, depth=0):
        S = _carriers(f, {var})
        fl_ = _flows_to_filler(eng, f, S, F, site)
        if fl_:
            return True, "flows into the static completion"
        if fl_ is None:
            return False, "the static completion of the entered atom's residue is skipped on some path (it must follow every entry)"
        # returned to the caller: every caller must complete it
        rets = [r for r in own_nodes(f.node) if isinstance(r, ast.Return) and isinstance(r.value, ast.Name) and r.value.id in S]
        if rets and depth < 3:
            callers = []
            for g in ms:
                for c in calls(g):
                    if f in eng.repo_callees(g, c):
                        callers.append((g, c))
            if not callers:
                return False, "returned, but the function has no caller"
            for g, c in callers:
                st = c
                while not isinstance(st, ast.stmt):
                    st = getattr(st, "_parent")
                if not (isinstance(st, ast.Assign) and isinstance(st.targets[0], ast.Name)):
                    return False, f"returned to {g.name}, which drops it"
                ok, why = check_site(g, st.targets[0].id, c, depth + 1)
                if not ok:
                    return False, f"returned to {g.name}: {why}"
            return True, "returned and completed by every caller"
        return False, "the id is used for the bond and then dropped: the residue of the entered atom is never completed (only its attachment atom exists)"

    for f in ms:
        if f.qualname in (FILL, add_node):
            continue
        for c in calls(f, "_add_node"):
            st = c
            while not isinstance(st, ast.stmt):
                st = getattr(st, "_parent")
            n += 1
            res.unit(f)
            if not (isinstance(st, ast.Assign) and isinstance(st.targets[0], ast.Name)):
                res.ob(rule, f, f"site:{f.name}", "a node entered over a stochastic / termination / transition edge gets its residue completed", c, False, "the id returned by _add_node is not kept")
                continue
            ok, why = check_site(f, st.targets[0].id, c)
            res.ob(rule, f, f"site:{f.name}", "the id of a node entered over a stochastic / termination / transition edge flows into _fill_static_edges (directly, via the returned value, or as the next round's node)",
                   c, ok, why)
    # the static completion itself: whole residue
    fi = eng.prog.func(FILL)
    res.unit(fi)
    body = src(fi.node)
    fl = eng.flow(fi)
    tree = [d for d in fl.defs if d.kind == "assign" and isinstance(d.value, ast.Call) and callee_name(d.value) == "dfs_tree"]
    ok = len(tree) == 1 and src(tree[0].value.args[0]) == "self.static_graph" and "stochastic_node" in src(fl.expand_names(kwarg(tree[0].value, "source") or tree[0].value.args[1], tree[0].nid))
    loops = [l for l in own_nodes(fi.node) if isinstance(l, ast.For)]
    ok = ok and len(loops) == 2 and src(loops[0].iter) == tree[0].name
    res.ob(rule, fi, "whole-residue", "the completion visits every atom reachable over static edges from the seed atom (the whole residue) ...", fi.node, ok)
    adds = calls(fi, "_add_node")
    ok = len(adds) == 1 and loops and loops[0] in fl.cfg.enclosing_loops(adds[0])
    if ok:
        g = [src(t) for t, pol in fl.cfg.guard_exprs(fl.cfg.node_of(adds[0])) if pol]
        ok = len(g) == 1 and "!= node" in g[0] and all(isinstance(k.value, ast.Constant) and k.value.value is True for k in adds[0].keywords)
    res.ob(rule, fi, "adds-every-other-atom", "... adds each of them except the seed itself, open for further links", adds[0] if adds else fi.node, ok)
    from .c17 import locate

    ae = calls(fi, "add_edge")
    cur = fi.params[1]
    e_, nd_ = locate(fi, ["for $E in self.static_graph.edges($MAP.keys(), data=True)", "$A = $MAP[$E[0]]", "$B = $MAP[$E[1]]", "$BT = $E[2]['bond_type']", "self.graph.add_edge($A, $B, bond_type=$BT)",
                          f"$MAP = {{self.graph.nodes[{cur}]['stochastic_node']: {cur}}}", "$MAP[$N] = $LOCAL"])
    ok = len(ae) == 1 and e_ is not None and len(loops) == 2 and loops[1] in fl.cfg.enclosing_loops(ae[0]) and not fl.cfg.guard_exprs(fl.cfg.node_of(ae[0]))
    res.ob(rule, fi, "adds-every-static-bond", "... and every static bond among them with that bond's order", ae[0] if ae else fi.node, ok)
    return n


# ---------------------------------------------------------------------- R-AG-EDGE-ORIGIN


def ag_edge_origin(eng, res, rule="R-AG-EDGE-ORIGIN"):
    n = 0
    for f in methods(eng):
        if f.qualname == FILL:
            continue
        fl = eng.flow(f)
        cfg = fl.cfg
        for c in calls(f, "add_edge"):
            if src(c.func.value) != "self.graph":
                continue
            n += 1
            res.unit(f)
            at = cfg.node_of(c)
            A = fl.expand_names(c.args[0], at)
            B = fl.expand_names(c.args[1], at)
            T = fl.expand_names(kwarg(c, "bond_type"), at) if kwarg(c, "bond_type") is not None else None
            ok = False
            why = f"add_edge({src(A)[:60]}, {src(B)[:80]}, bond_type={src(T)[:60] if T is not None else None})"
            if isinstance(B, ast.Call) and callee_name(B) == "_add_node" and B.args and T is not None:
                X = B.args[0]
                xs, ts, as_ = src(X), src(T), src(A)
                # form 1: E[0][1] / E[1]['bond_type'] of the same selected tuple E, A = <options>['node'] with E = <options>[...edges][idx]
                if xs.endswith("[0][1]") and ts.endswith("[1]['bond_type']") and xs[: -len("[0][1]")] == ts[: -len("[1]['bond_type']")]:
                    E = xs[: -len("[0][1]")]
                    owner = E.split("[", 1)[0]
                    ok = as_.startswith(owner + "[") and as_.endswith("['node']") and "_edges']" in E
                    why = f"selected edge {E[:70]}; source {as_[:50]}"
                # form 2: fields of one record built by the termination picker
                elif xs.endswith("['edge'][1]") and ts.endswith("['bond_type']") and as_.endswith("['node']"):
                    rec = {xs[: -len("['edge'][1]")], ts[: -len("['bond_type']")], as_[: -len("['node']")]}
                    ok = len(rec) == 1
                    why = f"record {sorted(rec)}"
            res.ob(rule, f, f"site:{f.name}", "a non-static bond joins the node owning the edge list and a node created from the selected edge's target, with the selected edge's order", c, ok, why)
    # the termination picker returns consistent fields
    tp = eng.prog.func(f"{CLS}._next_termination_edge")
    res.unit(tp)
    fl = eng.flow(tp)
    rets = [r for r in own_nodes(tp.node) if isinstance(r, ast.Return) and isinstance(r.value, ast.Dict)]
    ok = len(rets) == 1
    if ok:
        d = {k.value: src(fl.expand_names(v, fl.cfg.node_of(rets[0]))) for k, v in zip(rets[0].value.keys, rets[0].value.values)}
        e_, b_ = d.get("edge", ""), d.get("bond_type", "")
        lpn = [l for l in fl.cfg.enclosing_loops(rets[0]) if isinstance(l, ast.For) and src(l.iter) in ("self.graph.nodes()", "self.graph", "self.graph.nodes")]
        nvar = lpn[0].target.id if lpn and isinstance(lpn[0].target, ast.Name) else "?"
        e_, b_ = d.get("edge", ""), d.get("bond_type", "")
        ok = d.get("node") == nvar and e_.endswith("[0]") and b_.endswith("[1]['bond_type']") and e_[:-3] == b_[: -len("[1]['bond_type']")] \
            and e_.startswith(f"self.graph.nodes[{nvar}]['termination_edges'][")
        why = f"{d}"
    else:
        why = f"{len(rets)} dict return(s)"
    res.ob(rule, tp, "termination-record", "the termination pick returns node, edge and order of the same selected entry of that node's own termination list", tp.node, ok, why)
    ex = [src(t) for t, pol in fl.cfg.guard_exprs(fl.cfg.node_of(rets[0])) if pol] if rets else []
    ok = any("exempt_node" in g for g in ex)
    res.ob(rule, tp, "exempt-node", "the node chosen to keep growing is exempt from the provisional termination", tp.node, ok, f"{ex}")
    return n


# ---------------------------------------------------------------------- R-AG-RNG / picks


def ag_rng(eng, res, rule="R-AG-RNG"):
    n = 0
    for f in methods(eng):
        fl = eng.flow(f)
        for c in calls(f, "choice"):
            n += 1
            res.unit(f)
            ok = src(c.func.value) == "self.rng"
            res.ob(rule, f, f"pick:{f.name}", "the pick uses the generator given to the AtomGraph", c, ok, f"receiver {src(c.func.value)}")
            p = kwarg(c, "p")
            if p is None:
                res.ob("R-AG-RNG", f, f"pick:{f.name}:p", "the pick is weighted", c, False, "no p=")
            else:
                okn, why = c08.normalised(fl, p, fl.cfg.node_of(c))
                res.ob(rule, f, f"pick:{f.name}:p", "the pick's probabilities are the edge weights divided by their sum", c, okn, why)
        for c in calls(f, "draw_mw"):
            n += 1
            a = c.args[0] if c.args else kwarg(c, "rng")
            res.ob(rule, f, f"draw:{f.name}", "the target mass is drawn with the generator given to the AtomGraph", c, a is not None and src(a) == "self.rng", f"argument {src(a) if a is not None else 'missing'}")
    # picks made in module-level helpers: the generator must be a parameter that every caller fills with self.rng
    ms = methods(eng)
    for q, h in sorted(eng.prog.functions.items()):
        if h.module.name != "graph_generate" or h in ms or h.cls is not None:
            continue
        for c in calls(h, "choice") + calls(h, "draw_mw") + calls(h, "random") + calls(h, "uniform"):
            recv = c.func.value if isinstance(c.func, ast.Attribute) else None
            prm = recv.id if isinstance(recv, ast.Name) and recv.id in h.params else None
            n += 1
            res.unit(h)
            if prm is None and callee_name(c) == "draw_mw":
                a = c.args[0] if c.args else kwarg(c, "rng")
                prm = a.id if isinstance(a, ast.Name) and a.id in h.params else None
            if prm is None:
                res.ob(rule, h, f"helper-pick:{h.name}", "a helper's random pick uses a generator it is handed as a parameter", c, False, f"receiver {src(recv) if recv is not None else '?'}")
                continue
            pos = h.params.index(prm)
            sites = [(g, cc) for g in ms for cc in calls(g) if h in eng.repo_callees(g, cc)]
            bad = []
            for g, cc in sites:
                a = cc.args[pos] if len(cc.args) > pos else kwarg(cc, prm)
                if a is None or src(a) != "self.rng":
                    bad.append(f"{g.name} line {cc.lineno}: {src(a) if a is not None else 'not supplied (the default generator is used)'}")
            res.ob(rule, h, f"helper-pick:{h.name}", "every caller hands the AtomGraph's own generator to the helper that makes a random pick", c, bool(sites) and not bad, "; ".join(bad) or "no caller")
    init = eng.prog.func(f"{CLS}.__init__")
    res.unit(init)
    fl = eng.flow(init)
    dr = [c for c in calls(init, "default_rng")]
    ok = len(dr) == 1 and not dr[0].args and any(src(t) == "self.rng is None" and pol for t, pol in fl.cfg.guard_exprs(fl.cfg.node_of(dr[0])))
    st = [s for s in own_nodes(init.node) if isinstance(s, ast.Assign) and src(s.targets[0]) == "self.rng" and isinstance(s.value, ast.Name)]
    ok = ok and len(st) == 1 and st[0].value.id == "rng"
    res.ob(rule, init, "fallback-only-when-none", "the unseeded generator is created only when no generator was supplied", init.node, ok)
    # per-instance state
    mp = [s for s in own_nodes(init.node) if isinstance(s, ast.Assign) and src(s.targets[0]) == "self._mw_draw_map"]
    res.ob(rule, init, "draw-map-per-instance", "drawn target masses are remembered per AtomGraph instance", init.node, len(mp) == 1 and src(mp[0].value) == "{}")
    return n


def ag_fresh_state(eng, res, rule="R-AG-FRESH-STATE"):
    """Each generate() builds its molecule in a new graph: the assignment of an empty graph dominates every node / edge
    insertion of the call (an AtomGraph may be asked for several molecules)."""
    res.doc(rule, "generate() starts from a new empty graph (nothing of an earlier molecule is kept)")
    g = eng.prog.func(f"{CLS}.generate")
    res.unit(g)
    cfg = eng.flow(g).cfg
    st = [s for s in own_nodes(g.node) if isinstance(s, ast.Assign) and src(s.targets[0]) == "self.graph"]
    fresh = [s for s in st if isinstance(s.value, ast.Call) and src(s.value.func).split(".")[-1] == "Graph" and not s.value.args]
    uses = [c for c in calls(g) if isinstance(c.func, ast.Attribute) and src(c.func.value) == "self" and c.func.attr.startswith("_") and c.func.attr not in ("_find_start_source",)]
    uses += [c for c in calls(g, "add_edge")]
    ok = len(fresh) == 1 and len(st) == 1 and bool(uses) and all(cfg.must_pass(cfg.node_of(fresh[0]), cfg.node_of(u)) for u in uses)
    res.ob(rule, g, "new-graph-per-call", "an empty graph is assigned before the first node or edge of the call is inserted", fresh[0] if fresh else g.node, ok,
           f"{len(fresh)} assignment(s) of a new graph in generate()")


def ag_mol(eng, res, rule="R-AG-MOL"):
    f = eng.prog.func(f"{CLS}.to_mol")
    res.unit(f)
    fl = eng.flow(f)
    cfg = fl.cfg
    aa = calls(f, "AddAtom")
    ab = calls(f, "AddBond")
    ok = len(aa) == 1 and len(ab) == 1
    why = f"{len(aa)} AddAtom, {len(ab)} AddBond site(s)"
    if ok:
        la = [l for l in cfg.enclosing_loops(aa[0]) if isinstance(l, ast.For)]
        lb = [l for l in cfg.enclosing_loops(ab[0]) if isinstance(l, ast.For)]
        ok = len(la) == 1 and len(lb) == 1 and src(la[0].iter) == "self.graph.nodes(data=True)" and src(lb[0].iter) == "self.graph.edges(data=True)"
        va, vb = la[0].target.id, lb[0].target.id
        atom = src(fl.expand_names(aa[0].args[0], cfg.node_of(aa[0])))
        ok = ok and atom == f"Chem.Atom({va}[1]['atomic_num'])" and not [g for g in cfg.guard_exprs(cfg.node_of(aa[0]))]
        b = [src(fl.expand_names(a, cfg.node_of(ab[0]))) for a in ab[0].args]
        ok = ok and b == [f"{vb}[0]", f"{vb}[1]", f"Chem.BondType({vb}[2]['bond_type'])"] and not [g for g in cfg.guard_exprs(cfg.node_of(ab[0]))]
        ok = ok and cfg.node_of(lb[0]) in cfg.reachable([cfg.node_of(la[0])])
        why = f"atom {atom}; bond {b}"
    res.ob(rule, f, "atoms-and-bonds", "one atom per graph node (in node order, so indices agree) and one bond per graph edge with that edge's order", f.node, ok, why)
    san = calls(f, "SanitizeMol")
    rets = [r for r in own_nodes(f.node) if isinstance(r, ast.Return)]
    ok = len(san) == 1 and len(rets) == 1 and cfg.must_pass(cfg.node_of(san[0]), cfg.node_of(rets[0])) and src(san[0].args[0]) == src(rets[0].value)
    res.ob(rule, f, "sanitised", "the molecule returned is the one that passed sanitisation", f.node, ok)
    an = eng.prog.func(f"{CLS}._add_node")
    res.unit(an)
    fl = eng.flow(an)
    from .c17 import locate as _loc

    P = an.params[1]
    e3, nd3 = _loc(an, ["$ID = len(self.graph)", f"$ND = self.stochastic_graph.nodes[{P}]", "return $ID"])
    adds = calls(an, "add_node")
    ok = e3 is not None and len(adds) == 1 and src(adds[0].args[0]) == e3["ID"] and fl.cfg.must_pass(fl.cfg.node_of(nd3["$ID = len(self.graph)"]), fl.cfg.node_of(adds[0]))
    kws = {k.arg: src(k.value) for k in adds[0].keywords} if adds else {}
    ok = ok and kws.get("atomic_num") == f"{e3['ND']}['atomic_num']" and kws.get("stochastic_node") == P
    res.ob(rule, an, "node-ids-dense", "node ids are dense (the count before adding) and each node remembers its element and its source atom", an.node, ok, f"{kws}")
    # edge lists per kind, only when allowed
    e4, _ = _loc(an, [f"$EDGES = self.stochastic_graph.out_edges({P}, data=True)", "for $FE in $EDGES", "$ED = $FE[2]",
                      f"if _is_transition_edge($ED) and {an.params[2]}", f"if _is_termination_edge($ED) and {an.params[3]}", f"if _is_stochastic_edge($ED) and {an.params[4]}"])
    ok = e4 is not None
    res.ob(rule, an, "edge-lists", "a new node inherits the outgoing stochastic / termination / transition edges of its source atom, each kind only when allowed", an.node, ok)


def ag_consume(eng, res, rule="R-AG-CONSUME"):
    """A node that has just formed a non-static bond offers no further edge: its edge lists are cleared
    (sibling rule over the bonding sites; the transition site clears the transition lists of all nodes)."""
    import re

    n = 0
    REQUIRED = {"_add_stochastic_connection": {"stochastic", "termination", "transition"},
                "_terminate_graph": {"stochastic", "termination", "transition"},
                "generate": {"transition"}}
    for f in methods(eng):
        if f.name not in REQUIRED or f.qualname == FILL:
            continue
        fl = eng.flow(f)
        cfg = fl.cfg
        bonds = [c for c in calls(f, "add_edge") if src(c.func.value) == "self.graph"]
        if not bonds:
            continue
        for c in bonds:
            n += 1
            res.unit(f)
            at = cfg.node_of(c)
            A = src(fl.expand_names(c.args[0], at))
            cleared = {}
            sources = [(f, x) for x in calls(f, "clear")]
            # helpers called with the source node: inline one level
            for h in calls(f):
                for t in eng.repo_callees(f, h):
                    if t.cls is not None and t.cls.name == "AtomGraph" and t.qualname != FILL and any(src(fl.expand_names(a, cfg.node_of(h))) == A for a in h.args):
                        for x in calls(t, "clear"):
                            sources.append((t, x, h))
            for item in sources:
                owner, x = item[0], item[1]
                via = item[2] if len(item) > 2 else None
                ofl = eng.flow(owner)
                tgt = src(ofl.expand_names(x.func.value, ofl.cfg.node_of(x)))
                m = re.fullmatch(r"self\.graph\.nodes\[(.+)\]\['(\w+)_edges'\]", tgt)
                if not m:
                    continue
                node_txt, kind = m.group(1), m.group(2)
                if via is not None:
                    # bind the helper's parameter to the argument
                    prm = owner.params[1:]
                    amap = {p: src(fl.expand_names(a, cfg.node_of(via))) for p, a in zip(prm, via.args)}
                    node_txt = amap.get(node_txt, node_txt)
                    pos = cfg.node_of(via)
                else:
                    pos = cfg.node_of(x)
                loops = [l for l in (ofl.cfg.enclosing_loops(x)) if isinstance(l, ast.For)]
                all_nodes = any(src(l.iter) in ("self.graph", "self.graph.nodes()", "self.graph.nodes") and isinstance(l.target, ast.Name) and l.target.id == node_txt for l in loops)
                if node_txt == A or all_nodes:
                    before = cfg.must_pass(pos, at) if not all_nodes else cfg.must_pass(cfg.node_of(loops[0]) if via is None else pos, at)
                    after = cfg.must_follow(at, pos) if not all_nodes else False
                    if before or after:
                        cleared[kind] = True
            need = REQUIRED[f.name]
            missing = sorted(need - set(cleared))
            res.ob(rule, f, f"site:{f.name}", f"the node that forms the bond gives up its {', '.join(sorted(need))} edge list(s) on every path (a used attachment point offers nothing further)",
                   c, not missing, f"not cleared for the bonding node {A[:40]}: {missing}")
    return n


def ag_static_graph(eng, res, rule="R-AG-STATIC-GRAPH"):
    """The static template keeps, for every atom pair, the attributes of the edge that *is* static."""
    f = eng.prog.func(f"{CLS}._build_static_graph")
    res.unit(f)
    fl = eng.flow(f)
    cfg = fl.cfg
    ae = [c for c in calls(f, "add_edge")]
    ok = len(ae) == 1
    why = f"{len(ae)} add_edge site(s)"
    if ok:
        c = ae[0]
        kw = [k for k in c.keywords if k.arg is None]
        ok = len(kw) == 1 and isinstance(kw[0].value, ast.Name)
        why = "attributes are not passed as **<edge data>"
        if ok:
            V = kw[0].value.id
            at = cfg.node_of(c)
            tests = [t for t in calls(f, "_is_static_edge") if t.args and isinstance(t.args[0], ast.Name)]
            ok = False
            why = f"**{V} is not tied to the edge for which _is_static_edge held"
            for t in tests:
                tv = t.args[0].id
                tn = cfg.node_of(t)
                st = cfg.nodes[tn].stmt
                if not isinstance(st, ast.If):
                    continue
                loops = [l for l in cfg.enclosing_loops(t) if isinstance(l, ast.For)]
                lp = loops[0] if loops else None
                # flag assigned in the true branch
                flags = [s_ for s_ in st.body if isinstance(s_, ast.Assign) and isinstance(s_.targets[0], ast.Name) and isinstance(s_.value, ast.Name) and s_.value.id == tv]
                if not flags:
                    continue
                F = flags[0].targets[0].id
                guarded = any(pol and (src(g) == F or src(g).startswith(F + " and")) for g, pol in cfg.guard_exprs(at)) or any(
                    pol and F in [x for x, p_ in __import__("sa.rules.c16", fromlist=["conjuncts"]).conjuncts(g, pol) if p_] for g, pol in cfg.guard_exprs(at))
                if V == F:
                    ok = guarded
                    why = f"**{F}: the saved static edge" if ok else f"add_edge not guarded by {F}"
                elif V == tv and lp is not None:
                    # the loop variable: only right if the loop is left immediately after the successful test
                    starts = [d for d, l in cfg.succ[tn] if l == "T"]
                    hn = cfg.node_of(lp)
                    outer = {cfg.node_of(l) for l in loops[1:]}
                    revisits = hn in cfg.reachable(starts, avoid_nodes=outer | {at})
                    ok = guarded and not revisits
                    why = (f"**{V} is the loop variable and the loop is left right after the static edge was found" if ok
                           else f"**{V} is the loop variable but the loop continues after a static edge was found: a later parallel (stochastic) edge supplies the bond order")
    res.ob(rule, f, "static-attributes", "the static template takes its bond order from the edge that is static, never from a parallel stochastic / transition edge", ae[0] if ae else f.node, ok, why)
    # nodes copied with their attributes; reverse duplicates skipped
    e, _ = __import__("sa.rules.c17", fromlist=["locate"]).locate(f, ["for $N in self.stochastic_graph.nodes(data=True)", "$G.add_node($N[0], **$N[1])", "return $G"])
    res.ob(rule, f, "nodes-copied", "every atom of the stochastic graph is a node of the static template with its attributes", f.node, e is not None)


def _const_dict(mod, name):
    """module-level `NAME = {"k": <const>, ...}` -> {k: value}, else None"""
    for st in mod.tree.body:
        if isinstance(st, ast.Assign) and len(st.targets) == 1 and isinstance(st.targets[0], ast.Name) and st.targets[0].id == name and isinstance(st.value, ast.Dict):
            out = {}
            for k, v in zip(st.value.keys, st.value.values):
                if not (isinstance(k, ast.Constant) and isinstance(k.value, str)):
                    return None
                out[k.value] = v.value if isinstance(v, ast.Constant) else "?"
            return out
        if isinstance(st, ast.Assign) and len(st.targets) == 1 and isinstance(st.targets[0], ast.Name) and st.targets[0].id == name and isinstance(st.value, ast.Call) and callee_name(st.value) == "dict" and not st.value.args:
            return {k.arg: (k.value.value if isinstance(k.value, ast.Constant) else "?") for k in st.value.keywords if k.arg}
    return None


def _effective_flags(eng, f, c, add_node):
    """[(function, call, {flag: True / False / '?'})] — the permissions an `_add_node` call ends up with.  Flags that are
    not written at the call come from `_add_node`'s defaults; `**CONST` is read from the module-level table; a wrapper that
    forwards its own `**kwargs` is resolved at each of the wrapper's call sites."""
    names = add_node.params[1:]
    a = add_node.node.args
    pos = [x.arg for x in a.posonlyargs + a.args]
    defaults = {}
    for nm, d in zip(pos[len(pos) - len(a.defaults):], a.defaults):
        defaults[nm] = d.value if isinstance(d, ast.Constant) else "?"
    for nm, d in zip([x.arg for x in a.kwonlyargs], a.kw_defaults):
        if d is not None:
            defaults[nm] = d.value if isinstance(d, ast.Constant) else "?"
    wanted = [nm for nm in names if nm.endswith("_allowed")]

    def read(call, owner, forward_depth):
        vals = {}
        for i, x in enumerate(call.args):
            # positional arguments of a *direct* _add_node call
            if forward_depth == 0 and i < len(names):
                vals[names[i]] = x.value if isinstance(x, ast.Constant) else "?"
        fwd = False
        for k in call.keywords:
            if k.arg is not None:
                if k.arg in wanted:
                    vals[k.arg] = k.value.value if isinstance(k.value, ast.Constant) else "?"
            elif isinstance(k.value, ast.Name):
                tab = _const_dict(owner.module, k.value.id)
                if tab is not None:
                    for kk, vv in tab.items():
                        if kk in wanted:
                            vals[kk] = vv
                elif owner.node.args.kwarg is not None and owner.node.args.kwarg.arg == k.value.id:
                    fwd = True
                else:
                    for w in wanted:
                        vals.setdefault(w, "?")
            else:
                for w in wanted:
                    vals.setdefault(w, "?")
        return vals, fwd

    vals, fwd = read(c, f, 0)
    if not fwd:
        return [(f, c, {w: vals.get(w, defaults.get(w, "?")) for w in wanted})]
    out = []
    for g in methods(eng):
        for c2 in calls(g, f.name):
            v2, fwd2 = read(c2, g, 1)
            merged = dict(vals)
            merged.update(v2)
            if fwd2:
                for w in wanted:
                    merged.setdefault(w, "?")
            out.append((g, c2, {w: merged.get(w, defaults.get(w, "?")) for w in wanted}))
    return out


def ag_entry_flags(eng, res, rule="R-AG-ENTRY-FLAGS"):
    """An atom entered over a stochastic / termination / transition edge arrives through one of its descriptors: it
    offers none of its own links (all three permissions False).  The start atom and the atoms added by the static
    completion have used none: they offer all three."""
    res.doc(rule, "an atom entered over a non-static edge offers none of its own links (the entering descriptor is used up); start / static-completion atoms offer all")
    n = 0
    add_node = eng.prog.func(f"{CLS}._add_node")
    for f in methods(eng):
        if f.name == "_add_node":
            continue
        for c in calls(f, "_add_node"):
            st = c
            while not isinstance(st, ast.stmt):
                st = st._parent
            var = st.targets[0].id if isinstance(st, ast.Assign) and isinstance(st.targets[0], ast.Name) else None
            # entered over a link: the new id is an endpoint of a bond created in this function
            carriers = _carriers(f, {var}) if var else set()
            entered = any(any(isinstance(a, ast.Name) and a.id in carriers for a in e.args[:2]) for e in calls(f, "add_edge") if src(e.func.value) == "self.graph") and f.name != "_fill_static_edges"
            want = (not entered)
            for g, c2, vals in _effective_flags(eng, f, c, add_node):
                ok = len(vals) == 3 and all(v is want for v in vals.values())
                n += 1
                res.unit(g)
                via = "" if g is f else f" (through {f.name})"
                res.ob(rule, g, f"flags:{g.name}@{n}", ("an atom entered over a link is added with all three permissions False" if entered else "a start / static-completion atom is added with all three permissions True") + via,
                       c2, ok, f"{vals}")
    res.floor(rule, n, 5)


def ag_block_end(eng, res, rule="R-AG-BLOCK-END"):
    """When a block's target mass is reached every pending stochastic and termination option of the block is dropped
    (the termination made for the test is kept as it is); capping happens only inside the block's growth loop."""
    res.doc(rule, "at the end of a block all pending stochastic / termination options are dropped unconditionally; _terminate_graph is only called from the block's growth loop; the start search visits every atom")
    f = eng.prog.func(f"{CLS}._fill_stochastic_edges")
    res.unit(f)
    cfg = eng.flow(f).cfg
    clears = [c for c in calls(f, "clear") if isinstance(c.func.value, ast.Subscript) and isinstance(c.func.value.slice, ast.Constant) and c.func.value.slice.value in ("stochastic_edges", "termination_edges")]
    kinds = {}
    for c in clears:
        lp = [l for l in cfg.enclosing_loops(c) if isinstance(l, ast.For)]
        inner = lp[0] if lp else None
        uncond = inner is not None and not [t for t, p in cfg.guard_exprs(cfg.node_of(c)) if isinstance(getattr(t, "_parent", None), ast.If) and _within(getattr(t, "_parent"), inner)]
        whole = inner is not None and src(inner.iter) in ("self.graph", "self.graph.nodes", "self.graph.nodes()")
        kinds[c.func.value.slice.value] = uncond and whole
    ok = kinds == {"stochastic_edges": True, "termination_edges": True}
    res.ob(rule, f, "drop-all-options", "when the target mass is reached, the stochastic and the termination options of every atom are cleared (no exemption)", clears[0] if clears else f.node, ok, f"{kinds}")
    callers = sorted({g.name for g in methods(eng) for c in calls(g, "_terminate_graph")})
    res.ob(rule, f, "capping-callers", "capping (_terminate_graph) is only invoked by the block's growth loop", f.node, callers == ["_fill_stochastic_edges"], f"called from {callers}")
    # start search
    g = eng.prog.func(f"{CLS}._find_start_source")
    res.unit(g)
    loops = [l for l in own_nodes(g.node) if isinstance(l, ast.For) and src(l.iter) in ("self.stochastic_graph", "self.stochastic_graph.nodes", "self.stochastic_graph.nodes()")]
    ok = False
    why = f"{len(loops)} loop(s) over all atoms"
    if len(loops) == 1:
        lp = loops[0]
        v = lp.target.id if isinstance(lp.target, ast.Name) else None
        rets = [r for r in ast.walk(lp) if isinstance(r, ast.Return) and isinstance(r.value, ast.Name) and r.value.id == v]
        trees = [c for c in ast.walk(lp) if isinstance(c, ast.Call) and callee_name(c) == "dfs_tree"]
        ok = bool(rets) and len(trees) == 1 and src(trees[0].args[0]) == "self.stochastic_graph" and src(kwarg(trees[0], "source") or (trees[0].args[1] if len(trees[0].args) > 1 else ast.Constant(None))) == v
        why = f"returns the loop's atom: {bool(rets)}; spanning tree from it: {len(trees) == 1}"
    res.ob(rule, g, "start-search", "the start atom is searched among all atoms of the graph (the first one that reaches every atom)", g.node, ok, why)


def _within(n, anc):
    while n is not None:
        if n is anc:
            return True
        n = getattr(n, "_parent", None)
    return False


def check(eng, res):
    from ..fresh import fresh_flags

    res.doc("R-FRESH-FLAG", "A-FRESH: no condition flag tested inside a loop keeps its value from a previous iteration")
    fresh_flags(eng, res, {'graph_generate'})
    res.doc("R-AG-CONSUME", "a node that forms a non-static bond clears its edge lists (typestate open -> used), at all three bonding sites")
    res.doc("R-AG-STATIC-GRAPH", "the static template's bond orders come from static edges only")
    res.doc("R-AG-FILL", "typestate by def-use flow: every node id obtained from _add_node outside the static completion reaches _fill_static_edges; the completion covers the whole residue")
    res.doc("R-AG-EDGE-ORIGIN", "a non-static bond joins the edge list's owner and a node created from the selected edge's target, with that edge's order")
    res.doc("R-AG-RNG", "all picks and the draw use self.rng with weights / their sum; unseeded fallback only for None; per-instance draw map")
    res.doc("R-AG-MOL", "to_mol: one atom per node, one bond per edge with its order, sanitised; dense node ids")
    n = ag_fill(eng, res)
    res.floor("R-AG-FILL", n, 4)
    n = ag_edge_origin(eng, res)
    res.floor("R-AG-EDGE-ORIGIN", n, 3)
    n = ag_rng(eng, res)
    res.floor("R-AG-RNG", n, 5)
    ag_fresh_state(eng, res)
    ag_entry_flags(eng, res)
    ag_block_end(eng, res)
    n = ag_consume(eng, res)
    res.floor("R-AG-CONSUME", n, 3)
    ag_static_graph(eng, res)
    ag_mol(eng, res)
    res.assumptions += ["networkx dfs_tree / edges(nbunch) semantics", "RDKit AddAtom returns consecutive indices"]
    res.not_decided += ["termination for every graph with a start node", "connectedness / tree-ness and sanitisation of the result", "equality under equal seeds (beyond rng threading)"]
