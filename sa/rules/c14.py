"""C14 — generated ensembles have the declared composition by mass (one information-flow condition).

If components are picked independently with a probability vector p that is a function of the
declared fractions only, the expected mass share of component i is p_i*m_i / sum_j p_j*m_j, which
equals the declared fraction for every declaration only when all mean molecular masses m coincide.
The property quantifies over mass ratios up to 100, hence p (or the pick law) must read masses.
"""
from __future__ import annotations

import ast

from ..loader import AnalysisError, norm, own_nodes, src
from ..util import callee_name, calls, kwarg
from . import c08, c13

LEVEL = "other"

MASS_CALLS = {"HeavyAtomMolWt", "MolWt", "ExactMolWt", "CalcExactMolWt"}


def mass_aware(term) -> list:
    """Mass-aware sources inside a provenance term."""
    out = []
    for n in ast.walk(term):
        if isinstance(n, ast.Call) and callee_name(n) in MASS_CALLS:
            out.append(src(n)[:50])
        if isinstance(n, ast.Attribute) and n.attr in ("weight", "mass", "mean_mass", "mol_weight") and any(
            isinstance(c, ast.Call) and callee_name(c) == "generate" for c in ast.walk(n.value)
        ):
            out.append(src(n)[:50])
        if isinstance(n, ast.Attribute) and n.attr in ("mean_molecular_mass", "average_mass", "mean_mass", "number_average", "expected_mass"):
            out.append(src(n)[:50])
    return out


def check(eng, res):
    res.doc("R-PICK-MASS", "the backward slice of the component pick's probability vector in the ensemble generator contains a mass-aware source")
    res.doc("R-PICK-FRACTION", "the probability vector contains the declared share of every component (one traversal, index-aligned) and is divided by its own sum; only picked components are generated")
    n = 0
    for q, ensemble in (("system.System.generator", True), ("system.System.generate", False)):
        n += _pick(eng, res, eng.prog.func(q), ensemble)
    res.floor("R-PICK-FRACTION", n, 2)
    # the declared share the pick reads is the number that was written: the linked setters store their argument as given (shared with C12)
    from . import c12

    sub = type(res)(res.prop)
    c12.mass_algebra(eng, sub)
    res.obligations += [o for o in sub.obligations if o.role in ("argument-stored-verbatim", "param-is-quantity")]
    res.doc("R-MASS-ALGEBRA", "the mixture setters store the caller's value itself (the share used for the pick is the declared one; shared with C12)")
    res.assumptions += ["components are generated independently per pick (R-MEMBER, C13)"]
    res.not_decided += ["convergence of mass shares (statistical)", "that a repaired, mass-aware law converges to the declared composition"]


def _pick(eng, res, fi, ensemble: bool) -> int:
    res.unit(fi)
    flow = eng.flow(fi)
    cfg = flow.cfg
    ch = calls(fi, "choice")
    if len(ch) != 1:
        # a pick that is not an i.i.d. draw at all (e.g. deficit driven): look for mass-aware selection
        res.ob("R-PICK-MASS" if ensemble else "R-PICK-FRACTION", fi, "p-argument of the component pick", "component selection by one weighted random pick", fi.node, False,
               f"{len(ch)} rng.choice call(s): component pick not identified")
        return 0
    c = ch[0]
    at = cfg.node_of(c)
    p = kwarg(c, "p")
    if p is None:
        res.ob("R-PICK-FRACTION", fi, "p-argument of the component pick", "the pick is weighted by the declared shares", c, False,
               "rng.choice without p=: components are picked uniformly, whatever was declared")
        return 0
    if ensemble:
        full = flow.expand(p, at, depth=14)  # full backward slice incl. loop-carried definitions
        srcs = mass_aware(full)
        res.ob(
            "R-PICK-MASS",
            fi,
            "p-argument of the component pick",
            "the pick law reads masses (generated weight, heavy-atom mass, accumulated per-component mass or a mean-mass estimate)",
            c,
            bool(srcs),
            f"p = {src(flow.expand_ssa(p, at))[:160]}: sources are the declared percentages only — mass shares converge to p_i*m_i/Σ p_j*m_j, not to the declaration",
        )
    # ---- R-PICK-FRACTION
    ok_norm, why = c08.normalised(flow, p, at)
    res.ob("R-PICK-FRACTION", fi, "normalised", "p is divided by its own sum", c, ok_norm, why)
    t = flow.expand_ssa(p, at)
    comps = [n for n in ast.walk(t) if isinstance(n, ast.ListComp)]
    ok = False
    why2 = f"no traversal of this system's component list in p (p = {src(t)[:80]})"
    for lc in comps:
        if c13._one_traversal_of_molecules(lc):
            elt = src(lc.elt)
            var = lc.generators[0].target.id if isinstance(lc.generators[0].target, ast.Name) else "?"
            if elt in (f"{var}.mixture.relative_mass", f"{var}.mixture.absolute_mass"):
                ok = True
                why2 = f"shares: {elt} of every component"
            else:
                why2 = f"traversal collects {elt}, not the declared share"
    res.ob("R-PICK-FRACTION", fi, "declared-shares", "p contains the declared share (relative or absolute mass) of every component of this system, in component order", c, ok, why2)
    cand = c13._plain_range(flow.expand_ssa(c.args[0], at)) if c.args else None
    # range(len(<the comprehension>)) — or range(len(<its iterable>)) when the comprehension has no filter (same length)
    okc = cand is not None and isinstance(cand, ast.Call) and callee_name(cand) == "range" and len(cand.args) == 1 and any(
        norm(cand.args[0]) == norm(ast.parse(f"len({src(lc)})", mode="eval").body)
        or (len(lc.generators) == 1 and not lc.generators[0].ifs and norm(cand.args[0]) == norm(ast.parse(f"len({src(lc.generators[0].iter)})", mode="eval").body))
        for lc in comps
    )
    res.ob("R-PICK-FRACTION", fi, "aligned-candidates", "the drawn number indexes the same traversal that produced p", c, okc, f"candidates {src(cand)[:80] if cand is not None else None}")
    # every molecule generated here is generated from the picked component (no forced / extra members)
    gens = [g for g in calls(fi, "generate") if isinstance(g.func, ast.Attribute)]
    bad = []
    for g in gens:
        recv = flow.expand_ssa(g.func.value, cfg.node_of(g))
        if not (isinstance(recv, ast.Subscript) and src(recv.value) == "self._molecules" and isinstance(recv.slice, ast.Call) and callee_name(recv.slice) == "choice"):
            bad.append(f"line {g.lineno}: {src(recv)[:60]}.generate(…)")
    res.ob("R-PICK-FRACTION", fi, "only-picked-components", "every molecule generated here is generated from the component the weighted pick selected", gens[0] if gens else fi.node, bool(gens) and not bad,
           "; ".join(bad) if bad else "no generate call")
    return 1
